"""Closed deterministic world around the *unmodified* pyikev2 modules imported from the repository's working tree.

Every source of nondeterminism is replaced from outside (no edit to /repo is needed because the code is single-threaded):
  time.time        -> virtual clock advanced only by the driver
  os.urandom       -> while endpoint e runs, 4- and 8-octet draws are SPI tokens  e | counter  (so the n-th SPI an endpoint
                      draws *is* token <<e, n>> of spec/Ike.tla); other sizes come from a seeded stream
  random.*         -> jitter chosen by the driver; SystemRandom().randrange -> nonce length chosen by the driver
  netlink socket   -> fakekernel.Kernel (one per endpoint, decoding the real request bytes at the kernel's offsets)
Kernel events are encoded by the harness at the kernel's offsets and parsed by the daemon's own Xfrm.parse_message, exactly as
main_loop does.
"""
import io
import logging
import os
import random as _random
import socket
import sys
import time as _time
import traceback as _traceback
from ipaddress import ip_address

import common
import fakekernel

common.repo_import_guard()
logging.indent = None
import netlink      # noqa: E402
import xfrm         # noqa: E402
import crypto       # noqa: E402
import message      # noqa: E402
import configuration  # noqa: E402
import ikesa        # noqa: E402
import ikesacontroller  # noqa: E402
from ikesa import IkeSa   # noqa: E402
from ikesacontroller import IkeSaController  # noqa: E402

ADDR4 = {'A': '192.168.0.1', 'B': '192.168.0.2', 'C': '192.168.0.3'}
ADDR6 = {'A': '2001:db8::1', 'B': '2001:db8::2', 'C': '2001:db8::3'}

_CUR = None        # the active World


class _Shim:
    """Module stand-in: delegates everything to the real module except the overridden names."""

    def __init__(self, real, **over):
        self.__dict__['_real'] = real
        self.__dict__.update(over)

    def __getattr__(self, name):
        return getattr(self._real, name)


def _urandom(n):
    w = _CUR
    if w is None:
        return os.urandom(n)
    return w.urandom(n)


def _now():
    w = _CUR
    return _time.time() if w is None else w.now


def _uniform(a, b):
    w = _CUR
    if w is None:
        return _random.uniform(a, b)
    w.uniform_calls.append((a, b))
    return a + (b - a) * w.jitter


def _randint(a, b):
    w = _CUR
    if w is None:
        return _random.randint(a, b)
    if (a, b) == (0, 2 ** 20):
        # the loader's draw of a policy index for a protect entry without one: a draw per entry (reproducible), not the jitter fraction - every entry would
        # get the same index otherwise, which is the harness's doing and not the loader's
        rng = w.__dict__.setdefault('index_rng', _random.Random(0x1d5eed))
        return rng.randint(a, b)
    return a + int((b - a) * w.jitter)


class _FakeSystemRandom:
    def randrange(self, a, b=None):
        w = _CUR
        if w is None:
            return _random.SystemRandom().randrange(a, b)
        return max(a, min(b - 1, w.nonce_len))


class _TracebackShim:
    def __getattr__(self, name):
        return getattr(_traceback, name)

    @staticmethod
    def print_exc(*a, **k):
        w = _CUR
        text = _traceback.format_exc()
        if w is not None:
            w.internal_errors.append(text)
        else:
            sys.stderr.write(text)


_INSTALLED = False
REGISTRY = []          # every IkeSa object created while a world is active


def install():
    """Attribute replacement from outside; idempotent."""
    global _INSTALLED
    if _INSTALLED:
        return
    _INSTALLED = True
    os_shim = _Shim(os, urandom=_urandom)
    time_shim = _Shim(_time, time=_now)
    for mod in (ikesa, ikesacontroller, message, crypto, netlink):
        if hasattr(mod, 'os'):
            mod.os = os_shim
        if hasattr(mod, 'time'):
            mod.time = time_shim
    ikesa.random = _Shim(_random, uniform=_uniform, randint=_randint)
    xfrm.random = _Shim(_random, uniform=_uniform, randint=_randint)
    configuration.random = _Shim(_random, uniform=_uniform, randint=_randint)
    message.SystemRandom = _FakeSystemRandom
    ikesa.traceback = _TracebackShim()

    def _get_socket(cls, groups):
        w = _CUR
        if w is None or w.cur is None:
            raise common.MachineryError('netlink socket requested outside World.call')
        return fakekernel.FakeNetlinkSocket(w.kernel[w.cur])
    netlink.NetlinkProtocol._get_socket = classmethod(_get_socket)

    orig_init = IkeSa.__init__

    def _init(self, *a, **k):
        orig_init(self, *a, **k)
        REGISTRY.append(self)
        w = _CUR
        if w is not None:
            self._verif_owner = w.cur
            self._verif_born = w.step_no
    IkeSa.__init__ = _init

    # Diffie-Hellman observers (C18: work counter; C04/C20: shared secrets)
    for cls in (crypto.MODPDH, crypto.ECDH):
        def wrap(cls=cls):
            o_init, o_cs = cls.__init__, cls.compute_secret

            def __init__(self, group):
                o_init(self, group)
                w = _CUR
                if w is not None:
                    w.dh_log.append(('keygen', w.cur, int(group)))

            def compute_secret(self, peer_public_key):
                o_cs(self, peer_public_key)
                w = _CUR
                if w is not None:
                    w.dh_log.append(('secret', w.cur, int(self.group)))
                    w.dh_secrets.append((self, bytes(peer_public_key), bytes(self.shared_secret)))
            cls.__init__ = __init__
            cls.compute_secret = compute_secret
        wrap()

    o_prf = crypto.Prf.prf

    def prf(self, key, data):
        out = o_prf(self, key, data)
        w = _CUR
        if w is not None and w.record_prf:
            w.prf_log.append((self.hasher().name, bytes(key), bytes(data), out))
        return out
    crypto.Prf.prf = prf


LOG_SITES = set()      # (file, line) of every INFO+ logging call of the implementation that was executed in this process


def _call_site():
    """(file name, line) of the statement of the implementation that logged: the first frame outside logging and outside the log_* helpers."""
    f = sys._getframe(2)
    while f is not None:
        co = f.f_code
        name = os.path.basename(co.co_filename)
        if 'logging' not in co.co_filename and not co.co_name.startswith('log_') and co.co_name not in ('emit', '_call_site', 'handle', 'callHandlers'):
            return name, f.f_lineno
        f = f.f_back
    return '?', 0


class _LogCapture(logging.Handler):
    def __init__(self, world):
        super().__init__(level=logging.DEBUG)
        self.world = world

    def emit(self, record):
        w = self.world
        if record.levelno >= logging.INFO:
            try:
                text = record.getMessage()
            except Exception as ex:            # a formatting error is an observation of its own
                text = f'<unformattable {ex!r}>'
            if record.exc_info:
                text += '\n' + ''.join(_traceback.format_exception(*record.exc_info))
            w.log_info.append((record.levelno, text, w.cur, w.step_no))
            LOG_SITES.add(_call_site())
        elif w.keep_debug:
            w.log_debug.append(record.getMessage())
        else:
            w.debug_count += 1


_RSA = None


def rsa_pems():
    """Two fixed RSA key pairs (generated once, cached next to the harness)."""
    global _RSA
    if _RSA is None:
        import json
        path = os.path.join(os.path.dirname(os.path.abspath(__file__)), 'data', 'rsa_keys.json')
        if not os.path.exists(path):
            from cryptography.hazmat.primitives.asymmetric import rsa
            from cryptography.hazmat.primitives import serialization
            out = {}
            for name in ('A', 'B', 'C', 'X'):
                k = rsa.generate_private_key(public_exponent=65537, key_size=2048)
                out[name] = {
                    'priv': k.private_bytes(serialization.Encoding.PEM, serialization.PrivateFormat.TraditionalOpenSSL,
                                            serialization.NoEncryption()).decode(),
                    'pub': k.public_key().public_bytes(serialization.Encoding.PEM,
                                                       serialization.PublicFormat.SubjectPublicKeyInfo).decode()}
            os.makedirs(os.path.dirname(path), exist_ok=True)
            with open(path, 'w') as fh:
                json.dump(out, fh, indent=1)
        _RSA = json.load(open(path))
    return _RSA


DEFAULT_OPTS = dict(
    v6=False, auth='psk',
    ike_encr=['aes256'], ike_integ=['sha256'], ike_prf=['sha256'], ike_dh=['ecp256'],
    proto='esp', child_encr=['aes256'], child_integ=['sha256'], child_dh=[],
    mode='transport', ip_proto='tcp', my_port=0, peer_port=0, my_subnet=None, peer_subnet=None,
    lifetime=100000, dpd=100000, child_lifetime=5, index=None, extra_protect=(),
)


def addr_of(e, v6=False):
    return (ADDR6 if v6 else ADDR4)[e]


def connection_dict(e, peer, opts=None, **kw):
    """Configuration dictionary (as the YAML loader would produce it) of endpoint e for its connection with `peer`."""
    o = dict(DEFAULT_OPTS)
    o.update(opts or {})
    o.update(kw)
    ids = {'A': 'alice@example.org', 'B': 'bob.example.org', 'C': 'carol@example.org'}
    psks = {'A': 'psk-of-alice-0123', 'B': 'psk-of-bob-4567', 'C': 'psk-of-carol-89ab'}
    if o['auth'] == 'psk':
        my_auth = {'id': ids[e], 'psk': psks[e]}
        peer_auth = {'id': ids[peer], 'psk': psks[peer]}
    else:
        keys = rsa_pems()
        my_auth = {'id': ids[e], 'privkey': keys[e]['priv']}
        peer_auth = {'id': ids[peer], 'pubkey': keys[peer]['pub']}
    protect = {'index': o['index'] if o['index'] is not None else {'A': 1, 'B': 2, 'C': 3}[e],
               'ip_proto': o['ip_proto'], 'mode': o['mode'], 'lifetime': o['child_lifetime'],
               'ipsec_proto': o['proto'], 'encr': list(o['child_encr']), 'integ': list(o['child_integ']),
               'dh': list(o['child_dh']), 'my_port': o['my_port'], 'peer_port': o['peer_port']}
    if o['my_subnet']:
        protect['my_subnet'] = o['my_subnet']
    if o['peer_subnet']:
        protect['peer_subnet'] = o['peer_subnet']
    return {
        'my_addr': addr_of(e, o['v6']), 'peer_addr': addr_of(peer, o['v6']),
        'my_auth': my_auth, 'peer_auth': peer_auth,
        'encr': list(o['ike_encr']), 'integ': list(o['ike_integ']), 'prf': list(o['ike_prf']), 'dh': list(o['ike_dh']),
        'lifetime': o['lifetime'], 'dpd': o['dpd'],
        'protect': [protect] + [dict(p) for p in o['extra_protect']],
    }


class World:
    def __init__(self, conf=None, endpoints=('A', 'B'), seed=0, opts=None, opts_by_ep=None, cookie_threshold=None,
                 nonce_len=32, jitter=0.0, start=True, keep_debug=False, record_prf=False, t0=1000.0):
        """conf: {endpoint: configuration dict} or None (then built from opts / opts_by_ep for the pair A-B)."""
        global _CUR
        install()
        self.endpoints = tuple(endpoints)
        self.cur = None
        self.now = float(t0)
        self.seed = seed
        self.rng = _random.Random(seed)
        self.draws = {e: 0 for e in self.endpoints}
        self.nonce_len = nonce_len
        self.jitter = jitter
        self.uniform_calls = []
        self.step_no = 0
        self.internal_errors = []
        self.dh_log = []
        self.dh_secrets = []
        self.prf_log = []
        self.record_prf = record_prf
        self.log_info = []
        self.log_debug = []
        self.debug_count = 0
        self.keep_debug = keep_debug
        self.kernel = {e: fakekernel.Kernel(e) for e in self.endpoints}
        self.ctl = {}
        self.cfg = {}
        self.escapes = []           # (step, endpoint, entry point, exception repr)
        self.started = set()
        self.v6 = bool((opts or {}).get('v6'))
        if conf is None:
            conf = {}
            for e in self.endpoints[:2]:
                peer = self.endpoints[1] if e == self.endpoints[0] else self.endpoints[0]
                o = dict(opts or {})
                o.update((opts_by_ep or {}).get(e, {}))
                conf[e] = {f'{e}-{peer}': connection_dict(e, peer, o)}
        self.conf = conf
        _CUR = self
        REGISTRY.clear()
        root = logging.getLogger()
        for h in list(root.handlers):
            root.removeHandler(h)
        root.setLevel(logging.DEBUG if keep_debug else logging.INFO)
        self.handler = _LogCapture(self)
        root.addHandler(self.handler)
        self.cookie_threshold = cookie_threshold
        if start:
            for e in self.endpoints:
                if e in conf:
                    self.start(e)

    # ------------------------------------------------------------------ plumbing
    def activate(self):
        global _CUR
        _CUR = self

    def urandom(self, n):
        e = self.cur
        if e is not None and n in (4, 8):
            self.draws[e] += 1
            return e.encode() + self.draws[e].to_bytes(n - 1, 'big')
        return bytes(self.rng.getrandbits(8) for _ in range(n))

    def my_addresses(self, e):
        out = []
        for c in self.conf[e].values():
            try:
                a = ip_address(c['my_addr'])
            except Exception:
                continue
            if a not in out:
                out.append(a)
        return out

    def start(self, e):
        """(Re)start the daemon of endpoint e against its persistent kernel: Configuration + IkeSaController."""
        self.cur = e
        try:
            addrs = self.my_addresses(e)
            self.cfg[e] = configuration.Configuration(addrs, self.conf[e])
            self.ctl[e] = IkeSaController(addrs, self.cfg[e])
            if self.cookie_threshold is not None:
                self.ctl[e].cookie_threshold = self.cookie_threshold
        finally:
            self.cur = None
        if e not in self.started:      # (a restarted daemon must not re-use the SPI tokens of its previous incarnation)
            self.draws[e] = 0          # the controller's cookie secret consumed one 8-octet draw
        self.started.add(e)
        return self.ctl[e]

    def call(self, e, fn, *a, **k):
        prev, self.cur = self.cur, e          # (nesting-safe: the main_loop harness answers for the peer from inside a send)
        try:
            return fn(*a, **k)
        finally:
            self.cur = prev

    def guarded(self, e, name, fn, *a):
        """Call an entry point; an exception leaving it is recorded (and re-raised as Escape)."""
        self.step_no += 1
        try:
            return self.call(e, fn, *a)
        except common.MachineryError:
            raise
        except BaseException as ex:      # noqa: B902 - everything that leaves an entry point is an observation
            tb = _traceback.extract_tb(ex.__traceback__)
            site = next((f'{os.path.basename(f.filename)}:{f.name}' for f in reversed(tb)
                         if f.filename.startswith(common.REPO)), '?')
            self.escapes.append((self.step_no, e, name, type(ex).__name__, str(ex)[:200], site))
            raise Escape(name, ex, site) from ex

    # ------------------------------------------------------------------ entry points as main_loop uses them
    def peer_of(self, e):
        return next(x for x in self.endpoints[:2] if x != e)

    def dispatch(self, e, data, src=None):
        src = src or self.peer_of(e)
        log = self.__dict__.setdefault('delivered', {}).setdefault(e, [])      # the last datagrams handed to e (material for forgeries: C03)
        log.append(bytes(data))
        del log[:-8]
        return self.guarded(e, 'dispatch_message', self.ctl[e].dispatch_message, bytes(data),
                            ip_address(addr_of(e, self.v6)), addr_of(src, self.v6))

    def acquire(self, e, peer=None, sport=0, dport=0, proto=6, index=None, sel_saddr=None, sel_daddr=None, raw=None):
        """Kernel ACQUIRE as main_loop handles it: bytes -> Xfrm.parse_message -> process_acquire."""
        peer = peer or self.peer_of(e)
        if index is None:
            index = next(iter(self.cfg[e].ike_configurations.values())).protect[0].index
        me, pe = addr_of(e, self.v6), addr_of(peer, self.v6)
        data = raw or fakekernel.enc_acquire(me, pe, sel_saddr or me, sel_daddr or pe, sport, dport, proto, (index << 3) | 1)

        def run():
            header, msg, attributes = xfrm.Xfrm.parse_message(data)
            return self.ctl[e].process_acquire(msg, attributes)
        reply, my_addr, peer_addr = self.guarded(e, 'process_acquire', run)
        return reply

    def expire(self, e, spi, hard, proto=50, daddr=None):
        data = fakekernel.enc_expire(daddr or addr_of(e, self.v6), spi, proto, hard)

        def run():
            header, msg, attributes = xfrm.Xfrm.parse_message(data)
            return self.ctl[e].process_expire(msg)
        reply, my_addr, peer_addr = self.guarded(e, 'process_expire', run)
        return reply

    def sweep(self, e):
        """One pass of the timer part of the REAL main_loop (ikesacontroller.py: check retransmissions / reap, start DPD, start rekeys): main_loop is
        entered with scripted sockets, its first select() returns with nothing readable (the 1 s timeout), the loop body runs its timer section and
        the second select() ends the visit.  Returns the list of (kind, ike_sa, datagram) in the order the loop transmitted / reaped."""
        ctl = self.ctl[e]
        sent = []

        class _EndOfVisit(BaseException):
            pass

        class _Sock:
            def __init__(s_, kind):
                s_.kind = kind

            def bind(s_, a):
                pass

            def setsockopt(s_, *a):
                pass

            def listen(s_, *a):
                pass

            def close(s_):
                pass

            def fileno(s_):
                return 11

            def sendto(s_, data, dst):
                sent.append((bytes(data), dst))

        class _SocketModule:
            def __getattr__(s_, n):
                return getattr(socket, n)

            def socket(s_, family=None, type_=None, *a):
                return _Sock('tcp' if type_ == socket.SOCK_STREAM else 'udp')
        calls = {'n': 0}

        def fake_select(r, w_, x, timeout=None):
            calls['n'] += 1
            if calls['n'] > 1:
                raise _EndOfVisit()
            return [], [], []
        before = [(sa, sa.state, sa.retransmissions, bytes(sa.request.to_bytes()) if getattr(sa, 'request', None) is not None else None) for sa in ctl.ike_sas]
        keep = (ikesacontroller.socket, ikesacontroller.select, xfrm.Xfrm.__dict__.get('get_socket'))
        ikesacontroller.socket, ikesacontroller.select = _SocketModule(), fake_select
        xfrm.Xfrm.get_socket = classmethod(lambda cls: _Sock('xfrm'))
        keep_ctl = getattr(ctl, 'control_socket', None)

        def run():
            try:
                ctl.main_loop()
            except _EndOfVisit:
                pass
        try:
            self.guarded(e, 'timers', run)
        finally:
            ikesacontroller.socket, ikesacontroller.select = keep[0], keep[1]
            if keep[2] is not None:
                xfrm.Xfrm.get_socket = keep[2]
            if keep_ctl is not None:
                ctl.control_socket = keep_ctl
        # label what the loop did, per IKE_SA in table order (the loop's three passes are per pass in table order, too)
        out, pending = [], list(sent)
        passes = {'retransmit': [], 'reaped': [], 'dpd': [], 'rekey': []}
        for sa, st, retx, reqbytes in before:
            if sa not in ctl.ike_sas:
                passes['reaped'].append(sa)
            elif sa.state == st and sa.retransmissions > retx:
                passes['retransmit'].append(sa)
            elif sa.state != st and sa.state == IkeSa.State.DPD_REQ_SENT:
                passes['dpd'].append(sa)
            elif sa.state != st:
                passes['rekey'].append(sa)
        for sa, st, retx, reqbytes in before:          # first pass of the loop: retransmission or reaping, interleaved per IKE_SA
            if sa in passes['retransmit']:
                out.append(('retransmit', sa, pending.pop(0)[0] if pending else None))
            elif sa in passes['reaped']:
                out.append(('reaped', sa, None))
        for kind in ('dpd', 'rekey'):
            for sa in passes[kind]:
                out.append((kind, sa, pending.pop(0)[0] if pending else None))
        for data, dst in pending:                       # anything the labelling cannot explain is reported as such
            out.append(('unexplained', None, data))
        return out

    def timer(self, e, sa, which):
        """Let one timer of one IKE_SA fire: the caller has made it due; the timer section of the REAL main_loop runs once (sweep) and the datagram it
        transmitted for this IKE_SA is returned.  Reaping of a closed IKE_SA is the loop's own."""
        want = {'check_retransmission_timer': ('retransmit', 'reaped'), 'check_dead_peer_detection_timer': ('dpd',), 'check_rekey_ike_sa_timer': ('rekey',)}[which]
        # only the named timer of this IKE_SA may fire during the visit: every other deadline of this endpoint is held back and put back afterwards
        # (unless the visit itself has set it anew)
        keepf = {'check_retransmission_timer': ('retransmit_at',), 'check_dead_peer_detection_timer': ('start_dpd_at',),
                 'check_rekey_ike_sa_timer': ('rekey_ike_sa_at', 'delete_ike_sa_at')}[which]
        held = []
        for x in self.ctl[e].ike_sas:
            for f in ('retransmit_at', 'start_dpd_at', 'rekey_ike_sa_at', 'delete_ike_sa_at'):
                val = getattr(x, f, None)
                if isinstance(val, (int, float)) and not (x is sa and f in keepf):
                    setattr(x, f, val + 1e12)
                    held.append((x, f, val))
        try:
            out = self.sweep(e)
        finally:
            for x, f, val in held:
                if getattr(x, f, None) == val + 1e12:
                    setattr(x, f, val)
        other = [(k, s_) for k, s_, d in out if d is not None and not (s_ is sa and k in want)]
        if other:
            raise common.MachineryError(f'timer {which}: the loop also transmitted {[(k, tok(s_.my_spi) if s_ is not None else None) for k, s_ in other]} - '
                                        'the driver expected a single due timer')
        return next((d for k, s_, d in out if s_ is sa and d is not None), None)

    # ------------------------------------------------------------------ helpers for drivers
    def establish(self, initiator='A', **acq):
        """Run the initial exchanges to completion (lossless). Returns the list of datagrams exchanged."""
        e = initiator
        m = self.acquire(e, **acq)
        log = []
        hops = 0
        while m is not None and hops < 12:
            log.append((e, bytes(m)))
            dst = self.peer_of(e)
            m = self.dispatch(dst, m, e)
            e = dst
            hops += 1
        return log

    def sas(self, e):
        return list(self.ctl[e].ike_sas)

    def close(self):
        global _CUR
        logging.getLogger().removeHandler(self.handler)
        if _CUR is self:
            _CUR = None


class Escape(Exception):
    """An exception left an entry point of the implementation."""

    def __init__(self, entry, ex, site):
        super().__init__(f'{type(ex).__name__} escaped {entry} at {site}: {ex}')
        self.entry = entry
        self.ex = ex
        self.site = site


def tok(b):
    """SPI octets -> token [endpoint, n] of spec/Ike.tla ([] for the zero / empty SPI)."""
    b = bytes(b)
    if not b or b == b'\0' * len(b):
        return []
    return [chr(b[0]), int.from_bytes(b[1:], 'big')]


def untok(t, n):
    if not t:
        return b'\0' * n
    return t[0].encode() + int(t[1]).to_bytes(n - 1, 'big')
