"""Binding B: record executions of the real code under seeded random schedules (one event per public call, logged at its return,
with arguments, reply and projected post-state) and have TLC validate them against spec/IkeTrace.tla."""
import json
import os
import random
import shutil
import subprocess
import tempfile

import common
import ikemodel
import ikereplay
import world as wd
from ikereplay import jkey
from world import IkeSa, tok

NONE_MSG = {'x': 'none'}


def enabled_actions(w, rnd):
    acts = []
    for e in 'AB':
        acts.append({'a': 'CtlAcquire', 'e': e})
        for sa in w.ctl[e].ike_sas:
            t = tok(sa.my_spi)
            for c in sa.child_sas:
                acts.append({'a': 'CtlExpire', 'e': e, 'spi': tok(c.inbound_spi), 'hard': rnd.random() < 0.5})
            if sa.state == IkeSa.State.ESTABLISHED:
                acts += [{'a': 'TrigRekeyIke', 's': t}, {'a': 'TrigDeleteIke', 's': t}, {'a': 'TrigDpd', 's': t}]
            elif rnd.random() < 0.3:
                acts.append({'a': 'TimerIdle', 's': t, 'which': rnd.choice(('rekeyike', 'delike', 'dpd'))})
            if sa.state.name in ikereplay.WAITING and sa.request is not None:
                s = w.emitted.get(bytes(sa.request.to_bytes()))
                if s is not None and jkey(s) not in w.net:
                    acts += [{'a': 'Retransmit', 's': t}, {'a': 'GiveUp', 's': t}]
    deliveries = []
    for k in w.net:
        m = json.loads(k)
        deliveries.append({'a': 'Deliver', 'm': m, 'keep': rnd.random() < 0.15})
        if rnd.random() < 0.1:
            deliveries.append({'a': 'NetDrop', 'm': m})
    return acts, deliveries


def post_state(w):
    p = w.project()
    sas = []
    for k, s in p['sas'].items():
        sas.append({'id': s['id'], 'st': s['st'], 'init': s['init'], 'peer': s['peer'], 'myMid': s['myMid'], 'peerMid': s['peerMid'], 'kids': s['kids'],
                    'npending': len(s['pending'])})
    return {'table': p['table'], 'kern': p['kern'], 'net': [json.loads(k) for k in w.net], 'sas': sas}


def record(sc, seed, depth):
    """One recorded execution. Returns the list of events (or raises wd.Escape / ikereplay.Mismatch from the monitors)."""
    rnd = random.Random(seed)
    w = ikereplay.IkeWorld(sc, seed=seed)
    events = []
    try:
        for _ in range(depth):
            acts, deliveries = enabled_actions(w, rnd)
            pool = deliveries if (deliveries and rnd.random() < 0.7) else acts
            a = rnd.choice(pool)
            if a['a'] == 'Deliver' and a['m']['x'] == 'INIT' and a['m']['resp'] and a['m']['body']['kind'] == 'init_ok':
                sa = ikereplay.find_sa(w, a['m']['si'])
                if sa is not None and sa.state == IkeSa.State.INIT_REQ_SENT:
                    vers = w.init_versions.get(jkey(a['m']['si']), [])
                    sa._verif_gen_at_keys = max(0, len(vers) - 1)
                    sa._verif_peer_gen = a['m']['body']['gen']
            out, sender, ctx = ikereplay.perform(w, a)
            summ = NONE_MSG
            if out is not None:
                if a['a'] == 'Deliver' and a['m']['x'] == 'INIT' and not a['m']['resp']:
                    pre = w.summarize(sender, out, ctx)
                    if pre['body']['kind'] == 'init_ok':
                        w.resp_gen[jkey(pre['sr'])] = a['m']['body']['gen']
                summ = w.note_emitted(sender, out, ctx)
            ev = dict(a, out=summ, post=post_state(w))
            events.append(ev)
    finally:
        w.close()
    return events


TRACE_SC = dict(ikemodel.BASE, IdleTimers=True, MaxTrig=100000, MaxDup=100000, MaxLoss=100000, MaxAdv=0, MaxSpi=100000, StartEstablished=False, FreeRetx=True)


CLAUSES = ('out', 'st', 'mid', 'kids', 'pending', 'kern', 'table', 'net', 'listed')
CLAUSE_OWNER = {'out': 'C09', 'st': 'C09', 'mid': 'C08', 'kids': 'C09', 'pending': 'C09', 'kern': 'C10', 'table': 'C16', 'net': 'C09', 'listed': 'C16', 'enabled': 'C09'}


def diagnose(trace, matched):
    """Name the clause of the trace specification that rejects event `matched` (0-based) of a trace: the clause whose omission lets the
    validation proceed; 'enabled' if the logged action is not enabled at all (or several clauses fail at once)."""
    cut = trace[:matched + 1]
    for c in CLAUSES:
        acc, prog, _ = validate([cut], skip=(c,))
        if prog and prog[0][0] > matched:
            return c
    return 'enabled'


def validate(traces, sc=None, timeout=900, skip=()):
    """Run TLC on IkeTrace.tla over a batch of traces. Returns (accepted: bool, progress: [(matched, length)], tlc result)."""
    sc = dict(sc or TRACE_SC)
    sc['Skip'] = tuple(skip)
    tmp = tempfile.mkdtemp(prefix='verif-trace-')
    try:
        tf = os.path.join(tmp, 'traces.json')
        json.dump(traces, open(tf, 'w'))
        cfg = os.path.join(tmp, 'trace.cfg')
        body = ikemodel.cfg_text(sc, spec='TraceSpec', invariants=ikemodel.ALL_INVARIANTS, constraint=False, view=False)
        body = body.replace('CHECK_DEADLOCK FALSE\n', 'CONSTRAINT ProgressConstraint\nPOSTCONDITION PostCond\nVIEW TraceView\nCHECK_DEADLOCK FALSE\n')
        open(cfg, 'w').write(body)
        res = common.run_tlc('IkeTrace.tla', cfg=cfg, workers=1, timeout=timeout, env={'TRACE_FILE': tf})
        import re
        flat = ' '.join(res.out.split())
        i = flat.find('"TRACE-PROGRESS"')
        progress = []
        if i >= 0:
            j = flat.find('Error', i)
            j2 = flat.find('Model checking', i)
            end = min(x for x in (j, j2, len(flat)) if x > 0)
            progress = [(int(x), int(y)) for x, y in re.findall(r'<<(\d+), (\d+)>>', flat[i:end])]
        if not progress:
            raise common.MachineryError('TLC produced no progress report on IkeTrace.tla:\n' + res.out[-3000:])
        accepted = all(x == y for x, y in progress) and not res.violated
        return accepted, progress, res
    finally:
        shutil.rmtree(tmp, ignore_errors=True)
