"""Lossless two-endpoint sessions judged by the wire oracle (keysched.WireOracle): used by C01 / C02 / C04 / C11 / C12."""
import wire_ref as W
import world as wd
from keysched import WireOracle, OracleError, check_mirror
from world import IkeSa


def creds_of(w):
    """The credential each endpoint authenticates with, taken from its own configuration dictionary."""
    from cryptography.hazmat.primitives import serialization
    out = {}
    for e in w.endpoints[:2]:
        conn = next(iter(w.conf[e].values()))
        a = conn['my_auth']
        c = {'psk': a['psk'].encode() if 'psk' in a else None, 'pub': None}
        if 'privkey' in a:
            c['pub'] = serialization.load_pem_private_key(a['privkey'].encode(), password=None).public_key()
        out[e] = c
    return out


class Session:
    def __init__(self, w, kdf=None):
        self.w = w
        self.oracle = WireOracle(w, creds_of(w), kdf=kdf)
        self.log = []            # (sender, bytes, kind)
        self.kinds = []

    def run(self, e, request, max_hops=16):
        """Carry a request of endpoint e (and every follow-up request) to completion. Returns the list of exchange kinds."""
        kinds = []
        hops = 0
        while request is not None and hops < max_hops:
            hops += 1
            peer = self.w.peer_of(e)
            request = bytes(request)
            self.log.append((e, request))
            response = self.w.dispatch(peer, request, e)
            if response is None:
                kinds.append('unanswered')
                break
            response = bytes(response)
            self.log.append((peer, response))
            kinds.append(self.oracle.exchange(request, response, e, peer))
            request = self.w.dispatch(e, response, peer)
        self.kinds += kinds
        return kinds

    def judge(self):
        """Both endpoints against the oracle; the two kernels against each other."""
        w = self.w
        n = {'ike': 0, 'kernel': 0}
        for e in w.endpoints[:2]:
            for sa in w.ctl[e].ike_sas:
                if sa.ike_sa_keyring is not None and sa.state.name not in ('INIT_RES_SENT',):
                    self.oracle.check_ike_keyring(sa)
                    n['ike'] += 1
            for key, req in w.kernel[e].sad.items():
                self.oracle.check_kernel_sa(e, req, lambda x: wd.addr_of(x, w.v6))
                n['kernel'] += 1
        a, b = w.endpoints[:2]
        check_mirror(w, a, b)
        # identical IKE key rings on both sides of every pair
        for sa in w.ctl[a].ike_sas:
            for sb in w.ctl[b].ike_sas:
                if bytes(sa.my_spi) == bytes(sb.peer_spi) and bytes(sb.my_spi) == bytes(sa.peer_spi) \
                        and sa.ike_sa_keyring is not None and sb.ike_sa_keyring is not None:
                    if tuple(sa.ike_sa_keyring) != tuple(sb.ike_sa_keyring):
                        raise OracleError('ike_keys', f'the two peers hold different keys for IKE_SA {bytes(sa.spi_i).hex()}')
        return n

    # ------------------------------------------------------------------ operations
    def acquire(self, e, **kw):
        return self.run(e, self.w.acquire(e, **kw))

    def _kids(self, e):
        kids = [(s, c) for s in self.w.sas(e) for c in s.child_sas]
        if not kids:
            # every history starts with a negotiation between compatible configurations: it must have installed a CHILD_SA
            raise OracleError('child_missing', f'endpoint {e} holds no CHILD_SA although the negotiations so far ({self.kinds}) should have produced one')
        return kids

    def rekey_child(self, e, which=0):
        kids = self._kids(e)
        s, c = kids[which % len(kids)]
        return self.run(e, self.w.expire(e, bytes(c.inbound_spi), False, proto=50 if c.proposal.protocol_id == 3 else 51))

    def delete_child(self, e, which=0):
        kids = self._kids(e)
        s, c = kids[which % len(kids)]
        return self.run(e, self.w.expire(e, bytes(c.inbound_spi), True, proto=50 if c.proposal.protocol_id == 3 else 51))

    def _established(self, e):
        sa = next((s for s in self.w.sas(e) if s.state == IkeSa.State.ESTABLISHED), None)
        if sa is None:
            raise OracleError('ike_missing', f'endpoint {e} holds no established IKE_SA although the exchanges so far ({self.kinds}) completed')
        return sa

    def delete_ike(self, e):
        """The IKE_SA reaches its hard lifetime limit: DELETE exchange; both ends drop it (a later ACQUIRE starts a new IKE_SA on the same configuration)."""
        sa = self._established(e)
        sa.delete_ike_sa_at = self.w.now - 1
        return self.run(e, self.w.timer(e, sa, 'check_rekey_ike_sa_timer'))

    def rekey_ike(self, e):
        sa = self._established(e)
        sa.rekey_ike_sa_at = self.w.now - 1
        req = self.w.timer(e, sa, 'check_rekey_ike_sa_timer')
        sa.rekey_ike_sa_at = self.w.now + 1e9
        return self.run(e, req)
