"""Independent IKEv2 wire codec, written from RFC 7296 section 3 (not from /repo/message.py).

Abstract payloads are plain dicts with key 't' = payload type number:
  SA      {'t':33,'proposals':[{'num','proto','spi':bytes,'transforms':[{'type','id','keylen':int|None}]}]}
  KE      {'t':34,'group','data'}           IDi/IDr {'t':35|36,'id_type','data'}     AUTH  {'t':39,'method','data'}
  NONCE   {'t':40,'data'}                   NOTIFY  {'t':41,'proto','spi','ntype','data'}
  DELETE  {'t':42,'proto','spis':[bytes]}   VENDOR  {'t':43,'data'}
  TSi/TSr {'t':44|45,'ts':[{'ts_type','proto','sport','eport','saddr':bytes,'eaddr':bytes}]}
  other   {'t':n,'data'}
every payload may carry 'critical': bool (default False).
"""
import hashlib
import hmac
import struct

from cryptography.hazmat.backends import default_backend
from cryptography.hazmat.primitives.ciphers import Cipher, algorithms, modes

SA, KE, IDI, IDR, CERT, CERTREQ, AUTH, NONCE, NOTIFY, DELETE, VENDOR, TSI, TSR, SK = 33, 34, 35, 36, 37, 38, 39, 40, 41, 42, 43, 44, 45, 46
KNOWN = {SA, KE, IDI, IDR, AUTH, NONCE, NOTIFY, DELETE, VENDOR, TSI, TSR, SK}
IKE_SA_INIT, IKE_AUTH, CREATE_CHILD_SA, INFORMATIONAL = 34, 35, 36, 37
XNAME = {34: 'INIT', 35: 'AUTH', 36: 'CCSA', 37: 'INFO'}

INTEG = {2: ('sha1', 12, 20), 12: ('sha256', 16, 32), 14: ('sha512', 32, 64)}   # id -> (hash, icv len, key len)
PRF = {2: ('sha1', 20), 5: ('sha256', 32), 7: ('sha512', 64)}
NOTIFY_NAMES = {1: 'UNSUPPORTED_CRITICAL_PAYLOAD', 4: 'INVALID_IKE_SPI', 5: 'INVALID_MAJOR_VERSION', 7: 'INVALID_SYNTAX',
                9: 'INVALID_MESSAGE_ID', 11: 'INVALID_SPI', 14: 'NO_PROPOSAL_CHOSEN', 17: 'INVALID_KE_PAYLOAD',
                24: 'AUTHENTICATION_FAILED', 34: 'SINGLE_PAIR_REQUIRED', 35: 'NO_ADDITIONAL_SAS', 36: 'INTERNAL_ADDRESS_FAILURE',
                37: 'FAILED_CP_REQUIRED', 38: 'TS_UNACCEPTABLE', 39: 'INVALID_SELECTORS', 43: 'TEMPORARY_FAILURE',
                44: 'CHILD_SA_NOT_FOUND', 16384: 'INITIAL_CONTACT', 16390: 'COOKIE', 16391: 'USE_TRANSPORT_MODE', 16393: 'REKEY_SA'}


class WireError(Exception):
    """Reference decoder verdict: 'syntax' or 'critical'."""

    def __init__(self, kind, msg=''):
        super().__init__(f'{kind}: {msg}')
        self.kind = kind


# ------------------------------------------------------------------------------------------------ encoder
def enc_transform(t):
    body = struct.pack('>BBH', t['type'], 0, t['id'])
    if t.get('keylen'):
        body += struct.pack('>HH', 0x8000 | 14, t['keylen'])
    return body + t.get('raw_attrs', b'')          # (attribute octets an attacker adds: e.g. a Key Length attribute of value 0)


def enc_proposal(p):
    body = struct.pack('>BBBB', p['num'], p['proto'], len(p['spi']), len(p['transforms'])) + p['spi']
    n = len(p['transforms'])
    for i, t in enumerate(p['transforms']):
        tb = enc_transform(t)
        body += struct.pack('>BBH', 0 if i == n - 1 else 3, 0, len(tb) + 4) + tb
    return body


def enc_ts(ts):
    alen = 4 if ts['ts_type'] == 7 else 16
    return struct.pack('>BBHHH', ts['ts_type'], ts['proto'], 8 + 2 * alen, ts['sport'], ts['eport']) + ts['saddr'] + ts['eaddr']


def enc_body(p):
    t = p['t']
    if t == SA:
        out = b''
        n = len(p['proposals'])
        for i, pr in enumerate(p['proposals']):
            pb = enc_proposal(pr)
            out += struct.pack('>BBH', 0 if i == n - 1 else 2, 0, len(pb) + 4) + pb
        return out
    if t == KE:
        return struct.pack('>HH', p['group'], 0) + p['data']
    if t in (IDI, IDR):
        return struct.pack('>B3x', p['id_type']) + p['data']
    if t == AUTH:
        return struct.pack('>B3x', p['method']) + p['data']
    if t == NOTIFY:
        return struct.pack('>BBH', p['proto'], len(p['spi']), p['ntype']) + p['spi'] + p['data']
    if t == DELETE:
        size = len(p['spis'][0]) if p['spis'] else 0
        return struct.pack('>BBH', p['proto'], size, len(p['spis'])) + b''.join(p['spis'])
    if t in (TSI, TSR):
        return struct.pack('>B3x', len(p['ts'])) + b''.join(enc_ts(x) for x in p['ts'])
    return p['data']       # NONCE, VENDOR, unknown


def enc_chain(payloads, last_next=0):
    """Generic payload header chain. Returns (first payload type, bytes)."""
    out = b''
    for i, p in enumerate(payloads):
        nxt = payloads[i + 1]['t'] if i + 1 < len(payloads) else last_next
        body = enc_body(p)
        out += struct.pack('>BBH', nxt, 0x80 if p.get('critical') else 0, len(body) + 4) + body
    return (payloads[0]['t'] if payloads else last_next), out


def enc_header(spi_i, spi_r, first, major, minor, xchg, flags, mid, length):
    return struct.pack('>8s8sBBBBLL', spi_i, spi_r, first, (major << 4) | (minor & 15), xchg, flags, mid, length)


def flags_of(response, version, initiator):
    return (0x20 if response else 0) | (0x10 if version else 0) | (0x08 if initiator else 0)


def aes_cbc(key, iv, data, encrypt):
    c = Cipher(algorithms.AES(key), modes.CBC(iv), backend=default_backend())
    op = c.encryptor() if encrypt else c.decryptor()
    return op.update(data) + op.finalize()


def mac(integ_id, key, data):
    h, icv, _ = INTEG[integ_id]
    return hmac.new(key, data, getattr(hashlib, h)).digest()[:icv]


def enc_message(hdr, payloads, sk=None):
    """hdr: dict(spi_i, spi_r, major, minor, xchg, response, version, initiator, mid).
    sk: None or dict(ke, ka, integ, iv, inner=[payloads]) -> an SK payload is appended after `payloads`."""
    fl = flags_of(hdr['response'], hdr.get('version', False), hdr['initiator'])
    if sk is None:
        first, chain = enc_chain(payloads)
        total = 28 + len(chain)
        return enc_header(hdr['spi_i'], hdr['spi_r'], first, hdr.get('major', 2), hdr.get('minor', 0), hdr['xchg'], fl, hdr['mid'], total) + chain
    inner_first, inner = sk['raw_inner'] if 'raw_inner' in sk else enc_chain(sk['inner'])     # raw_inner: (first payload type, chain octets) as given
    bs = 16
    padlen = (bs - (len(inner) + 1) % bs) % bs
    plain = inner + b'\0' * padlen + bytes([padlen])
    ct = aes_cbc(sk['ke'], sk['iv'], plain, True)
    icv = INTEG[sk['integ']][1]
    first, chain = enc_chain(payloads, last_next=SK)
    skbody_len = len(sk['iv']) + len(ct) + icv
    chain += struct.pack('>BBH', inner_first, 0, skbody_len + 4) + sk['iv'] + ct
    total = 28 + len(chain) + icv
    head = enc_header(hdr['spi_i'], hdr['spi_r'], first, hdr.get('major', 2), hdr.get('minor', 0), hdr['xchg'], fl, hdr['mid'], total)
    return head + chain + mac(sk['integ'], sk['ka'], head + chain)


# ------------------------------------------------------------------------------------------------ decoder
def dec_transform(b):
    if len(b) < 4:
        raise WireError('syntax', 'transform')
    ty, _, tid = struct.unpack('>BBH', b[:4])
    keylen = None
    off = 4
    while off < len(b):
        if len(b) - off < 4:
            raise WireError('syntax', 'transform attribute')
        at, av = struct.unpack('>HH', b[off:off + 4])
        if at & 0x7fff == 14 and keylen is None:
            keylen = av
        off += 4
    return {'type': ty, 'id': tid, 'keylen': keylen}


def dec_proposal(b):
    if len(b) < 4:
        raise WireError('syntax', 'proposal')
    num, proto, spisz, ntr = struct.unpack('>BBBB', b[:4])
    spi = b[4:4 + spisz]
    off = 4 + spisz
    trs = []
    while off < len(b):
        if len(b) - off < 4:
            raise WireError('syntax', 'transform header')
        more, _, ln = struct.unpack('>BBH', b[off:off + 4])
        if ln < 4:
            raise WireError('syntax', 'transform length')
        trs.append(dec_transform(b[off + 4:off + ln]))
        off += ln
    if ntr != len(trs) or not trs:
        raise WireError('syntax', 'number of transforms')
    return {'num': num, 'proto': proto, 'spi': bytes(spi), 'transforms': trs}


def dec_body(t, b):
    if t == SA:
        props, off = [], 0
        while off < len(b):
            if len(b) - off < 4:
                raise WireError('syntax', 'proposal header')
            more, _, ln = struct.unpack('>BBH', b[off:off + 4])
            if ln < 4:
                raise WireError('syntax', 'proposal length')
            props.append(dec_proposal(b[off + 4:off + ln]))
            off += ln
        if not props:
            raise WireError('syntax', 'empty SA')
        return {'t': t, 'proposals': props}
    if t == KE:
        if len(b) < 4:
            raise WireError('syntax', 'KE')
        return {'t': t, 'group': struct.unpack('>H', b[:2])[0], 'data': bytes(b[4:])}
    if t in (IDI, IDR):
        if len(b) < 4:
            raise WireError('syntax', 'ID')
        return {'t': t, 'id_type': b[0], 'data': bytes(b[4:])}
    if t == AUTH:
        if len(b) < 4:
            raise WireError('syntax', 'AUTH')
        return {'t': t, 'method': b[0], 'data': bytes(b[4:])}
    if t == NONCE:
        if not 16 <= len(b) <= 256:
            raise WireError('syntax', 'nonce length')
        return {'t': t, 'data': bytes(b)}
    if t == NOTIFY:
        if len(b) < 4:
            raise WireError('syntax', 'NOTIFY')
        proto, spisz, nt = struct.unpack('>BBH', b[:4])
        return {'t': t, 'proto': proto, 'spi': bytes(b[4:4 + spisz]), 'ntype': nt, 'data': bytes(b[4 + spisz:])}
    if t == DELETE:
        if len(b) < 4:
            raise WireError('syntax', 'DELETE')
        proto, spisz, n = struct.unpack('>BBH', b[:4])
        return {'t': t, 'proto': proto, 'spis': [bytes(b[4 + i * spisz: 4 + (i + 1) * spisz]) for i in range(n)]}
    if t == VENDOR:
        if not b:
            raise WireError('syntax', 'empty vendor id')
        return {'t': t, 'data': bytes(b)}
    if t in (TSI, TSR):
        if len(b) < 4:
            raise WireError('syntax', 'TS')
        n = b[0]
        off, tss = 4, []
        while off < len(b):
            if len(b) - off < 8:
                raise WireError('syntax', 'selector header')
            tt, proto, ln, sp, ep = struct.unpack('>BBHHH', b[off:off + 8])
            alen = 4 if tt == 7 else 16
            if ln < 8 or len(b) - off < 8 + 2 * alen or ln < 8 + 2 * alen:
                raise WireError('syntax', 'selector')
            tss.append({'ts_type': tt, 'proto': proto, 'sport': sp, 'eport': ep,
                        'saddr': bytes(b[off + 8:off + 8 + alen]), 'eaddr': bytes(b[off + 8 + alen:off + 8 + 2 * alen])})
            off += ln
        if n != len(tss):
            raise WireError('syntax', 'number of selectors')
        return {'t': t, 'ts': tss}
    return {'t': t, 'data': bytes(b)}


def dec_chain(b, first, parse_bodies=True):
    """RFC 7296 3.2: returns (payload list, sk_body, sk_inner_first). Unknown non-critical payloads are skipped,
    unknown critical ones rejected; the chain must end exactly at the end of the data."""
    out, off, t = [], 0, first
    sk = None
    while t != 0:
        if len(b) - off < 4:
            raise WireError('syntax', 'payload header')
        nxt, crit, ln = struct.unpack('>BBH', b[off:off + 4])
        if ln < 4:
            raise WireError('syntax', 'payload length')
        body = b[off + 4:off + ln]
        if t in KNOWN:
            if t == SK:
                sk = (bytes(body), nxt)
                out.append({'t': SK, 'data': bytes(body), 'critical': bool(crit & 0x80), 'inner_first': nxt})
                nxt = 0
            else:
                p = dec_body(t, body) if parse_bodies else {'t': t, 'data': bytes(body)}
                p['critical'] = bool(crit & 0x80)
                out.append(p)
        elif crit & 0x80:
            raise WireError('critical', f'payload type {t}')
        off += ln
        t = nxt
    if off != len(b):
        raise WireError('syntax', 'trailing data')
    return out, sk


def dec_header(b):
    if len(b) < 28:
        raise WireError('syntax', 'short header')
    spi_i, spi_r, first, ver, xchg, fl, mid, ln = struct.unpack('>8s8sBBBBLL', b[:28])
    return {'spi_i': spi_i, 'spi_r': spi_r, 'first': first, 'major': ver >> 4, 'minor': ver & 15, 'xchg': xchg, 'flags': fl,
            'response': bool(fl & 0x20), 'version': bool(fl & 0x10), 'initiator': bool(fl & 0x08), 'mid': mid, 'length': ln}


def dec_message(b, keys=None):
    """keys: None or dict(ke, ka, integ). Returns header dict + 'payloads' (clear) + 'inner' (decrypted) + 'protected'."""
    b = bytes(b)
    h = dec_header(b)
    clear, sk = dec_chain(b[28:], h['first'])
    h['payloads'] = [p for p in clear if p['t'] != SK]
    h['inner'] = []
    h['protected'] = False
    h['has_sk'] = sk is not None
    if sk is not None and keys is not None:
        icv = INTEG[keys['integ']][1]
        if len(b) < 28 + 4 + 16 + 16 + icv:
            raise WireError('syntax', 'SK too short')
        if not hmac.compare_digest(mac(keys['integ'], keys['ka'], b[:-icv]), b[-icv:]):
            raise WireError('syntax', 'checksum')
        body, inner_first = sk
        iv, ct = body[:16], body[16:-icv]
        if not ct or len(ct) % 16:
            raise WireError('syntax', 'ciphertext length')
        plain = aes_cbc(keys['ke'], iv, ct, False)
        padlen = plain[-1]
        if padlen + 1 > len(plain):
            raise WireError('syntax', 'pad length')
        h['inner'], _ = dec_chain(plain[:-1 - padlen], inner_first)
        h['iv'] = iv
        h['padlen'] = padlen
        h['protected'] = True
    return h


def notify_name(n):
    return NOTIFY_NAMES.get(n, f'N{n}')
