"""Numeric evaluation (stdlib hmac) of the derivation plans written by spec/KeySchedule.tla.  The plan says WHAT is fed to
prf / prf+ in WHICH order and WHERE each key is cut; this module only does the arithmetic TLC cannot do."""
import hashlib
import hmac
import json
import os
import shutil
import tempfile

import common

HASH = {2: 'sha1', 5: 'sha256', 7: 'sha512'}


def generate_plans():
    """Run TLC on KeySchedule.tla (structural theorems as ASSUMEs) and load the plans."""
    tmp = tempfile.mkdtemp(prefix='verif-ks-')
    try:
        out = os.path.join(tmp, 'plans.json')
        cfg = os.path.join(tmp, 'ks.cfg')
        open(cfg, 'w').write(f'INIT Init\nNEXT Next\nCONSTANTS OutFile = "{out}"\n')
        res = common.run_tlc('KeySchedule.tla', cfg=cfg, workers=1, timeout=600)
        if not res.ok:
            raise common.MachineryError(f'TLC on KeySchedule.tla: {res.error}\n{res.out[-2000:]}')
        return json.load(open(out)), res
    finally:
        shutil.rmtree(tmp, ignore_errors=True)


class PlanKdf:
    """Same interface as kdf_ref (ike_keys / child_keys / signed_octets / psk_auth), driven by the TLA+ plans."""

    def __init__(self, plans):
        self.plans = plans
        self.ike = {(p['suite']['prf'], p['suite']['integ'], p['suite']['encr'], p['rekey']): p for p in plans['ike']}
        self.child = {(p['suite']['prf'], p['suite']['integ'], p['suite']['encr'], p['pfs']): p for p in plans['child']}
        self.pp = plans['prfplus']
        self.evaluations = 0

    def prf(self, prf_id, key, data):
        return hmac.new(key, data, getattr(hashlib, HASH[prf_id])).digest()

    def prfplus(self, prf_id, key, seed, n):
        out, prev, counter = b'', b'', self.pp['first_counter']
        first = True
        while len(out) < n:
            parts = {'T_prev': prev, 'SEED': seed, 'COUNTER': counter.to_bytes(self.pp['counter_octets'], 'big')}
            data = b''.join(parts[x] for x in (self.pp['first'] if first else self.pp['next']))
            prev = self.prf(prf_id, key, data)
            out += prev
            counter += 1
            first = False
        return out[:n]

    def ike_keys(self, prf_id, integ_id, encr_bits, ni, nr, spi_i, spi_r, secret, old_sk_d=None, old_prf_id=None):
        p = self.ike[(prf_id, integ_id, encr_bits, old_sk_d is not None)]
        leaves = {'Ni': ni, 'Nr': nr, 'SPIi': spi_i, 'SPIr': spi_r, 'g^ir': secret, 'SK_d_old': old_sk_d or b''}
        cat = lambda names: b''.join(leaves[n] for n in names)
        if p['skeyseed']['fn'] == 'prf_old' and old_prf_id is None:
            raise ValueError('the plan of a rekeyed IKE_SA needs the prf of the old IKE_SA')
        skeyseed = self.prf({'prf': prf_id, 'prf_old': old_prf_id}[p['skeyseed']['fn']], cat(p['skeyseed']['key']), cat(p['skeyseed']['data']))
        km = self.prfplus(prf_id, skeyseed, cat(p['prfplus']['seed']), p['prfplus']['total'])
        out = {'skeyseed': skeyseed}
        for sl in p['slices']:
            out[sl['name']] = km[sl['off']:sl['off'] + sl['len']]
        self.evaluations += 1
        return out

    def child_keys(self, prf_id, sk_d, integ_id, encr_bits, ni, nr, secret=None):
        p = self.child[(prf_id, integ_id, encr_bits, secret is not None)]
        leaves = {'Ni': ni, 'Nr': nr, 'g^ir': secret or b''}
        km = self.prfplus(prf_id, sk_d, b''.join(leaves[n] for n in p['prfplus']['seed']), p['prfplus']['total'])
        self.evaluations += 1
        return {sl['name']: km[sl['off']:sl['off'] + sl['len']] for sl in p['slices']}

    def signed_octets(self, prf_id, own_init_msg, other_nonce, sk_p, id_type, id_data):
        # AuthPlan: own IKE_SA_INIT message | other nonce | prf(SK_p, ID body)
        return own_init_msg + other_nonce + self.prf(prf_id, sk_p, bytes([id_type, 0, 0, 0]) + id_data)

    def psk_auth(self, prf_id, psk, octets):
        return self.prf(prf_id, self.prf(prf_id, psk, b'Key Pad for IKEv2'), octets)
