"""Binding C for spec/Wire.tla: vectors written by TLC, messages built with the library's own payload classes, summaries of
what the library parses, step-counted parsing."""
import json
import os
import shutil
import sys
import tempfile
from ipaddress import ip_address

import common

common.repo_import_guard()
import logging  # noqa: E402
logging.indent = None
logging.getLogger().setLevel(logging.CRITICAL)
import message as M  # noqa: E402
import crypto as C   # noqa: E402

KNOWN = {33, 34, 35, 36, 39, 40, 41, 42, 43, 44, 45, 46}
NAMES = {33: 'SA', 34: 'KE', 35: 'IDi', 36: 'IDr', 39: 'AUTH', 40: 'NONCE', 41: 'NOTIFY', 42: 'DELETE', 43: 'VENDOR', 44: 'TSi', 45: 'TSr', 46: 'SK'}


def vectors(mode):
    tmp = tempfile.mkdtemp(prefix='verif-wire-')
    try:
        out = os.path.join(tmp, 'v.json')
        cfg = os.path.join(tmp, 'wire.cfg')
        open(cfg, 'w').write(f'INIT Init\nNEXT Next\nCONSTANTS\n OutFile = "{out}"\n Mode = "{mode}"\n')
        res = common.run_tlc('Wire.tla', cfg=cfg, workers=1, timeout=900)
        if not res.ok:
            raise common.MachineryError(f'TLC on Wire.tla ({mode}): {res.error}\n{res.out[-2500:]}')
        return json.load(open(out))
    finally:
        shutil.rmtree(tmp, ignore_errors=True)


def b(x):
    return bytes(x)


def build_payload(p):
    """Abstract payload (Wire.tla record as JSON) -> object of the library. None if the library has no class for the type."""
    t, crit = p['t'], p['critical']
    if t == 33:
        props = [M.Proposal(q['num'], q['proto'], b(q['spi']), [M.Transform(x['type'], x['id'], x['keylen'] or None) for x in q['transforms']])
                 for q in p['proposals']]
        return M.PayloadSA(props, critical=crit)
    if t == 34:
        return M.PayloadKE(p['group'], b(p['data']), critical=crit)
    if t == 35:
        return M.PayloadIDi(p['id_type'], b(p['data']), critical=crit)
    if t == 36:
        return M.PayloadIDr(p['id_type'], b(p['data']), critical=crit)
    if t == 39:
        return M.PayloadAUTH(p['method'], b(p['data']), critical=crit)
    if t == 40:
        return M.PayloadNONCE(b(p['data']), critical=crit)
    if t == 41:
        return M.PayloadNOTIFY(p['proto'], p['ntype'], b(p['spi']), b(p['data']), critical=crit)
    if t == 42:
        return M.PayloadDELETE(p['proto'], [b(s) for s in p['spis']], critical=crit)
    if t == 43:
        return M.PayloadVENDOR(b(p['data']), critical=crit)
    if t in (44, 45):
        cls = M.PayloadTSi if t == 44 else M.PayloadTSr
        return cls([M.TrafficSelector(x['ts_type'], x['proto'], x['sport'], x['eport'], ip_address(b(x['saddr'])), ip_address(b(x['eaddr'])))
                    for x in p['ts']], critical=crit)
    return None


def build_message(h, payloads, encrypted=None, crypto=None, iv=None):
    mid = h['mid'][0] * 65536 + h['mid'][1]
    return M.Message(spi_i=b(h['spi_i']), spi_r=b(h['spi_r']), major=h['major'], minor=h['minor'], exchange_type=h['xchg'],
                     is_response=h['response'], can_use_higher_version=h['version'], is_initiator=h['initiator'], message_id=mid,
                     payloads=payloads, encrypted_payloads=encrypted or [], crypto=crypto, iv=iv)


def summarize_payload(p):
    """Object of the library -> abstract payload in the vocabulary of Wire.tla."""
    t = int(p.type)
    d = {'t': t, 'critical': bool(p.critical)}
    if t == 33:
        d['proposals'] = [{'num': q.num, 'proto': int(q.protocol_id), 'spi': list(q.spi),
                           'transforms': [{'type': int(x.type), 'id': int(x.id), 'keylen': x.keylen or 0} for x in q.transforms]} for q in p.proposals]
    elif t == 34:
        d.update(group=int(p.dh_group), data=list(p.ke_data))
    elif t in (35, 36):
        d.update(id_type=int(p.id_type), data=list(p.id_data))
    elif t == 39:
        d.update(method=int(p.method), data=list(p.auth_data))
    elif t == 40:
        d.update(data=list(p.nonce))
    elif t == 41:
        d.update(proto=int(p.protocol_id), spi=list(p.spi), ntype=int(p.notification_type), data=list(p.notification_data))
    elif t == 42:
        d.update(proto=int(p.protocol_id), spis=[list(s) for s in p.spis])
    elif t == 43:
        d.update(data=list(p.vendor_id))
    elif t in (44, 45):
        d['ts'] = [{'ts_type': int(x.ts_type), 'proto': int(x.ip_proto), 'sport': x.start_port, 'eport': x.end_port,
                    'saddr': list(x.start_addr.packed), 'eaddr': list(x.end_addr.packed)} for x in p.traffic_selectors]
    elif t == 46:
        d.update(data=list(p.ciphertext))
    return d


def summarize_header(m):
    return {'spi_i': list(m.spi_i), 'spi_r': list(m.spi_r), 'major': m.major, 'minor': m.minor, 'xchg': int(m.exchange_type),
            'response': bool(m.is_response), 'version': bool(m.can_use_higher_version), 'initiator': bool(m.is_initiator),
            'mid': [m.message_id >> 16, m.message_id & 0xffff]}


def make_crypto(encr_bits, integ_id, seed=1):
    tr = M.Transform
    integ_t = {2: tr.IntegId.AUTH_HMAC_SHA1_96, 12: tr.IntegId.AUTH_HMAC_SHA2_256_128, 14: tr.IntegId.AUTH_HMAC_SHA2_512_256}[integ_id]
    cipher = C.Cipher(tr(tr.Type.ENCR, tr.EncrId.ENCR_AES_CBC, encr_bits))
    integ = C.Integrity(tr(tr.Type.INTEG, integ_t))
    prf = C.Prf(tr(tr.Type.PRF, tr.PrfId.PRF_HMAC_SHA2_256))
    ke = bytes((seed * 7 + i) % 256 for i in range(encr_bits // 8))
    ka = bytes((seed * 13 + i) % 256 for i in range(integ.key_size))
    return C.Crypto(cipher, ke, integ, ka, prf, b'p' * 32), {'ke': ke, 'ka': ka, 'integ': integ_id}


class Budget(Exception):
    pass


def counted_parse(data, header_only=False, crypto=None, limit=None):
    """Message.parse under a line counter. Returns (kind, value, lines): kind in 'ok' | 'syntax' | 'critical' | 'other' | 'budget'."""
    limit = limit if limit is not None else 4000 + 600 * len(data)
    count = [0]

    def tracer(frame, event, arg):
        if event == 'line':
            count[0] += 1
            if count[0] > limit:
                raise Budget()
        return tracer
    old = sys.gettrace()
    sys.settrace(tracer)
    try:
        try:
            msg = M.Message.parse(data, header_only=header_only, crypto=crypto)
            return 'ok', msg, count[0]
        finally:
            sys.settrace(old)
    except Budget:
        return 'budget', None, count[0]
    except M.UnsupportedCriticalPayload as ex:
        return 'critical', ex, count[0]
    except M.InvalidSyntax as ex:
        return 'syntax', ex, count[0]
    except M.IkeSaError as ex:
        return 'other', ex, count[0]
    except BaseException as ex:       # noqa: B902
        return 'other', ex, count[0]
