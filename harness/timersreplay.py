"""Binding A for spec/IkeTimers.tla: behaviours of the timer model are executed on the real code under the virtual clock;
the sweep is the timer part of main_loop, verbatim in structure (world.World.sweep)."""
import collections
import os
import multiprocessing

import common
import tlcgraph
import wire_ref as W
import world as wd
from world import IkeSa

WAITING = {'NEW_CHILD_REQ_SENT', 'REK_CHILD_REQ_SENT', 'REK_IKE_SA_REQ_SENT', 'DEL_CHILD_REQ_SENT', 'DEL_IKE_SA_REQ_SENT',
           'DEL_AFTER_REKEY_IKE_SA_REQ_SENT', 'DPD_REQ_SENT', 'INIT_REQ_SENT', 'AUTH_REQ_SENT'}
ALL_KINDS = ('idle', 'newchild', 'rekchild', 'delchild', 'newchild_ke', 'rekeyike_ke', 'init', 'init_cookie', 'init_ke', 'auth')


def _integ_id(c):
    import probes
    return probes.integ_id(c)


class Mismatch(Exception):
    def __init__(self, component, msg, expected=None, observed=None):
        super().__init__(f'{component}: {msg}')
        self.component, self.msg, self.expected, self.observed = component, msg, expected, observed


def cfg_text(c, invariants=(), properties=(), dump=False):
    lines = ['SPECIFICATION Spec', 'CONSTANTS']
    for k, v in c.items():
        if isinstance(v, bool):
            v = 'TRUE' if v else 'FALSE'
        elif isinstance(v, (set, frozenset, tuple, list)):
            v = '{' + ', '.join(f'"{x}"' if isinstance(x, str) else str(x) for x in sorted(v)) + '}'
        lines.append(f' {k} = {v}')
    lines += [f'INVARIANT {i}' for i in invariants] + [f'PROPERTY {p}' for p in properties]
    if dump:
        lines.append('ACTION_CONSTRAINT EdgeDump')
    lines += ['VIEW View', 'CHECK_DEADLOCK FALSE']
    return '\n'.join(lines) + '\n'


def code_constants():
    return {'RetxDelay': int(IkeSa.RETRANSMISSION_DELAY), 'MaxRetx': int(IkeSa.MAX_RETRANSMISSIONS)}


class TimerWorld:
    def __init__(self, c, kind, seed=0):
        self.c = c
        self.kind = kind
        opts = {'dpd': c['Dpd'], 'lifetime': c['Life']}
        by = {'A': {}, 'B': {'dpd': 100000, 'lifetime': 100000}}
        if kind in ('newchild_ke',):
            by['A']['child_dh'], by['B']['child_dh'] = ['ecp256', 'ecp384'], ['ecp384', 'ecp256']
        if kind in ('rekeyike_ke', 'init_ke'):
            by['A']['ike_dh'], by['B']['ike_dh'] = ['ecp256', 'ecp384'], ['ecp384', 'ecp256']
        self.w = w = wd.World(opts=opts, opts_by_ep=by, seed=seed, cookie_threshold=0 if kind == 'init_cookie' else None, jitter=0.0)
        self.wire = []          # datagrams A has in flight towards B
        self.current = None     # the outstanding request as last sent
        self.times = []         # transmission times of the outstanding request
        self.crashed = False
        self.sa = None
        t0 = w.now
        if kind in ('init', 'init_cookie', 'init_ke', 'auth'):
            req = w.acquire('A', sport=0, dport=0)
            if kind != 'init':
                res = w.dispatch('B', req, 'A')
                req = w.dispatch('A', res, 'B')
            self.sa = w.sas('A')[0]
        else:
            w.establish('A', sport=0, dport=0)
            self.sa = sa = w.sas('A')[0]
            if kind == 'idle':
                req = None
            elif kind in ('newchild', 'newchild_ke'):
                req = w.acquire('A', sport=0, dport=0)
            elif kind in ('rekchild', 'delchild'):
                req = w.expire('A', bytes(sa.child_sas[0].inbound_spi), kind == 'delchild')
            elif kind == 'rekeyike_ke':
                keep = sa.rekey_ike_sa_at
                sa.rekey_ike_sa_at = w.now - 1
                req = w.timer('A', sa, 'check_rekey_ike_sa_timer')
                sa.rekey_ike_sa_at = keep
            if kind in ('newchild_ke', 'rekeyike_ke'):
                res = w.dispatch('B', req, 'A')
                req = w.dispatch('A', res, 'B')
        if req is not None:
            self.current = bytes(req)
            self.wire = [self.current]
            self.times = [w.now]
        if w.now != t0:
            raise common.MachineryError('virtual time moved during set-up')

    def alive(self):
        return self.sa in self.w.ctl['A'].ike_sas

    def project(self):
        w, sa = self.w, self.sa
        clip = lambda x: -1 if x < -1 else (10 ** 9 if x != x or x > 10 ** 9 else int(round(x)))     # (a timer that is never due: reported, not a crash)
        if not self.alive():
            return {'st': 'DELETED', 'kern': len(w.kernel['A'].sad) > 0}
        name = sa.state.name
        st = 'ESTABLISHED' if name == 'ESTABLISHED' else ('WAITING' if name in WAITING else name)
        d = {'st': st, 'kern': len(w.kernel['A'].sad) > 0, 'dpdIn': clip(sa.start_dpd_at - w.now), 'rekeyIn': clip(sa.rekey_ike_sa_at - w.now),
             'deleteIn': clip(sa.delete_ike_sa_at - w.now), 'wire': len(self.wire)}
        if st == 'WAITING':
            d['retx'] = sa.retransmissions
            d['retxIn'] = int(round(sa.retransmit_at - w.now))
            d['gaps'] = [int(round(b - a)) for a, b in zip(self.times, self.times[1:])]
        return d

    def step(self, a):
        w = self.w
        name = a['a']
        if name == 'Tick':
            w.now += a['dt']
        elif name == 'Sweep':
            events = w.sweep('A')
            # (only the observed IKE_SA: the successor created by a rekey has timers of its own)
            sent = [(k, d) for k, s, d in events if d is not None and s is self.sa]
            if len(sent) != a['sent']:
                raise Mismatch('sent', f'sweep sent {len(sent)} datagram(s), specification: {a["sent"]} ({a["what"]})', a['sent'], [k for k, _ in sent])
            what = a['what']
            if what == 'retransmit':
                k, d = sent[0]
                if k != 'retransmit':
                    raise Mismatch('what', f'expected a retransmission, the sweep produced {k}')
                if d != self.current:
                    raise Mismatch('bytes', 'the retransmitted datagram differs from the request as last sent', self.current.hex(), d.hex())
                self.wire.append(d)
                self.times.append(w.now)
            elif what in ('dpd', 'delike', 'rekeyike'):
                k, d = sent[0]
                h = W.dec_header(d)
                got = 'dpd' if k == 'dpd' else ('rekeyike' if h['xchg'] == W.CREATE_CHILD_SA else 'delike')
                if got != what or k == 'retransmit':
                    raise Mismatch('what', f'expected a new {what} request, the sweep produced {k}/{got}')
                self.current = d
                self.wire.append(d)
                self.times = [w.now]
            elif what == 'giveup':
                if self.alive():
                    raise Mismatch('giveup', 'retransmission budget spent but the IKE_SA is still listed')
        elif name == 'Lose':
            self.wire.pop()
        elif name == 'Crash':
            self.crashed = True
            self.wire = []
        elif name == 'AnswerBusy':
            # the peer really is busy: it has a CREATE_CHILD_SA request of its own outstanding (never delivered here) and refuses the IKE_SA rekey
            if not getattr(self, 'peer_busy', False):
                w.acquire('B', sport=0, dport=0)
                self.peer_busy = True
            data = self.wire[-1]
            self.wire = []
            res = w.dispatch('B', data, 'A')
            b = w.sas('B')[0]
            import probes
            m = W.dec_message(bytes(res), probes.keys_of(b.my_crypto)) if res is not None else None
            if m is None or not any(p['t'] == W.NOTIFY and p['ntype'] == 43 for p in m['inner']):
                raise common.MachineryError('the busy peer did not answer the IKE_SA rekey with TEMPORARY_FAILURE')
            out = w.dispatch('A', res, 'B')
            if out is not None:
                raise Mismatch('answer', 'a request is sent in reaction to TEMPORARY_FAILURE where the specification waits for the timer')
        elif name == 'Noise':
            sa = self.sa
            peer_flag = not sa.is_initiator
            hdr = {'spi_i': sa.spi_i, 'spi_r': sa.spi_r, 'initiator': peer_flag}
            forms = [
                # a late copy of / a forged cleartext IKE_SA_INIT response carrying this IKE_SA's SPIs
                W.enc_message(dict(hdr, xchg=34, response=True, mid=0), []),
                # a cleartext INFORMATIONAL request with the expected Message ID
                W.enc_message(dict(hdr, xchg=37, response=False, mid=sa.peer_msg_id), []),
                # an INFORMATIONAL request sealed under keys that are not the peer's
                W.enc_message(dict(hdr, xchg=37, response=False, mid=sa.peer_msg_id), [],
                              sk={'ke': b'\x5a' * len(sa.my_crypto.sk_e), 'ka': b'\xa5' * len(sa.my_crypto.sk_a), 'integ': _integ_id(sa.my_crypto), 'iv': b'\x21' * 16, 'inner': []}),
                # a cleartext IKE_SA_INIT-typed datagram with the wrong role flag / a bare header of the last exchange type
                W.enc_message(dict(hdr, initiator=not peer_flag, xchg=34, response=True, mid=0), []),
            ]
            for data in forms:
                if w.dispatch('A', data, 'B') is not None:
                    raise Mismatch('noise', 'an unauthenticated datagram is answered')
        elif name == 'PeerProbe':
            b = w.sas('B')[0]
            keep = b.start_dpd_at
            b.start_dpd_at = w.now - 1
            req = w.timer('B', b, 'check_dead_peer_detection_timer')
            b.start_dpd_at = keep
            if req is None:
                raise common.MachineryError('the peer could not send a liveness probe')
            res = w.dispatch('A', req, 'B')
            if res is None:
                raise Mismatch('probe', "the peer's liveness probe is not answered while a request of ours is outstanding")
            if w.dispatch('B', res, 'A') is not None:
                raise common.MachineryError('unexpected follow-up to a liveness answer')
        elif name == 'AnswerFollowUp':
            data = self.wire[-1]
            res = w.dispatch('B', data, 'A')
            if res is None:
                raise Mismatch('answer', 'the peer did not answer an authentic request')
            out = w.dispatch('A', res, 'B')
            if out is None:
                raise Mismatch('followup', 'no DELETE request follows the answer to a rekey')
            self.current = bytes(out)
            self.wire = [self.current]
            self.times = [w.now]
        elif name == 'Answer':
            data = self.wire[-1]
            self.wire = []
            res = w.dispatch('B', data, 'A')
            if res is None:
                raise Mismatch('answer', 'the peer did not answer an authentic request')
            out = w.dispatch('A', res, 'B')
            if out is not None:
                raise Mismatch('answer', 'a follow-up request where the specification has none')
        else:
            raise common.MachineryError('unknown action ' + name)

    def compare(self, a, tgt):
        real = self.project()
        keys = ['st', 'kern']
        if real['st'] != 'DELETED' and tgt['st'] != 'DELETED':
            keys += ['dpdIn', 'rekeyIn', 'deleteIn', 'wire']
            if tgt['st'] == 'WAITING' and real['st'] == 'WAITING':
                keys += ['retx', 'gaps']
                if tgt['sinceFirst'] < self.c['Horizon']:
                    keys.append('retxIn')
        for k in keys:
            if real.get(k) != tgt[k]:
                raise Mismatch(k, f'after {a["a"]}: {k}', tgt[k], real.get(k))


def replay(c, steps, seed=0):
    """steps: list of (action, target state); the first target's `kind` selects the set-up."""
    kind = steps[0][2]['kind'] if len(steps[0]) == 3 else None
    tw = TimerWorld(c, steps[0][0]['kind0'], seed=seed)
    done = 0
    try:
        for a, tgt in [(s[0], s[1]) for s in steps]:
            try:
                tw.step(a)
                tw.compare(a, tgt)
            except wd.Escape as ex:
                raise Mismatch('escape', str(ex))
            done += 1
    except Mismatch as mm:
        return done, mm
    finally:
        tw.w.close()
    return done, None


_G = _P = _C = None


def _slice(args):
    lo, hi = args
    out = {'behaviours': 0, 'steps': 0, 'mismatches': [], 'actions': collections.Counter()}
    for p in _P[lo:hi]:
        g = _G
        kind0 = g.states[g.edges[p[0]][0]]['kind']
        steps = [(dict(g.edges[i][1], kind0=kind0), g.states[g.edges[i][3]]) for i in p]
        done, mm = replay(_C, steps)
        out['behaviours'] += 1
        out['steps'] += done
        for a, _ in steps[:done]:
            out['actions'][a['a'] + (':' + a['what'] if 'what' in a else '')] += 1
        if mm is not None:
            out['mismatches'].append({'component': mm.component, 'msg': mm.msg, 'expected': mm.expected, 'observed': mm.observed,
                                      'kind': kind0, 'actions': [str({k: v for k, v in s[0].items() if k != 'kind0'}) for s in steps[:done + 1]],
                                      'path': list(p[:done + 1])})
    return out


def _sim_slice(args):
    lo, hi = args
    out = {'behaviours': 0, 'steps': 0, 'mismatches': [], 'actions': collections.Counter()}
    for b in _P[lo:hi]:
        kind0 = b[0][3]['kind']
        steps = [(dict(a, kind0=kind0), t) for a, dd, t, ff in b]
        done, mm = replay(_C, steps)
        out['behaviours'] += 1
        out['steps'] += done
        for a, _ in steps[:done]:
            out['actions'][a['a'] + (':' + a['what'] if 'what' in a else '')] += 1
        if mm is not None:
            out['mismatches'].append({'component': mm.component, 'msg': mm.msg, 'expected': mm.expected, 'observed': mm.observed,
                                      'kind': kind0, 'actions': [str({k: v for k, v in s[0].items() if k != 'kind0'}) for s in steps[:done + 1]],
                                      'path': None, 'behaviour': [{k: v for k, v in s[0].items() if k != 'kind0'} for s in steps[:done + 1]]})
    return out


def _workers_that_fit(nproc):
    """The forked workers share the dumped graph copy-on-write, but reading Python objects writes their reference counts: a worker ends up with a private copy
    of most of what it touches (measured: about 0.6 of the parent's resident size each, 53 GB for 16 workers on the 4.7 M-state graph).  The pool is sized so
    that this fits into the memory that is available now; the garbage collector is told not to walk (and thereby dirty) the graph in the children."""
    import gc
    try:
        rss = int(open('/proc/self/statm').read().split()[1]) * os.sysconf('SC_PAGE_SIZE')
        avail = next(int(l.split()[1]) * 1024 for l in open('/proc/meminfo') if l.startswith('MemAvailable:'))
    except (OSError, StopIteration, ValueError):
        return nproc
    gc.freeze()
    if rss < (1 << 30):
        return nproc
    return max(2, min(nproc, int(avail * 0.8 / (0.8 * rss))))


def run_config(name, c, invariants, properties, limit=None, seed=0, nproc=None, simulate=None):
    """TLC (exhaustive) + dump + replay of every behaviour of the path cover. Returns (TlcResult, graph, totals)."""
    global _G, _P, _C
    import os, shutil, tempfile, random
    tmp = tempfile.mkdtemp(prefix='verif-timers-')
    try:
        cfg = os.path.join(tmp, 't.cfg')
        open(cfg, 'w').write(cfg_text(c, invariants, properties))
        res = common.run_tlc('IkeTimers.tla', cfg=cfg, timeout=900)
    finally:
        shutil.rmtree(tmp, ignore_errors=True)
    nproc = nproc or common.NCPU
    if simulate:
        num, depth = simulate
        beh = tlcgraph.simulate('IkeTimers.tla', cfg_text(c, dump=True), num, depth, seed=seed)
        _P, _C = beh, c
        chunk = max(1, (len(beh) + nproc * 4 - 1) // (nproc * 4))
        tot = {'behaviours': 0, 'steps': 0, 'mismatches': [], 'actions': collections.Counter(), 'paths': len(beh)}
        with multiprocessing.get_context('fork').Pool(nproc) as pool:
            for r in pool.imap_unordered(_sim_slice, [(lo, min(lo + chunk, len(beh))) for lo in range(0, len(beh), chunk)]):
                tot['behaviours'] += r['behaviours']
                tot['steps'] += r['steps']
                tot['mismatches'] += r['mismatches']
                tot['actions'].update(r['actions'])
        return res, None, tot
    g = tlcgraph.dump('IkeTimers.tla', cfg_text(c, dump=True), name, c, lambda st: True)
    g.full_sources = True
    # with several initial states the BFS tree needs all roots: add a virtual root
    paths = behaviours_multi_root(g)
    if limit and len(paths) > limit:
        paths = random.Random(seed).sample(paths, limit)
    _G, _P, _C = g, paths, c
    chunk = max(1, (len(paths) + nproc * 4 - 1) // (nproc * 4))
    jobs = [(lo, min(lo + chunk, len(paths))) for lo in range(0, len(paths), chunk)]
    tot = {'behaviours': 0, 'steps': 0, 'mismatches': [], 'actions': collections.Counter(), 'paths': len(paths)}
    nproc = _workers_that_fit(nproc)
    with multiprocessing.get_context('fork').Pool(nproc) as pool:
        for r in pool.imap_unordered(_slice, jobs):
            tot['behaviours'] += r['behaviours']
            tot['steps'] += r['steps']
            tot['mismatches'] += r['mismatches']
            tot['actions'].update(r['actions'])
    return res, g, tot


def behaviours_multi_root(g):
    """Path cover when the graph has several initial states (states that are never a target or were discovered as sources first)."""
    out_edges = collections.defaultdict(list)
    targets = set()
    for i, (f, a, dd, t) in enumerate(g.edges):
        out_edges[f].append(i)
    roots = [i for i, s in enumerate(g.states) if s['kind'] in g.sc['StartKinds'] and s.get('sinceFirst') == 0 and s.get('gaps') == [] and s.get('lost') == 0 and not s.get('crashed')
             and s.get('swept') and s.get('sinceCrash') == 0 and s['dpdIn'] == _c_dpd(g) and s['rekeyIn'] == g.sc['Life']
             and (s['st'] == 'ESTABLISHED' and s['retx'] == 0 and s['wire'] == 0 or s['st'] == 'WAITING' and s['retx'] == 1 and s['wire'] == 1)]
    parent = {r: None for r in roots}
    queue = collections.deque(roots)
    while queue:
        u = queue.popleft()
        for i in out_edges.get(u, ()):
            v = g.edges[i][3]
            if v not in parent:
                parent[v] = i
                queue.append(v)

    def path_to(u):
        p = []
        while parent[u] is not None:
            i = parent[u]
            p.append(i)
            u = g.edges[i][0]
        return p[::-1]
    covered, paths = set(), []
    for i, (f, a, dd, t) in enumerate(g.edges):
        if i in covered or f not in parent:
            continue
        p = path_to(f) + [i]
        covered.add(i)
        cur = t
        while True:
            nxt = [j for j in out_edges.get(cur, ()) if j not in covered]
            if not nxt:
                break
            p.append(nxt[0])
            covered.add(nxt[0])
            cur = g.edges[nxt[0]][3]
        paths.append(p)
    return paths


def _c_dpd(g):
    return g.sc['Dpd']
