"""Helpers shared by the protocol-level checks: state snapshots, authentic / forged datagram construction (with the
independent encoder), seeded random schedules over the closed world."""
import random

import wire_ref as W
import world as wd
from world import IkeSa, tok

WAITING = ('INIT_REQ_SENT', 'AUTH_REQ_SENT', 'NEW_CHILD_REQ_SENT', 'REK_CHILD_REQ_SENT', 'REK_IKE_SA_REQ_SENT',
           'DEL_CHILD_REQ_SENT', 'DEL_IKE_SA_REQ_SENT', 'DEL_AFTER_REKEY_IKE_SA_REQ_SENT', 'DPD_REQ_SENT')


def integ_id(crypto):
    return {('sha1', 12): 2, ('sha256', 16): 12, ('sha512', 32): 14}[(crypto.integrity.hasher().name, crypto.integrity.hash_size)]


def keys_of(crypto):
    return {'ke': crypto.sk_e, 'ka': crypto.sk_a, 'integ': integ_id(crypto)}


def sa_snapshot(sa, with_dpd=False):
    """Everything C03 / C08 say must not change (the attributes the property anchors name)."""
    d = {
        'state': sa.state.name, 'my_msg_id': sa.my_msg_id, 'peer_msg_id': sa.peer_msg_id, 'peer_spi': bytes(sa.peer_spi).hex(),
        'child_sas': [(bytes(c.inbound_spi).hex(), bytes(c.outbound_spi).hex()) for c in sa.child_sas],
        'pending': len(sa.pending_events), 'retransmit_at': sa.retransmit_at, 'retransmissions': sa.retransmissions,
        'last_response': bytes(getattr(sa, 'last_sent_response_data', None) or b'').hex(),
        'request': bytes(sa.request.to_bytes()).hex() if (sa.request is not None and sa.state.name in WAITING) else None,
        'new_ike_sa': bytes(sa.new_ike_sa.my_spi).hex() if sa.new_ike_sa is not None else None,
        'keys': tuple(sa.ike_sa_keyring).__hash__() if sa.ike_sa_keyring is not None else None,
        'addresses': (str(sa.my_addr), str(sa.peer_addr)),       # where its requests, retransmissions and kernel SAs go
    }
    if with_dpd:
        d['start_dpd_at'] = sa.start_dpd_at
        d['rekey_ike_sa_at'] = sa.rekey_ike_sa_at
    return d


def world_snapshot(w, with_dpd=False):
    snap = {}
    for e in w.endpoints:
        if e not in w.ctl:
            continue
        snap[e] = {
            'table': [bytes(s.my_spi).hex() for s in w.ctl[e].ike_sas],
            'sas': {bytes(s.my_spi).hex(): sa_snapshot(s, with_dpd) for s in w.ctl[e].ike_sas},
            'sad': sorted((k[0], k[1], bytes(k[2]).hex()) for k in w.kernel[e].sad),
            'netlink_requests': len(w.kernel[e].requests),
        }
    return snap


def diff_snapshots(a, b):
    out = []
    for e in a:
        for k in a[e]:
            if a[e][k] != b[e][k]:
                if k == 'sas':
                    for spi in set(a[e][k]) | set(b[e][k]):
                        x, y = a[e][k].get(spi), b[e][k].get(spi)
                        if x != y:
                            if x is None or y is None:
                                out.append(f'{e}.sas[{spi}]: {"appeared" if x is None else "vanished"}')
                            else:
                                out += [f'{e}.sas[{spi}].{f}: {x[f]!r} -> {y[f]!r}' for f in x if x[f] != y[f]]
                else:
                    out.append(f'{e}.{k}: {a[e][k]!r} -> {b[e][k]!r}')
    return out


def header_of(sa, xchg, response, mid, sender_is=None):
    """Header a datagram *sent by the holder of `sa`* would carry."""
    return {'spi_i': sa.spi_i, 'spi_r': sa.spi_r, 'xchg': xchg, 'response': response, 'initiator': sa.is_initiator, 'mid': mid}


def seal(sa, xchg, response, mid, inner, iv=None, clear_payloads=(), **hdr_over):
    """Authentic datagram as the holder of `sa` would send it (sealed with its my_crypto by the independent encoder)."""
    h = header_of(sa, xchg, response, mid)
    h.update(hdr_over)
    c = sa.my_crypto
    return W.enc_message(h, list(clear_payloads), sk={'ke': c.sk_e, 'ka': c.sk_a, 'integ': integ_id(c), 'iv': iv or b'\x11' * 16,
                                                      'inner': list(inner)})


def clear(sa, xchg, response, mid, payloads, **hdr_over):
    h = header_of(sa, xchg, response, mid)
    h.update(hdr_over)
    return W.enc_message(h, list(payloads))


def peer_sa_of(w, sa):
    """The IKE_SA object at the other endpoint that is paired with `sa` (by SPIs), if any."""
    for e in w.endpoints:
        if e not in w.ctl:
            continue
        for s in w.ctl[e].ike_sas:
            if s is not sa and bytes(s.my_spi) == bytes(sa.peer_spi) and bytes(s.peer_spi) == bytes(sa.my_spi):
                return s
    return None


class Scheduler:
    """Seeded random schedule over a world: triggers on either side, deliveries (with duplication / loss), timers.
    Every datagram ever emitted is kept in `history` as (sender endpoint, bytes)."""

    def __init__(self, w, seed, p_dup=0.15, p_loss=0.1, triggers=('acquire', 'soft', 'hard', 'rekeyike', 'delike', 'dpd', 'retx')):
        self.w = w
        self.rnd = random.Random(seed)
        self.flight = []          # (dst endpoint, src endpoint, bytes)
        self.history = []
        self.delivered = []       # (dst, src, bytes) already delivered at least once
        self.p_dup, self.p_loss = p_dup, p_loss
        self.triggers = triggers
        self.log = []

    def emit(self, src, data):
        if data:
            data = bytes(data)
            self.flight.append((self.w.peer_of(src), src, data))
            self.history.append((src, data))

    def trigger(self):
        w, r = self.w, self.rnd
        e = r.choice(w.endpoints[:2])
        kind = r.choice(self.triggers)
        sas = w.sas(e)
        self.log.append((kind, e))
        if kind == 'acquire':
            self.emit(e, w.acquire(e, sport=0, dport=0))
        elif kind in ('soft', 'hard'):
            kids = [(s, c) for s in sas for c in s.child_sas]
            if kids:
                s, c = r.choice(kids)
                self.emit(e, w.expire(e, bytes(r.choice((c.inbound_spi, c.outbound_spi))), kind == 'hard'))
        elif sas:
            sa = r.choice(sas)
            if kind == 'rekeyike' and sa.state == IkeSa.State.ESTABLISHED:
                sa.rekey_ike_sa_at = w.now - 1
                self.emit(e, w.timer(e, sa, 'check_rekey_ike_sa_timer'))
                sa.rekey_ike_sa_at = w.now + 1e9
            elif kind == 'delike' and sa.state == IkeSa.State.ESTABLISHED:
                sa.delete_ike_sa_at = w.now - 1
                self.emit(e, w.timer(e, sa, 'check_rekey_ike_sa_timer'))
                sa.delete_ike_sa_at = w.now + 1e9
            elif kind == 'dpd' and sa.state == IkeSa.State.ESTABLISHED:
                sa.start_dpd_at = w.now - 1
                self.emit(e, w.timer(e, sa, 'check_dead_peer_detection_timer'))
            elif kind == 'retx' and sa.state.name in WAITING:
                sa.retransmit_at = w.now - 1
                sa.retransmissions = min(sa.retransmissions, IkeSa.MAX_RETRANSMISSIONS - 1) if r.random() < 0.8 else IkeSa.MAX_RETRANSMISSIONS
                self.emit(e, w.timer(e, sa, 'check_retransmission_timer'))

    def deliver_one(self, lossless=False):
        r = self.rnd
        i = r.randrange(len(self.flight))
        dst, src, data = self.flight[i]
        x = r.random()
        if not lossless and x < self.p_loss:
            self.flight.pop(i)
            self.log.append(('lose', dst))
            return None
        if lossless or x >= self.p_loss + self.p_dup:
            self.flight.pop(i)
        self.log.append(('deliver', dst))
        runs = getattr(self.w, 'handler_runs', None)
        if runs is not None:
            runs.clear()
        reply = self.w.dispatch(dst, data, src)
        # "delivered" = it reached an IKE_SA that executed it (a datagram for a not yet registered successor is merely dropped)
        if runs is None or runs:
            self.delivered.append((dst, src, data))
        self.emit(dst, reply)
        return (dst, src, data, reply)

    def step(self, p_trigger=0.3):
        if not self.flight or self.rnd.random() < p_trigger:
            self.trigger()
            return None
        return self.deliver_one()

    def drain(self, max_steps=200):
        """Lossless drain: deliver everything in flight; unanswered requests are retransmitted until answered or given up."""
        n = 0
        while n < max_steps:
            n += 1
            if self.flight:
                self.deliver_one(lossless=True)
                continue
            waiting = [(e, s) for e in self.w.endpoints[:2] for s in self.w.sas(e) if s.state.name in WAITING]
            if not waiting:
                return True
            e, sa = waiting[0]
            sa.retransmit_at = self.w.now - 1
            self.emit(e, self.w.timer(e, sa, 'check_retransmission_timer'))
        return False
