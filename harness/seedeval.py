"""Confirm a seeded change and run the checks against it (development tool, not a registered command).

    /venv/bin/python -B harness/seedeval.py <Cxx> <patch.diff> <demo_seed.py> [--checks C08,C09] [--tier quick] [--name NAME]

1. a fresh worktree of /repo HEAD is made under /tmp/seedeval (never /repo itself, never under /verif);
2. the demonstration is run on the original tree (must PASS), the change is applied, the repository's test suite is run
   (must equal the baseline 176 passed / 11 failed) and the demonstration is run again (must FAIL);
3. the property's check (and any others asked for) is run with VERIF_REPO=<worktree> and VERIF_OUT=<scratch>, so that nothing
   under /verif/evidence changes;
4. patch, demonstration and meta.json are stored in /verif/seeded/<name>/; the worktree is removed.
"""
import argparse
import json
import os
import re
import shutil
import subprocess
import sys
import time

VERIF = os.path.dirname(os.path.dirname(os.path.abspath(__file__)))


def sh(cmd, cwd=None, env=None, timeout=3600):
    p = subprocess.run(cmd, shell=True, cwd=cwd, env=env, stdout=subprocess.PIPE, stderr=subprocess.STDOUT, text=True, timeout=timeout)
    return p.returncode, p.stdout


def main():
    ap = argparse.ArgumentParser()
    ap.add_argument('prop')
    ap.add_argument('patch')
    ap.add_argument('demo')
    ap.add_argument('--checks', default=None)
    ap.add_argument('--tier', default='quick')
    ap.add_argument('--name', default=None)
    ap.add_argument('--needs', default='')
    ap.add_argument('--what', default='')
    ap.add_argument('--skip-tests', action='store_true')
    a = ap.parse_args()
    name = a.name or a.prop
    checks = (a.checks or a.prop).split(',')
    wt = '/tmp/seedeval/%s' % name
    out = '/tmp/seedeval/%s.out' % name
    sh('git -C /repo worktree remove --force %s' % wt)
    shutil.rmtree(wt, ignore_errors=True)
    shutil.rmtree(out, ignore_errors=True)
    os.makedirs('/tmp/seedeval', exist_ok=True)
    rc, o = sh('git -C /repo worktree add --detach %s HEAD' % wt)
    if rc:
        print(o)
        return 2
    meta = dict(property=a.prop, name=name, base_commit=sh('git -C /repo rev-parse HEAD')[1].strip(), needs_to_manifest=a.needs, change=a.what, ran=[])
    try:
        shutil.copy(a.demo, os.path.join(wt, 'demo_seed.py'))
        rc0, o0 = sh('/venv/bin/python demo_seed.py', cwd=wt)
        meta['ran'].append(dict(cmd='demo_seed.py on the original tree', exit=rc0, tail=o0.strip().splitlines()[-1:] ))
        rc, o = sh('git apply %s' % os.path.abspath(a.patch), cwd=wt)
        if rc:       # the patch was made against an earlier HEAD of /repo (a fix: commit came in between): three-way
            rc, o = sh('git apply -3 %s && git reset -q' % os.path.abspath(a.patch), cwd=wt)
            meta['ran'].append(dict(cmd='git apply -3 (patch made against an earlier HEAD)', exit=rc))
        if rc:
            print('patch does not apply:', o)
            return 2
        if not a.skip_tests:
            rc, o = sh('/venv/bin/python -m pytest -q -p no:cacheprovider --timeout=900 2>&1 | tail -1', cwd=wt)
            meta['ran'].append(dict(cmd='repository test suite on the changed tree', tail=o.strip()))
            m = re.search(r'(\d+) failed, (\d+) passed', o)
            meta['tests_unchanged'] = bool(m and m.group(1) == '11' and m.group(2) == '176')
        rc1, o1 = sh('/venv/bin/python demo_seed.py', cwd=wt)
        meta['ran'].append(dict(cmd='demo_seed.py on the changed tree', exit=rc1, tail=o1.strip().splitlines()[-3:]))
        meta['demo_confirms'] = (rc0 == 0 and rc1 != 0)
        sh('find %s -name __pycache__ -prune -exec rm -rf {} +' % wt)
        env = dict(os.environ, VERIF_REPO=wt, VERIF_OUT=out)
        meta['checks'] = {}
        for c in checks:
            t0 = time.time()
            rc, o = sh('%s/check %s --tier %s' % (VERIF, c, a.tier), env=env, timeout=6 * 3600)
            viol = [l for l in o.splitlines() if l.startswith('VIOLATION')]
            meta['checks'][c] = dict(tier=a.tier, exit=rc, seconds=round(time.time() - t0), violations=len(viol),
                                     first=[l for l in o.splitlines() if l.startswith(('VIOLATION', 'violation', '  what'))][:3])
            meta['ran'].append(dict(cmd='VERIF_REPO=<changed tree> ./check %s --tier %s' % (c, a.tier), exit=rc))
            if rc not in (0, 1):
                meta['checks'][c]['output_tail'] = o.strip().splitlines()[-15:]
        meta['caught_by'] = sorted(c for c, r in meta['checks'].items() if r['exit'] == 1)
    finally:
        sh('git -C /repo worktree remove --force %s' % wt)
        shutil.rmtree(wt, ignore_errors=True)
        shutil.rmtree(out, ignore_errors=True)
        sh('git -C /repo worktree prune')
    dst = os.path.join(VERIF, 'seeded', name)
    os.makedirs(dst, exist_ok=True)
    shutil.copy(a.patch, os.path.join(dst, 'patch.diff'))
    shutil.copy(a.demo, os.path.join(dst, 'demo_seed.py'))
    old = {}
    mp = os.path.join(dst, 'meta.json')
    if os.path.exists(mp):
        old = json.load(open(mp))
        for k in ('needs_to_manifest', 'change'):
            if not meta[k]:
                meta[k] = old.get(k, '')
        if a.skip_tests:
            meta['tests_unchanged'] = old.get('tests_unchanged')
        hist = old.get('history', [])
        if old.get('checks'):
            hist.append(dict(checks=old['checks'], caught_by=old.get('caught_by')))
        meta['history'] = hist
    json.dump(meta, open(mp, 'w'), indent=1)
    print(json.dumps({k: meta.get(k) for k in ('property', 'tests_unchanged', 'demo_confirms', 'checks', 'caught_by')}, indent=1))
    return 0


if __name__ == '__main__':
    sys.exit(main())
