"""Independent evaluation of the RFC 7296 2.13-2.18 key schedule (stdlib hmac/hashlib only), of the RFC 3526 MODP primes
(from their defining formula, with pi from an integer Machin series) and of RFC 5903 ECP arithmetic (affine double-and-add).
Nothing is imported from /repo. The *structure* (which inputs, order, counters, slices) is the one fixed by spec/KeySchedule.tla;
this module supplies the numeric evaluation TLC cannot do (32-bit integers)."""
import hashlib
import hmac

PRF_HASH = {2: 'sha1', 5: 'sha256', 7: 'sha512'}
INTEG_KEYLEN = {2: 20, 12: 32, 14: 64}
INTEG_ICV = {2: 12, 12: 16, 14: 32}


def prf(prf_id, key, data):
    return hmac.new(key, data, getattr(hashlib, PRF_HASH[prf_id])).digest()


def prf_len(prf_id):
    return getattr(hashlib, PRF_HASH[prf_id])().digest_size


def prfplus(prf_id, key, seed, n):
    """T1 = prf(K, S | 0x01); Ti = prf(K, T(i-1) | S | i); output = T1 | T2 | ... truncated to n octets."""
    out, t, i = b'', b'', 1
    while len(out) < n:
        if i > 255:
            raise ValueError('prf+ counter overflow')
        t = prf(prf_id, key, t + seed + bytes([i]))
        out += t
        i += 1
    return out[:n]


def ike_keys(prf_id, integ_id, encr_bits, ni, nr, spi_i, spi_r, secret, old_sk_d=None, old_prf_id=None):
    """{SK_d | SK_ai | SK_ar | SK_ei | SK_er | SK_pi | SK_pr} = prf+(SKEYSEED, Ni | Nr | SPIi | SPIr).  For a rekeyed IKE_SA SKEYSEED is
    computed with the prf of the OLD IKE_SA (RFC 7296 2.18), everything else with the new one."""
    if old_sk_d is not None and old_prf_id is None:
        raise ValueError('the keys of a rekeyed IKE_SA need the prf of the old IKE_SA')
    skeyseed = prf(prf_id, ni + nr, secret) if old_sk_d is None else prf(old_prf_id, old_sk_d, secret + ni + nr)
    pl, il, el = prf_len(prf_id), INTEG_KEYLEN[integ_id], encr_bits // 8
    km = prfplus(prf_id, skeyseed, ni + nr + spi_i + spi_r, 3 * pl + 2 * il + 2 * el)
    names = [('sk_d', pl), ('sk_ai', il), ('sk_ar', il), ('sk_ei', el), ('sk_er', el), ('sk_pi', pl), ('sk_pr', pl)]
    out, off = {'skeyseed': skeyseed}, 0
    for name, ln in names:
        out[name] = km[off:off + ln]
        off += ln
    return out


def child_keys(prf_id, sk_d, integ_id, encr_bits, ni, nr, secret=None):
    """KEYMAT = prf+(SK_d, [g^ir (new) |] Ni | Nr), taken as encr-i, integ-i, encr-r, integ-r (RFC 7296 2.17)."""
    il, el = INTEG_KEYLEN[integ_id], encr_bits // 8
    km = prfplus(prf_id, sk_d, (secret or b'') + ni + nr, 2 * il + 2 * el)
    return {'ei': km[:el], 'ai': km[el:el + il], 'er': km[el + il:2 * el + il], 'ar': km[2 * el + il:2 * el + 2 * il]}


def id_body(id_type, data):
    return bytes([id_type, 0, 0, 0]) + data


def signed_octets(prf_id, own_init_msg, other_nonce, sk_p, id_type, id_data):
    return own_init_msg + other_nonce + prf(prf_id, sk_p, id_body(id_type, id_data))


def psk_auth(prf_id, psk, octets):
    return prf(prf_id, prf(prf_id, psk, b'Key Pad for IKEv2'), octets)


# ------------------------------------------------------------------------------------------------ RFC 3526
def _pi_scaled(bits):
    """floor(pi * 2^bits) via Machin: pi = 16 atan(1/5) - 4 atan(1/239), integer arithmetic with guard bits."""
    guard = 64
    one = 1 << (bits + guard)

    def atan_inv(x):
        total, term, n, sign = 0, one // x, 1, 1
        x2 = x * x
        while term:
            total += sign * (term // n)
            term //= x2
            n += 2
            sign = -sign
        return total
    return (16 * atan_inv(5) - 4 * atan_inv(239)) >> guard


MODP_C = {2048: 124476, 3072: 1690314, 4096: 240904, 6144: 929484, 8192: 4743158}
MODP_GROUP_BITS = {14: 2048, 15: 3072, 16: 4096, 17: 6144, 18: 8192}


def modp_prime(bits):
    """2^n - 2^(n-64) - 1 + 2^64 * ( floor(2^(n-130) * pi) + c )"""
    return (1 << bits) - (1 << (bits - 64)) - 1 + (1 << 64) * (_pi_scaled(bits - 130) + MODP_C[bits])


# ------------------------------------------------------------------------------------------------ RFC 5903
CURVES = {
    19: dict(bits=256,
             p=0xFFFFFFFF00000001000000000000000000000000FFFFFFFFFFFFFFFFFFFFFFFF,
             b=0x5AC635D8AA3A93E7B3EBBD55769886BC651D06B0CC53B0F63BCE3C3E27D2604B,
             gx=0x6B17D1F2E12C4247F8BCE6E563A440F277037D812DEB33A0F4A13945D898C296,
             gy=0x4FE342E2FE1A7F9B8EE7EB4A7C0F9E162BCE33576B315ECECBB6406837BF51F5,
             n=0xFFFFFFFF00000000FFFFFFFFFFFFFFFFBCE6FAADA7179E84F3B9CAC2FC632551),
    20: dict(bits=384,
             p=0xFFFFFFFFFFFFFFFFFFFFFFFFFFFFFFFFFFFFFFFFFFFFFFFFFFFFFFFFFFFFFFFEFFFFFFFF0000000000000000FFFFFFFF,
             b=0xB3312FA7E23EE7E4988E056BE3F82D19181D9C6EFE8141120314088F5013875AC656398D8A2ED19D2A85C8EDD3EC2AEF,
             gx=0xAA87CA22BE8B05378EB1C71EF320AD746E1D3B628BA79B9859F741E082542A385502F25DBF55296C3A545E3872760AB7,
             gy=0x3617DE4A96262C6F5D9E98BF9292DC29F8F41DBD289A147CE9DA3113B5F0B8C00A60B1CE1D7E819D7A431D7C90EA0E5F,
             n=0xFFFFFFFFFFFFFFFFFFFFFFFFFFFFFFFFFFFFFFFFFFFFFFFFC7634D81F4372DDF581A0DB248B0A77AECEC196ACCC52973),
    21: dict(bits=521,
             p=(1 << 521) - 1,
             b=0x0051953EB9618E1C9A1F929A21A0B68540EEA2DA725B99B315F3B8B489918EF109E156193951EC7E937B1652C0BD3BB1BF073573DF883D2C34F1EF451FD46B503F00,
             gx=0x00C6858E06B70404E9CD9E3ECB662395B4429C648139053FB521F828AF606B4D3DBAA14B5E77EFE75928FE1DC127A2FFA8DE3348B3C1856A429BF97E7E31C2E5BD66,
             gy=0x011839296A789A3BC0045C8A5FB42C7D1BD998F54449579B446817AFBD17273E662C97EE72995EF42640C550B9013FAD0761353C7086A272C24088BE94769FD16650,
             n=int('01FF' + 'FFFFFFFF' * 7 + 'FFFFFFFA' + '51868783BF2F966B7FCC0148F709A5D03BB5C9B8899C47AEBB6FB71E91386409', 16)),
}


def _ec_add(c, P, Q):
    if P is None:
        return Q
    if Q is None:
        return P
    p = c['p']
    x1, y1 = P
    x2, y2 = Q
    if x1 == x2 and (y1 + y2) % p == 0:
        return None
    if P == Q:
        lam = (3 * x1 * x1 - 3) * pow(2 * y1, -1, p) % p      # a = -3
    else:
        lam = (y2 - y1) * pow(x2 - x1, -1, p) % p
    x3 = (lam * lam - x1 - x2) % p
    return x3, (lam * (x1 - x3) - y1) % p


def ec_mul(group, k, P=None):
    c = CURVES[group]
    P = P or (c['gx'], c['gy'])
    R = None
    while k:
        if k & 1:
            R = _ec_add(c, R, P)
        P = _ec_add(c, P, P)
        k >>= 1
    return R


def ec_on_curve(group, P):
    c = CURVES[group]
    x, y = P
    return (y * y - (x * x * x - 3 * x + c['b'])) % c['p'] == 0


def ec_selfcheck():
    for g, c in CURVES.items():
        assert ec_on_curve(g, (c['gx'], c['gy'])), g
        assert ec_mul(g, c['n']) is None, g
    return True


def dh_public_len(group):
    if group in MODP_GROUP_BITS:
        return MODP_GROUP_BITS[group] // 8
    return 2 * ((CURVES[group]['bits'] + 7) // 8)


def dh_shared(group, private, peer_public):
    """Shared secret octets from the private scalar and the peer's wire public value."""
    if group in MODP_GROUP_BITS:
        bits = MODP_GROUP_BITS[group]
        p = modp_prime(bits)
        return pow(int.from_bytes(peer_public, 'big'), private, p).to_bytes(bits // 8, 'big')
    ln = (CURVES[group]['bits'] + 7) // 8
    P = (int.from_bytes(peer_public[:ln], 'big'), int.from_bytes(peer_public[ln:], 'big'))
    R = ec_mul(group, private, P)
    return R[0].to_bytes(ln, 'big')


def dh_public(group, private):
    if group in MODP_GROUP_BITS:
        bits = MODP_GROUP_BITS[group]
        return pow(2, private, modp_prime(bits)).to_bytes(bits // 8, 'big')
    ln = (CURVES[group]['bits'] + 7) // 8
    R = ec_mul(group, private)
    return R[0].to_bytes(ln, 'big') + R[1].to_bytes(ln, 'big')


def dh_peer_forcing_leading_zero(group, own_public, limit=200000):
    """A valid peer public value g^k (k small, found by stepping k) for which the shared secret with the holder of own_public starts
    with a zero octet: shared_k = own_public^k is stepped with one multiplication / point addition per candidate, without the
    private scalar.  Returns (peer_public_octets, k) or None."""
    if group in MODP_GROUP_BITS:
        bits = MODP_GROUP_BITS[group]
        p = modp_prime(bits)
        a = int.from_bytes(own_public, 'big')
        s, y = a, 2
        for k in range(2, limit):
            s, y = s * a % p, y * 2 % p
            if s >> (bits - 8) == 0 and 1 < y < p - 1:
                return y.to_bytes(bits // 8, 'big'), k
        return None
    c = CURVES[group]
    ln = (c['bits'] + 7) // 8
    A = (int.from_bytes(own_public[:ln], 'big'), int.from_bytes(own_public[ln:], 'big'))
    G = (c['gx'], c['gy'])
    S, Y = A, G
    for k in range(2, limit):
        S, Y = _ec_add(c, S, A), _ec_add(c, Y, G)
        if S is not None and S[0] >> (8 * (ln - 1)) == 0:
            return Y[0].to_bytes(ln, 'big') + Y[1].to_bytes(ln, 'big'), k
    return None
