"""Wire oracle: an independent reading of an exchange log (RFC 7296 2.13-2.18, 2.15).

Fed with the datagrams of a session *in the order they were produced* (each response together with the request it answers),
it derives - from the wire values and the Diffie-Hellman private scalars only - every key the two endpoints must hold and every
IPsec SA each must install, opens every protected message with the keys *it* derived and recomputes every AUTH payload.
Nothing is taken from /repo except the DH private scalars (read off the `cryptography` key objects) and the configured
credentials.  spec/KeySchedule.tla fixes the structure evaluated here (DESIGN.md C04)."""
import kdf_ref
import wire_ref as W

ENCR_AES_CBC = 12
ALG_AUTH_NAME = {2: 'hmac(sha1)', 12: 'hmac(sha256)', 14: 'hmac(sha512)'}


class OracleError(Exception):
    def __init__(self, kind, msg):
        super().__init__(f'{kind}: {msg}')
        self.kind = kind
        self.msg = msg


def tids(prop, ttype):
    return [t for t in prop['transforms'] if t['type'] == ttype]


def suite_of(prop):
    encr = tids(prop, 1)
    return {'encr': encr[0]['id'] if encr else None, 'encr_bits': (encr[0]['keylen'] or 0) if encr else 0,
            'prf': tids(prop, 2)[0]['id'] if tids(prop, 2) else None,
            'integ': tids(prop, 3)[0]['id'] if tids(prop, 3) else None,
            'dh': tids(prop, 4)[0]['id'] if tids(prop, 4) else None, 'proto': prop['proto']}


def private_scalar(dh_obj):
    pn = dh_obj._private_key.private_numbers()
    return pn.x if hasattr(pn, 'x') else pn.private_value


class IkeCtx:
    def __init__(self, spi_i, spi_r, suite, keys, ni, nr, init_req, init_res, parent=None):
        self.spi_i, self.spi_r, self.suite, self.keys = spi_i, spi_r, suite, keys
        self.ni, self.nr, self.init_req, self.init_res = ni, nr, init_req, init_res
        self.parent = parent
        self.auth_ok = {'i': None, 'r': None}

    def sk(self, from_initiator):
        k = self.keys
        return {'ke': k['sk_ei' if from_initiator else 'sk_er'], 'ka': k['sk_ai' if from_initiator else 'sk_ar'],
                'integ': self.suite['integ']}


class WireOracle:
    def __init__(self, world, creds, kdf=None):
        """creds: {endpoint: {'psk': bytes|None, 'pub': cryptography public key|None}} - the credential each endpoint
        authenticates with (as configured at its peer)."""
        self.w = world
        self.creds = creds
        self.kdf = kdf or kdf_ref         # spec-driven evaluation (plan_eval.PlanKdf) when given
        self.ikes = {}            # (spi_i, spi_r) -> IkeCtx
        self.children = {}        # child spi (bytes) -> dict(expected kernel SA material)
        self.pending_rekey = {}   # new spi_i -> (parent ctx, request payloads, ...)
        self.dh_used = 0
        self.checks = {'ike_keys': 0, 'child_keys': 0, 'auth': 0, 'dh': 0, 'opened': 0}

    # -------------------------------------------------------------------------------------------- Diffie-Hellman
    def shared_secret(self, group, ke_i, ke_r):
        """g^ir recomputed with Python integers from each side's private scalar and the other side's wire public value."""
        secrets = []
        for obj, peer_pub, recorded in self.w.dh_secrets:
            if int(obj.group) != group:
                continue
            own_pub = bytes(obj.public_key)
            if (own_pub == ke_i and peer_pub == ke_r) or (own_pub == ke_r and peer_pub == ke_i):
                x = private_scalar(obj)
                if kdf_ref.dh_public(group, x) != own_pub:
                    raise OracleError('dh', f'group {group}: public value on the wire is not g^x in the RFC group (fixed width, big endian)')
                ref = kdf_ref.dh_shared(group, x, peer_pub)
                if ref != recorded:
                    raise OracleError('dh', f'group {group}: shared secret differs from the independent computation '
                                            f'(len {len(recorded)} vs {len(ref)})')
                secrets.append(ref)
                self.checks['dh'] += 1
        if not secrets:
            raise OracleError('dh', f'no Diffie-Hellman computation recorded for the KE values of this exchange (group {group})')
        if any(s != secrets[0] for s in secrets):
            raise OracleError('dh', 'the two endpoints computed different shared secrets')
        if len(ke_i) != kdf_ref.dh_public_len(group) or len(ke_r) != kdf_ref.dh_public_len(group):
            raise OracleError('dh', f'public value of group {group} is not fixed width')
        return secrets[0]

    # -------------------------------------------------------------------------------------------- feeding
    def open(self, data):
        """Decode a datagram, opening SK with the keys this oracle derived."""
        h = W.dec_header(data)
        if h['xchg'] == W.IKE_SA_INIT:
            m = W.dec_message(data)
            return m, None, m['payloads']
        ctx = self.ikes.get((h['spi_i'], h['spi_r']))
        if ctx is None:
            raise OracleError('ctx', f'protected message for unknown IKE_SA {h["spi_i"].hex()}/{h["spi_r"].hex()}')
        try:
            m = W.dec_message(data, ctx.sk(h['initiator']))
        except W.WireError as ex:
            raise OracleError('open', f'cannot open protected message with the RFC-derived keys: {ex}')
        if not m['protected']:
            raise OracleError('clear', f'message of exchange {h["xchg"]} is not protected')
        if m['payloads']:
            raise OracleError('clear', f'payloads outside the encrypted payload: {[p["t"] for p in m["payloads"]]}')
        self.checks['opened'] += 1
        return m, ctx, m['inner']

    def exchange(self, req_data, res_data, initiator_ep, responder_ep):
        """One completed request/response pair."""
        rq, rctx, rqp = self.open(req_data)
        x = rq['xchg']
        if x == W.IKE_SA_INIT:
            rs = W.dec_message(res_data)
            rsp = rs['payloads']
            if any(p['t'] == W.NOTIFY and p['ntype'] < 16384 for p in rsp) or not any(p['t'] == W.SA for p in rsp):
                return 'init-retry'
            prop = next(p for p in rsp if p['t'] == W.SA)['proposals'][0]
            suite = suite_of(prop)
            ni = next(p for p in rqp if p['t'] == W.NONCE)['data']
            nr = next(p for p in rsp if p['t'] == W.NONCE)['data']
            kei = next(p for p in rqp if p['t'] == W.KE)
            ker = next(p for p in rsp if p['t'] == W.KE)
            if kei['group'] != suite['dh'] or ker['group'] != suite['dh']:
                raise OracleError('ke', 'KE group differs from the chosen DH transform')
            secret = self.shared_secret(suite['dh'], kei['data'], ker['data'])
            keys = self.kdf.ike_keys(suite['prf'], suite['integ'], suite['encr_bits'], ni, nr, rq['spi_i'], rs['spi_r'], secret)
            self.ikes[(rq['spi_i'], rs['spi_r'])] = IkeCtx(rq['spi_i'], rs['spi_r'], suite, keys, ni, nr, bytes(req_data), bytes(res_data))
            return 'init'
        rs, ctx, rsp = self.open(res_data)
        if x == W.IKE_AUTH:
            self.check_auth(ctx, rqp, True, initiator_ep)
            if any(p['t'] == W.AUTH for p in rsp):
                self.check_auth(ctx, rsp, False, responder_ep)
            if any(p['t'] == W.SA for p in rsp):
                self.child(ctx, rqp, rsp, ctx.ni, ctx.nr, None, initiator_ep, responder_ep, first=True)
            return 'auth'
        if x == W.CREATE_CHILD_SA:
            sa_q = next((p for p in rqp if p['t'] == W.SA), None)
            sa_r = next((p for p in rsp if p['t'] == W.SA), None)
            if sa_q is None or sa_r is None:
                return 'ccsa-refused'
            ni = next(p for p in rqp if p['t'] == W.NONCE)['data']
            nr = next(p for p in rsp if p['t'] == W.NONCE)['data']
            prop = sa_r['proposals'][0]
            suite = suite_of(prop)
            kei = next((p for p in rqp if p['t'] == W.KE), None)
            ker = next((p for p in rsp if p['t'] == W.KE), None)
            secret = None
            if suite['dh']:
                if kei is None or ker is None or kei['group'] != suite['dh'] or ker['group'] != suite['dh']:
                    raise OracleError('ke', 'KE payloads do not match the chosen DH transform')
                secret = self.shared_secret(suite['dh'], kei['data'], ker['data'])
            if prop['proto'] == 1:        # IKE_SA rekey: SKEYSEED = prf(SK_d (old), g^ir (new) | Ni | Nr), new SPIs from the SA payloads
                # the initiator's SPI of the new IKE_SA travels in the proposal that was CHOSEN (same Proposal Num), not in whichever proposal comes first
                new_i = next((q['spi'] for q in sa_q['proposals'] if q['num'] == prop['num']), sa_q['proposals'][0]['spi'])
                new_r = prop['spi']
                keys = self.kdf.ike_keys(suite['prf'], suite['integ'], suite['encr_bits'], ni, nr, new_i, new_r, secret,
                                        old_sk_d=ctx.keys['sk_d'], old_prf_id=ctx.suite['prf'])
                # the exchange initiator becomes the initiator of the new IKE_SA
                self.ikes[(new_i, new_r)] = IkeCtx(new_i, new_r, suite, keys, ni, nr, None, None, parent=ctx)
                return 'rekey-ike'
            self.child(ctx, rqp, rsp, ni, nr, secret, initiator_ep, responder_ep, first=False)
            return 'child'
        return 'info'

    def check_auth(self, ctx, payloads, from_initiator, signer_ep):
        """RFC 7296 2.15: AUTH over (own IKE_SA_INIT message | other side's nonce | prf(SK_p, ID body))."""
        idp = next(p for p in payloads if p['t'] == (W.IDI if from_initiator else W.IDR))
        auth = next(p for p in payloads if p['t'] == W.AUTH)
        own = ctx.init_req if from_initiator else ctx.init_res
        other_nonce = ctx.nr if from_initiator else ctx.ni
        sk_p = ctx.keys['sk_pi' if from_initiator else 'sk_pr']
        octets = self.kdf.signed_octets(ctx.suite['prf'], own, other_nonce, sk_p, idp['id_type'], idp['data'])
        cred = self.creds[signer_ep]
        ok = False
        if auth['method'] == 2 and cred.get('psk') is not None:
            ok = self.kdf.psk_auth(ctx.suite['prf'], cred['psk'], octets) == auth['data']
        elif auth['method'] == 1 and cred.get('pub') is not None:
            from cryptography.exceptions import InvalidSignature
            from cryptography.hazmat.primitives import hashes
            from cryptography.hazmat.primitives.asymmetric import padding
            try:
                cred['pub'].verify(auth['data'], octets, padding.PKCS1v15(), hashes.SHA256())
                ok = True
            except InvalidSignature:
                ok = False
        self.checks['auth'] += 1
        ctx.auth_ok['i' if from_initiator else 'r'] = ok
        if not ok:
            raise OracleError('auth', f'AUTH payload of the {"initiator" if from_initiator else "responder"} does not verify over the '
                                      f'wire octets of its own IKE_SA_INIT message, the other nonce and prf(SK_p, ID) (RFC 7296 2.15)')

    def child(self, ctx, rqp, rsp, ni, nr, secret, initiator_ep, responder_ep, first):
        prop_q = next(p for p in rqp if p['t'] == W.SA)['proposals'][0]
        prop_r = next(p for p in rsp if p['t'] == W.SA)['proposals'][0]
        suite = suite_of(prop_r)
        km = self.kdf.child_keys(ctx.suite['prf'], ctx.keys['sk_d'], suite['integ'], suite['encr_bits'] if prop_r['proto'] == 3 else 0,
                                ni, nr, secret)
        tsi = next(p for p in rsp if p['t'] == W.TSI)['ts'][0]
        tsr = next(p for p in rsp if p['t'] == W.TSR)['ts'][0]
        transport = any(p['t'] == W.NOTIFY and p['ntype'] == 16391 for p in rsp)
        common = {'proto': 50 if prop_r['proto'] == 3 else 51, 'mode': 0 if transport else 1,
                  'auth_name': ALG_AUTH_NAME[suite['integ']], 'encr_name': 'cbc(aes)' if prop_r['proto'] == 3 else None,
                  'tsi': tsi, 'tsr': tsr, 'ike': (ctx.spi_i, ctx.spi_r)}
        # SA carrying traffic initiator -> responder: SPI chosen by the responder, first half of KEYMAT
        self.children[bytes(prop_r['spi'])] = dict(common, spi=bytes(prop_r['spi']), src=initiator_ep, dst=responder_ep,
                                                    ekey=km['ei'], akey=km['ai'], slot='i', sel_src=tsi, sel_dst=tsr)
        self.children[bytes(prop_q['spi'])] = dict(common, spi=bytes(prop_q['spi']), src=responder_ep, dst=initiator_ep,
                                                    ekey=km['er'], akey=km['ar'], slot='r', sel_src=tsr, sel_dst=tsi)
        self.checks['child_keys'] += 1

    # -------------------------------------------------------------------------------------------- judging the endpoints
    def check_ike_keyring(self, sa):
        ctx = self.ikes.get((bytes(sa.spi_i), bytes(sa.spi_r)))
        if ctx is None:
            raise OracleError('ctx', f'IKE_SA {bytes(sa.my_spi).hex()} holds keys for an exchange the oracle did not see complete')
        ring = sa.ike_sa_keyring
        for name in ('sk_d', 'sk_ai', 'sk_ar', 'sk_ei', 'sk_er', 'sk_pi', 'sk_pr'):
            if bytes(getattr(ring, name)) != ctx.keys[name]:
                raise OracleError('ike_keys', f'{name} of IKE_SA {bytes(sa.my_spi).hex()} differs from RFC 7296 2.14'
                                              f'{" / 2.18 (rekey)" if ctx.parent else ""}')
        self.checks['ike_keys'] += 1
        return ctx

    def check_kernel_sa(self, e, req, addr_of):
        """One decoded NEWSA of endpoint e against what the negotiation on the wire prescribes."""
        exp = self.children.get(bytes(req['spi']))
        if exp is None:
            raise OracleError('kernel', f'{e} installed SPI {bytes(req["spi"]).hex()} that no completed negotiation produced')
        auth = next((a for a in req['attrs'] if a.get('alg_name') is not None and a['type'] == 1), None)
        crypt = next((a for a in req['attrs'] if a.get('alg_name') is not None and a['type'] == 2), None)
        what = f'{e}: kernel SA {bytes(req["spi"]).hex()}'
        if req['daddr'] != addr_of(exp['dst']) or req['saddr'] != addr_of(exp['src']):
            raise OracleError('kernel.addr', f'{what}: tunnel addresses {req["saddr"]}->{req["daddr"]}, negotiated direction is '
                                             f'{addr_of(exp["src"])}->{addr_of(exp["dst"])}')
        if req['proto'] != exp['proto'] or req['mode'] != exp['mode']:
            raise OracleError('kernel.proto', f'{what}: proto/mode {req["proto"]}/{req["mode"]} expected {exp["proto"]}/{exp["mode"]}')
        if auth is None or auth['alg_name'] != exp['auth_name']:
            raise OracleError('kernel.alg', f'{what}: integrity algorithm {auth and auth["alg_name"]} expected {exp["auth_name"]}')
        if (crypt['alg_name'] if crypt else None) != exp['encr_name']:
            raise OracleError('kernel.alg', f'{what}: encryption algorithm {crypt and crypt["alg_name"]} expected {exp["encr_name"]}')
        if auth['key'] != exp['akey'] or (crypt['key'] if crypt else b'') != exp['ekey']:
            other = 'r' if exp['slot'] == 'i' else 'i'
            raise OracleError('kernel.keys', f'{what}: keys are not the "{exp["slot"]}" half of KEYMAT (RFC 7296 2.17: initiator-to-responder keys first)'
                                             f' [{"it carries the other half" if self._is_slot(req, other, auth, crypt) else "unknown bytes"}]')
        if crypt is not None and crypt['alg_key_len'] != 8 * len(exp['ekey']):
            raise OracleError('kernel.alg', f'{what}: encryption key length {crypt["alg_key_len"]} bits')
        sel = req['sel']
        self._check_selector(what, sel, exp['sel_src'], exp['sel_dst'])
        return exp

    def _is_slot(self, req, slot, auth, crypt):
        for c in self.children.values():
            if c['ike'] == self.children[bytes(req['spi'])]['ike'] and c['slot'] == slot and c['akey'] == auth['key']:
                return True
        return False

    @staticmethod
    def _check_selector(what, sel, ts_src, ts_dst):
        import ipaddress
        for side, ts, addr, plen, port, mask in (('source', ts_src, sel['saddr'], sel['prefixlen_s'], sel['sport'], sel['sport_mask']),
                                                 ('destination', ts_dst, sel['daddr'], sel['prefixlen_d'], sel['dport'], sel['dport_mask'])):
            lo, hi = ipaddress.ip_address(ts['saddr']), ipaddress.ip_address(ts['eaddr'])
            net = ipaddress.ip_network(f'{addr}/{plen}', strict=False)
            if net[0] != lo or net[-1] != hi:
                # a non-CIDR range is covered by the smallest enclosing network
                if not (lo in net and hi in net):
                    raise OracleError('kernel.selector', f'{what}: {side} selector {net} does not cover negotiated range {lo}-{hi}')
                sup = ipaddress.ip_network(f'{lo}/{lo.max_prefixlen}', strict=False)
                while hi not in sup:
                    sup = sup.supernet()
                if sup != net:
                    raise OracleError('kernel.selector', f'{what}: {side} selector {net}, negotiated range {lo}-{hi}')
            exp_port = 0 if (ts['sport'], ts['eport']) == (0, 65535) else ts['eport']
            if port != exp_port or mask != (0xffff if exp_port else 0):
                raise OracleError('kernel.selector', f'{what}: {side} port {port}/{mask:#x}, negotiated {ts["sport"]}-{ts["eport"]}')
        # the protocol the PAIR denotes: a packet must fit both selectors - "any" on one side leaves the choice to the other side
        pair_proto = ts_src['proto'] if ts_dst['proto'] in (0, ts_src['proto']) else (ts_dst['proto'] if ts_src['proto'] == 0 else None)
        if pair_proto is None:
            raise OracleError('kernel.selector', f'{what}: the negotiated selectors name two different IP protocols ({ts_src["proto"]}, {ts_dst["proto"]}): they denote no packet')
        if sel['proto'] != pair_proto:
            raise OracleError('kernel.selector', f'{what}: IP protocol {sel["proto"]}, negotiated {pair_proto} (selectors: {ts_src["proto"]} / {ts_dst["proto"]})')


MIRROR_FIELDS = ('daddr', 'saddr', 'proto', 'mode', 'family', 'sel')


def check_mirror(w, ea, eb):
    """Every SA installed at both ends is the same kernel object at both ends (SPI, tunnel addresses, protocol, mode,
    algorithms, key bytes, selectors); every SA installed at one end of a completed negotiation is installed at the other."""
    ka, kb = w.kernel[ea].sad, w.kernel[eb].sad
    if set(ka) != set(kb):
        raise OracleError('mirror', f'SAD key sets differ: only {ea}: {sorted((k[0], k[2].hex()) for k in set(ka) - set(kb))} '
                                    f'only {eb}: {sorted((k[0], k[2].hex()) for k in set(kb) - set(ka))}')
    for key in ka:
        a, b = ka[key], kb[key]
        for f in MIRROR_FIELDS:
            if a[f] != b[f]:
                raise OracleError('mirror', f'SA {key[2].hex()}: field {f} differs: {ea}={a[f]} {eb}={b[f]}')
        aa = sorted((x['type'], x.get('alg_name'), x.get('alg_key_len'), x.get('key')) for x in a['attrs'])
        bb = sorted((x['type'], x.get('alg_name'), x.get('alg_key_len'), x.get('key')) for x in b['attrs'])
        if aa != bb:
            raise OracleError('mirror', f'SA {key[2].hex()}: algorithms / keys differ between {ea} and {eb}')
    return len(ka)
