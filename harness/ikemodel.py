"""Binding A (spec -> code) for spec/Ike.tla: TLC prints every transition of a bounded model as JSON (MC.tla, EdgeDump),
a path cover turns the labelled graph into behaviours that take every transition at least once, and each behaviour is
replayed into two real IkeSaController objects; after every step the projection of the real world is compared with the
specification state.  Also: simulation-mode behaviours for models too large to dump exhaustively."""
import collections
import json
import multiprocessing
import os
import re
import subprocess
import sys
import tempfile
import shutil
import time

import common

# --------------------------------------------------------------------------------------------------------- scenarios
# Abstract DH group numbers of the specification -> configuration names of the implementation
GROUP_NAME = {1: 'ecp256', 2: 'ecp384'}
GROUP_ID = {1: 19, 2: 20}
GROUP_ABS = {19: 1, 20: 2}

BASE = dict(MaxTrig=2, MaxDup=1, MaxLoss=0, MaxAdv=0, Triggers=('acquire', 'soft', 'hard', 'rekeyike', 'delike', 'dpd'),
            IkeDh='DhSame', ChildDh='DhNone', CookieThreshold=10, StartEstablished=True, MaxSpi=12,
            AsPinned_C16=False, KnownToBothOnly=False, FreeRetx=False, IdleTimers=False)

SCENARIOS = {
    # established IKE_SA + 1 CHILD_SA, every trigger kind, duplication
    'estab':      dict(BASE),
    'estab_loss': dict(BASE, MaxLoss=1),
    'estab_c09':  dict(BASE, KnownToBothOnly=True, MaxLoss=1),
    'estab_pfs':  dict(BASE, ChildDh='DhMismatch', Triggers=('acquire', 'soft', 'hard')),
    'estab_rekey_ke': dict(BASE, IkeDh='DhMismatch', Triggers=('rekeyike', 'soft', 'delike')),
    # PFS without a retry: crossing CREATE_CHILD_SA exchanges (new child / rekey) that both carry KE payloads
    'estab_pfs_same': dict(BASE, ChildDh='DhSame', Triggers=('acquire', 'soft')),
    # the periodic timers also come due while the IKE_SA is busy / rekeyed / being deleted
    'estab_idle': dict(BASE, IdleTimers=True, MaxDup=0, Triggers=('rekeyike', 'delike', 'dpd', 'soft')),
    # three triggers of few kinds: what a refused exchange leaves behind shows in a LATER exchange of the same IKE_SA
    'estab3_soft': dict(BASE, MaxTrig=3, MaxDup=0, KnownToBothOnly=True, Triggers=('soft', 'acquire', 'hard')),
    'estab3_rekey': dict(BASE, MaxTrig=3, MaxDup=0, KnownToBothOnly=True, Triggers=('rekeyike', 'soft', 'delike')),
    'estab3':     dict(BASE, MaxTrig=3, MaxDup=1),
    'estab3_c09': dict(BASE, MaxTrig=3, MaxDup=1, KnownToBothOnly=True),
    'live':       dict(BASE, MaxTrig=1, MaxDup=0, MaxLoss=1, KnownToBothOnly=True, FreeRetx=True),
    'live2':      dict(BASE, MaxTrig=2, MaxDup=0, MaxLoss=0, KnownToBothOnly=True, FreeRetx=True),
    'adv':        dict(BASE, MaxTrig=1, MaxDup=0, MaxAdv=1),
    'adv_init':   dict(BASE, StartEstablished=False, MaxTrig=1, MaxDup=0, MaxAdv=1, Triggers=('acquire',)),
    'adv2':       dict(BASE, MaxTrig=2, MaxDup=0, MaxAdv=1, Triggers=('soft', 'hard', 'rekeyike', 'delike', 'dpd')),
    # from empty tables
    'init':       dict(BASE, StartEstablished=False, MaxTrig=2, Triggers=('acquire', 'hard', 'dpd')),
    'init_ke':    dict(BASE, StartEstablished=False, MaxTrig=2, IkeDh='DhMismatch', Triggers=('acquire',)),
    'init_cookie': dict(BASE, StartEstablished=False, MaxTrig=2, CookieThreshold=0, Triggers=('acquire',)),
    'init3':      dict(BASE, StartEstablished=False, MaxTrig=3, Triggers=('acquire', 'soft', 'hard', 'rekeyike', 'delike', 'dpd')),
}

DH_LISTS = {'DhSame': {'A': [1], 'B': [1]}, 'DhMismatch': {'A': [1, 2], 'B': [2, 1]}, 'DhNone': {'A': [], 'B': []}}


def tla_value(v):
    if isinstance(v, bool):
        return 'TRUE' if v else 'FALSE'
    if isinstance(v, int):
        return str(v)
    if isinstance(v, (tuple, list, set, frozenset)):
        return '{' + ', '.join('"%s"' % x for x in v) + '}'
    return str(v)


def cfg_text(sc, spec='Spec', invariants=(), properties=(), action_constraint=None, constraint=True, view=True):
    lines = [f'SPECIFICATION {spec}', 'CONSTANTS']
    for k, v in sc.items():
        if k in ('IkeDh', 'ChildDh'):
            lines.append(f' {k} <- {v}')
        else:
            lines.append(f' {k} = {tla_value(v)}')
    if constraint:
        lines.append('CONSTRAINT StateConstraint')
    for i in invariants:
        lines.append(f'INVARIANT {i}')
    for p in properties:
        lines.append(f'PROPERTY {p}')
    if action_constraint:
        lines.append(f'ACTION_CONSTRAINT {action_constraint}')
    if view:
        lines.append('VIEW View')
    lines.append('CHECK_DEADLOCK FALSE')
    return '\n'.join(lines) + '\n'


ALL_INVARIANTS = ('NoDupTable', 'ListedAreKnown', 'HeldAreListed', 'NoDeletedListed', 'KernelMatches', 'OneOutstanding',
                  'HeaderOk', 'SameIkeKeys', 'Mirror')
ALL_PROPERTIES = ('MidMonotonic', 'ReplayIsFree', 'CookieFirst', 'ForgeryHarmless')


def model_check(scname, sc=None, invariants=ALL_INVARIANTS, properties=ALL_PROPERTIES, workers=None, timeout=1500,
                coverage=False, spec='Spec', constraint=True):
    """Exhaustive TLC run of one scenario. Returns common.TlcResult."""
    sc = dict(sc or SCENARIOS[scname])
    inv = list(invariants)
    if sc.get('KnownToBothOnly') and not sc.get('FreeRetx'):
        inv.append('ConsistentAtRest')
    tmp = tempfile.mkdtemp(prefix='verif-cfg-')
    try:
        cfg = os.path.join(tmp, f'{scname}.cfg')
        with open(cfg, 'w') as fh:
            fh.write(cfg_text(sc, spec=spec, invariants=inv, properties=properties, constraint=constraint))
        return common.run_tlc('MC.tla', cfg=cfg, workers=workers, timeout=timeout, coverage=coverage)
    finally:
        shutil.rmtree(tmp, ignore_errors=True)


from tlcgraph import Graph, dump      # noqa: E402


def dump_graph(scname, sc=None, timeout=900):
    """Run TLC with the EdgeDump action constraint (one worker) and parse the printed transitions of spec/MC.tla."""
    sc = dict(sc or SCENARIOS[scname])
    maxspi = sc['MaxSpi']
    return dump('MC.tla', cfg_text(sc, spec='DumpSpec', action_constraint='EdgeDump'), scname, sc,
                lambda st: all(v <= maxspi for v in st['nspi'].values()), timeout=timeout)


# --------------------------------------------------------------------------------------------------------- parallel replay
_G = None        # graph shared with forked workers
_PATHS = None


def _replay_slice(args):
    import ikereplay
    lo, hi, seed = args
    g = _G
    paths = _PATHS
    res = {'behaviours': 0, 'steps': 0, 'mismatches': [], 'actions': collections.Counter(), 'edges': set()}
    for p in paths[lo:hi]:
        steps = [(g.edges[i][1], g.edges[i][2], g.states[g.edges[i][3]]) for i in p]
        done, mm, w = ikereplay.replay_behaviour(g.sc, steps, seed=seed)
        res['behaviours'] += 1
        res['steps'] += done
        for i in p[:done]:
            res['edges'].add(i)
        for a, _, _ in steps[:done]:
            res['actions'][a['a'] + (':' + a['how'] if 'how' in a else '')] += 1
        if mm is not None:
            a = steps[done][0]
            res['mismatches'].append({
                'component': mm.component, 'msg': mm.msg, 'expected': mm.expected, 'observed': mm.observed,
                'at': a['a'] + (':' + a.get('how', '')), 'step': done,
                'actions': [describe(s[0]) for s in steps[:done + 1]],
                'path': list(p[:done + 1]), 'scenario': g.scname})
    return res


def describe(a):
    n = a['a']
    if n == 'Deliver':
        m = a['m']
        return f"Deliver{'+keep' if a['keep'] else ''}->{m['dst']} {m['x']}/{'resp' if m['resp'] else 'req'} mid={m['mid']} {m['body']} [{a['how']}]"
    if n == 'NetDrop':
        m = a['m']
        return f"NetDrop {m['x']}/{'resp' if m['resp'] else 'req'} mid={m['mid']} to {m['dst']}"
    if n == 'CtlAcquire':
        return f"CtlAcquire({a['e']})"
    if n == 'CtlExpire':
        return f"CtlExpire({a['e']}, {a['spi']}, hard={a['hard']})"
    if n == 'TimerIdle':
        return f"TimerIdle({a.get('s')}, {a.get('which')})"
    return f"{n}({a.get('s')})"


def replay_graph(g, paths=None, nproc=None, seed=0, limit=None):
    """Replay behaviours of graph g in parallel worker processes (fork: the graph is shared copy-on-write)."""
    global _G, _PATHS
    paths = paths if paths is not None else g.behaviours()
    if limit is not None and len(paths) > limit:
        import random
        rnd = random.Random(seed)
        paths = rnd.sample(paths, limit)
    nproc = nproc or common.NCPU
    _G = g
    _PATHS = paths
    chunk = max(1, (len(paths) + nproc * 4 - 1) // (nproc * 4))
    jobs = [(lo, min(lo + chunk, len(paths)), seed) for lo in range(0, len(paths), chunk)]
    total = {'behaviours': 0, 'steps': 0, 'mismatches': [], 'actions': collections.Counter(), 'edges': set()}
    import gc
    gc.collect()
    gc.freeze()
    ctx = multiprocessing.get_context('fork')
    with ctx.Pool(nproc) as pool:
        for r in pool.imap_unordered(_replay_slice, jobs):
            total['behaviours'] += r['behaviours']
            total['steps'] += r['steps']
            total['mismatches'] += r['mismatches']
            total['actions'].update(r['actions'])
            total['edges'] |= r['edges']
    total['paths'] = len(paths)
    return total


def _fault_slice(args):
    import ikereplay
    lo, hi, seed = args
    g = _G
    res = {'runs': 0, 'hits': 0, 'violations': [], 'kinds': collections.Counter()}
    for p in _PATHS[lo:hi]:
        steps = [(g.edges[i][1], g.edges[i][2], g.states[g.edges[i][3]]) for i in p]
        k = 1
        while True:
            try:
                done, bad, hit = ikereplay.fault_replay(g.sc, steps, k, seed=seed)
            except ikereplay.Mismatch:
                res['kinds']['diverged-before-fault'] += 1      # the fault-free replay of the same behaviour reports this
                break
            if hit is None:
                break                       # fewer than k kernel requests in this behaviour
            res['runs'] += 1
            res['hits'] += 1
            res['kinds'][hit.split()[0]] += 1
            if bad is not None:
                bad.update(actions=[describe(s[0]) for s in steps[:done + 1]], path=list(p), refuse_at=k, scenario=g.scname)
                res['violations'].append(bad)
            k += 1
    return res


def fault_enumeration(g, paths, nproc=None, seed=0):
    """For every behaviour and every index of a NEWSA/DELSA request issued in it: re-run with that request refused."""
    global _G, _PATHS
    nproc = nproc or common.NCPU
    _G, _PATHS = g, paths
    chunk = max(1, (len(paths) + nproc * 4 - 1) // (nproc * 4))
    jobs = [(lo, min(lo + chunk, len(paths)), seed) for lo in range(0, len(paths), chunk)]
    total = {'runs': 0, 'violations': [], 'kinds': collections.Counter()}
    import gc
    gc.collect()
    gc.freeze()
    with multiprocessing.get_context('fork').Pool(nproc) as pool:
        for r in pool.imap_unordered(_fault_slice, jobs):
            total['runs'] += r['runs']
            total['violations'] += r['violations']
            total['kinds'].update(r['kinds'])
    return total
