"""C03 - unprotected or forged messages cannot affect an IKE_SA that has keys."""
import itertools
import random

import common
import probes
import wire_ref as W
import world as wd
from checks import ikeprop
from world import IkeSa


# ------------------------------------------------------------------------------------------------ reaching every keyed state
def fire(w, e, sa, which):
    if which == 'rekeyike':
        sa.rekey_ike_sa_at = w.now - 1
        out = w.timer(e, sa, 'check_rekey_ike_sa_timer')
        sa.rekey_ike_sa_at = w.now + 1e9
    elif which == 'delike':
        sa.delete_ike_sa_at = w.now - 1
        out = w.timer(e, sa, 'check_rekey_ike_sa_timer')
        sa.delete_ike_sa_at = w.now + 1e9
    else:
        sa.start_dpd_at = w.now - 1
        out = w.timer(e, sa, 'check_dead_peer_detection_timer')
    return out


def scenarios():
    """(name, builder).  A builder drives a fresh world and returns the list of (endpoint, IkeSa, in-flight authentic datagram
    for it or None)."""
    def estab(w, i):
        w.establish(i, sport=0, dport=0)
        return w.peer_of(i)

    def s_established(w, i):
        r = estab(w, i)
        return [(i, w.sas(i)[0], None), (r, w.sas(r)[0], None)]

    def req_sent(kind):
        def build(w, i):
            r = estab(w, i)
            sa = w.sas(i)[0]
            if kind == 'new':
                req = w.acquire(i, sport=0, dport=0)
            elif kind == 'rekchild':
                req = w.expire(i, bytes(sa.child_sas[0].inbound_spi), False)
            elif kind == 'delchild':
                req = w.expire(i, bytes(sa.child_sas[0].inbound_spi), True)
            else:
                req = fire(w, i, sa, kind)
            # the peer's answer is authentic traffic in flight for the waiting IKE_SA
            rsa = w.sas(r)[0]
            return [(i, sa, None), (r, rsa, bytes(req))]
        return build

    def s_halfopen(w, i):
        r = w.peer_of(i)
        req = w.acquire(i, sport=0, dport=0)
        res = w.dispatch(r, req, i)               # r: INIT_RES_SENT (keys)
        rsa = w.sas(r)[0]
        auth = w.dispatch(i, res, r)              # i: AUTH_REQ_SENT (keys)
        return [(r, rsa, bytes(auth)), (i, w.sas(i)[0], None)]

    def s_rekeyed(w, i):
        r = estab(w, i)
        sa = w.sas(i)[0]
        req = fire(w, i, sa, 'rekeyike')
        res = w.dispatch(r, req, i)               # r: REKEYED + successor ESTABLISHED
        out = [(r, x, None) for x in w.sas(r)]
        dele = w.dispatch(i, res, r)              # i: DEL_AFTER_REKEY... + successor
        out += [(i, x, None) for x in w.sas(i)]
        out.append((r, w.sas(r)[0], bytes(dele)))
        return out
    def s_rekeyed_successor_gone(w, i):
        """the DELETE of the old IKE_SA after a rekey is lost, the old IKE_SAs linger on both sides - and meanwhile the SUCCESSOR has come to its end (an
        authentic DELETE exchange): whatever arrives for the old IKE_SAs now finds a table without the successor"""
        r = estab(w, i)
        sa = w.sas(i)[0]
        req = fire(w, i, sa, 'rekeyike')
        res = w.dispatch(r, req, i)
        dele = w.dispatch(i, res, r)              # (lost)
        old_i, old_r = w.sas(i)[0], w.sas(r)[0]
        succ_i = next(x for x in w.sas(i) if x is not old_i)
        m, cur = fire(w, i, succ_i, 'delike'), i
        while m is not None:
            nxt = w.peer_of(cur)
            m, cur = w.dispatch(nxt, m, cur), nxt
        if [x.state.name for x in w.sas(i)] != ['DEL_AFTER_REKEY_IKE_SA_REQ_SENT'] or [x.state.name for x in w.sas(r)] != ['REKEYED']:
            raise common.MachineryError(f'set-up "successor gone": {[x.state.name for x in w.sas(i)]} / {[x.state.name for x in w.sas(r)]}')
        return [(r, old_r, bytes(dele)), (i, old_i, None)]
    sc = [('established', s_established), ('halfopen', s_halfopen), ('rekeyed', s_rekeyed), ('rekeyed_successor_gone', s_rekeyed_successor_gone)]
    for k in ('new', 'rekchild', 'delchild', 'rekeyike', 'delike', 'dpd'):
        sc.append(('req_sent_' + k, req_sent(k)))
    return sc


# ------------------------------------------------------------------------------------------------ the forgery menu
def menu(w, e, sa, authentic, tier, rnd):
    """Concrete datagrams that are NOT protected under the keys `sa` expects (label, bytes)."""
    accepted = list(getattr(w, 'delivered', {}).get(e, []))
    peer_view = {'spi_i': sa.spi_i, 'spi_r': sa.spi_r}
    right_flag = not sa.is_initiator           # the flag the *peer* would set
    mids = sorted({max(sa.peer_msg_id - 1, 0), sa.peer_msg_id, sa.peer_msg_id + 1, sa.my_msg_id, max(sa.my_msg_id - 1, 0), 0, 2 ** 32 - 1})
    lists = {'empty': [], 'delete_ike': [{'t': W.DELETE, 'proto': 1, 'spis': []}],
             'child_req': [{'t': W.SA, 'proposals': [{'num': 1, 'proto': 3, 'spi': b'\x09\x09\x09\x09', 'transforms': [
                 {'type': 1, 'id': 12, 'keylen': 256}, {'type': 3, 'id': 12, 'keylen': None}, {'type': 5, 'id': 0, 'keylen': None}]}]},
                 {'t': W.NONCE, 'data': b'\x01' * 32}],
             'notify_err': [{'t': W.NOTIFY, 'proto': 0, 'spi': b'', 'ntype': 24, 'data': b''}],
             # payload types the parser does not know: critical (a parse error that must not be answered), non-critical (skipped: nothing is left)
             'unknown_critical': [{'t': 99, 'critical': True, 'data': b'\x01\x02'}],
             'unknown_skipped': [{'t': 99, 'data': b''}, {'t': 200, 'data': b'\x00' * 8}],
             'delete_then_critical': [{'t': W.DELETE, 'proto': 1, 'spis': []}, {'t': 47, 'critical': True, 'data': b''}]}
    for xchg, resp, flag_ok, mid, (lname, pl) in itertools.product((34, 35, 36, 37, 99), (False, True), (True, False), mids, lists.items()):
        if xchg == 34 and not resp:
            continue          # an IKE_SA_INIT request always creates a new responder IKE_SA: it is not a message for this IKE_SA
        hdr = dict(peer_view, xchg=xchg, response=resp, initiator=right_flag if flag_ok else not right_flag, mid=mid)
        yield f'clear x={xchg} resp={resp} flag_ok={flag_ok} mid={mid} {lname}', W.enc_message(hdr, pl)
    # sealed with foreign keys / with the target's own direction (reflection of what it could have sent itself)
    for mid in mids[:4]:
        for resp in (False, True):
            hdr = dict(peer_view, xchg=37, response=resp, initiator=right_flag, mid=mid)
            integ = probes.integ_id(sa.my_crypto)
            yield f'foreign-keys resp={resp} mid={mid}', W.enc_message(hdr, [], sk={'ke': b'\x5a' * len(sa.my_crypto.sk_e), 'ka': b'\xa5' * len(sa.my_crypto.sk_a),
                                                                            'integ': integ, 'iv': b'\x21' * 16, 'inner': []})
            yield f'own-direction resp={resp} mid={mid}', W.enc_message(hdr, [], sk={'ke': sa.my_crypto.sk_e, 'ka': sa.my_crypto.sk_a, 'integ': integ,
                                                                                    'iv': b'\x22' * 16, 'inner': lists['delete_ike']})
    # the endpoint's own last messages reflected back
    for data in {bytes(getattr(sa, 'last_sent_response_data', b'') or b''), bytes(sa.request.to_bytes()) if sa.request is not None else b''}:
        if data:
            yield 'reflected own message', data
    # authentic messages of the peer that this endpoint has ALREADY processed, with the header rewritten and everything behind it - ciphertext and
    # checksum - untouched (a verdict remembered for the checksum, the ciphertext or the Message ID would let them through)
    for k, prev in enumerate(reversed(accepted[-4:])):
        if len(prev) < 28 or prev[18] == 34 or prev[:16] != bytes(sa.spi_i) + bytes(sa.spi_r):
            continue
        old_mid = int.from_bytes(prev[20:24], 'big')
        for mid in mids:
            for xchg in (prev[18], 37 if prev[18] != 37 else 36):
                for flags in (prev[19], prev[19] ^ 0x20):
                    if (mid, xchg, flags) != (old_mid, prev[18], prev[19]):
                        yield (f'processed-copy #{k} mid {old_mid}->{mid} xchg {prev[18]}->{xchg} flags {prev[19]:02x}->{flags:02x}',
                               prev[:18] + bytes([xchg, flags]) + mid.to_bytes(4, 'big') + prev[24:])
    # another IKE_SA's authentic traffic re-addressed to this one (header rewritten, body sealed with the other IKE_SA's keys)
    other = wd.World.__dict__  # placeholder to keep flake quiet
    # corruption / truncation of an authentic message that is really in flight for this IKE_SA
    if authentic:
        positions = range(len(authentic)) if tier == 'thorough' else sorted(set(list(range(0, 48)) + rnd.sample(range(len(authentic)), min(40, len(authentic))) + list(range(len(authentic) - 20, len(authentic)))))
        for pos in positions:
            if pos < 0 or pos >= len(authentic):
                continue
            for bit in ((0, 7) if tier == 'quick' else range(8)):
                d = bytearray(authentic)
                d[pos] ^= 1 << bit
                if 16 <= pos < 20 and True:
                    pass
                yield f'bitflip pos={pos} bit={bit}', bytes(d)
        for cut in (range(1, len(authentic)) if tier == 'thorough' else list(range(1, 40)) + list(range(len(authentic) - 34, len(authentic)))):
            if 0 < cut < len(authentic):
                yield f'truncated to {cut}', authentic[:cut]
        for extra in (1, 16, 32):
            yield f'extended by {extra}', authentic + b'\0' * extra


def is_harmless_header_flip(label, authentic_hdr):
    return False


def attack_state(v, name, initiator, tier, rnd, stats):
    w = wd.World(seed=common.SEED, opts={'dpd': 600, 'lifetime': 5000})
    try:
        build = dict(scenarios())[name]
        targets = build(w, initiator)
        for e, sa, authentic in targets:
            if sa.peer_crypto is None:
                continue
            key = (name, 'initiator' if sa.is_initiator else 'responder', sa.state.name)
            stats['states'].add(key)
            w.now += 3.0          # so that a moved liveness timer is visible
            items = list(menu(w, e, sa, authentic, tier, rnd))
            # the same forgeries from an address that is not the peer's (an off-path sender knows the SPIs, not the address): every 5th of the menu
            items += [(label + ' [from another address]', data, 'C') for label, data in items[::5]]
            for item in items:
                label, data = item[0], item[1]
                src = item[2] if len(item) > 2 else w.peer_of(e)
                if authentic and label.startswith('bitflip'):
                    # flipping a bit of the *header* may produce a datagram for another SPI / a cleartext-looking one; whatever it
                    # becomes, it is not protected under the peer's keys any more: the oracle is the same
                    pass
                before = probes.world_snapshot(w, with_dpd=True)
                try:
                    reply = w.dispatch(e, data, src)
                except wd.Escape as ex:
                    # whether the *loop* survives an escaping protocol error is C17; here it counts as "no reply"
                    if type(ex.ex).__name__ in ('InvalidSyntax', 'UnsupportedCriticalPayload'):
                        reply = None
                    else:
                        v.violation(f'{type(ex.ex).__name__} while handling a forged datagram ({label}) in state {key}', {'label': label, 'data': data.hex()},
                                    signature={'component': 'forge:escape', 'exception': type(ex.ex).__name__})
                        continue
                after = probes.world_snapshot(w, with_dpd=True)
                stats['deliveries'] += 1
                diff = probes.diff_snapshots(before, after)
                if diff:
                    v.violation(f'{label} changed the endpoint in state {key}', {'diff': diff, 'data': data.hex()},
                                signature={'component': 'forge:state', 'family': label.split()[0], 'state': key[2], 'role': key[1]})
                    break
                if reply is not None:
                    v.violation(f'{label} was answered in state {key}', {'reply': bytes(reply).hex()[:160], 'data': data.hex()},
                                signature={'component': 'forge:reply', 'family': label.split()[0], 'state': key[2], 'role': key[1]})
                    break
    finally:
        w.close()


def run(tier, replay=None):
    v = common.Verdict('C03', tier, 'model_checking')
    if replay:
        return ikeprop.replay_file(v, replay)
    ikeprop.run(v, ['adv', 'adv_init'] if tier == 'quick' else ['adv', 'adv_init', 'adv2'], limit=3000 if tier == 'quick' else 40000)
    rnd = random.Random(common.SEED)
    stats = {'states': set(), 'deliveries': 0}
    for name, _ in scenarios():
        for initiator in 'AB':
            attack_state(v, name, initiator, tier, rnd, stats)
    v.coverage['forgery_menu'] = {'keyed_states_attacked': sorted(map(list, stats['states'])), 'n_states': len(stats['states']),
                                  'forged_deliveries': stats['deliveries'],
                                  'rule': 'per (role, state) with keys: cleartext of every exchange type x request/response x flag x Message ID around the '
                                          'window x payload list; foreign keys; own direction; reflected own messages; bit flips / truncations / '
                                          'extensions of the authentic datagram in flight; oracle: snapshot incl. liveness timer unchanged, no reply'}
    v.assumptions += ['a flipped header bit that turns the datagram into one for another SPI is still "not protected under the peer\'s keys"']
    return v.finish()
