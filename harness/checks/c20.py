"""C20 - secrets appear in the log only in verbose (debug) mode: a runtime monitor over the histories the specifications generate."""
import base64
import random
import re

import common
import ikemodel
import ikereplay
import mainloop
import world as wd


def secrets_of(w):
    """Everything the property calls a secret, as known to the harness: configured PSKs and private keys, every IKE key ring, SKEYSEED,
    CHILD_SA keys as handed to the kernel, Diffie-Hellman shared secrets."""
    out = {}
    for e, conns in w.conf.items():
        for c in conns.values():
            for side in ('my_auth', 'peer_auth'):
                a = c.get(side, {})
                if isinstance(a, dict):
                    if isinstance(a.get('psk'), str) and len(a['psk']) >= 6:
                        out[a['psk'].encode()] = 'psk'
                    if isinstance(a.get('privkey'), str):
                        body = ''.join(l for l in a['privkey'].splitlines() if not l.startswith('-----'))
                        out[base64.b64decode(body)[40:72]] = 'private key (DER excerpt)'
                        out[body[100:160].encode()] = 'private key (PEM excerpt)'
    for sa in wd.REGISTRY:
        if sa.ike_sa_keyring is not None:
            for name, k in zip(sa.ike_sa_keyring._fields, sa.ike_sa_keyring):
                if k:
                    out[bytes(k)] = name
    for obj, pub, secret in w.dh_secrets:
        out[bytes(secret)] = 'dh shared secret'
    dh = {bytes(s) for _, _, s in w.dh_secrets}
    for hname, key, data, res in w.prf_log:
        if data in dh or any(data.startswith(s) for s in dh):
            out[bytes(res)] = 'SKEYSEED'
    for e in w.kernel:
        for r in w.kernel[e].requests:
            for a in r.get('attrs', []) or []:
                if a.get('key'):
                    out[bytes(a['key'])] = 'child sa key'
    return {k: v for k, v in out.items() if len(k) >= 8}


def forms(secret):
    yield secret.hex()
    yield base64.b64encode(secret).decode().rstrip('=')
    try:
        yield secret.decode('ascii') if all(32 <= c < 127 for c in secret) else repr(secret)[2:-1]
    except Exception:
        pass


def scan(w, records):
    """Returns [(kind of secret, record text)] for INFO+ records (and tracebacks printed to stderr) containing a secret."""
    secs = secrets_of(w)
    hits = []
    texts = [t for _, t, _, _ in records] + list(w.internal_errors)
    blob = '\n'.join(texts)
    low = blob.lower()
    for s, kind in secs.items():
        for f in forms(s):
            if len(f) >= 12 and (f in blob or f.lower() in low):
                rec = next((t for t in texts if f in t or f.lower() in t.lower()), '')
                hits.append((kind, rec[:300]))
                break
    return hits, len(secs), len(texts)


def failure_scenarios():
    """Histories with error replies, authentication failures and internal-error paths."""
    def wrong_psk(w):
        pass
    sc = []
    sc.append(('wrong psk', dict(conf_edit=lambda c: c['B']['B-A']['peer_auth'].__setitem__('psk', 'not-the-right-psk-1'))))
    # near misses: the secret one side holds for the other is the right one with a blank / line end at either end, one octet more or less, another letter case
    # (what a diagnostic that tries to be helpful would look at - and quote)
    for label, f in (('trailing newline', lambda k: k + '\n'), ('leading blank', lambda k: ' ' + k), ('one octet more', lambda k: k + 'x'), ('one octet less', lambda k: k[:-1]),
                     ('other case', lambda k: k.upper())):
        sc.append((f'near-miss psk at the responder ({label})', dict(conf_edit=lambda c, f=f: c['B']['B-A']['peer_auth'].__setitem__('psk', f(c['A']['A-B']['my_auth']['psk'])))))
        sc.append((f'near-miss psk at the initiator ({label})', dict(conf_edit=lambda c, f=f: c['A']['A-B']['peer_auth'].__setitem__('psk', f(c['B']['B-A']['my_auth']['psk'])))))
    sc.append(('wrong peer id', dict(conf_edit=lambda c: c['B']['B-A']['peer_auth'].__setitem__('id', 'mallory@example.org'))))
    # identities are text that the PEER chooses: text that looks like a format template / a conversion must stay text when it is reported
    sc.append(('hostile initiator identity', dict(conf_edit=lambda c: c['A']['A-B']['my_auth'].__setitem__('id', '{0.my_auth.psk}@{0.peer_auth.psk}'))))
    sc.append(('hostile responder identity', dict(conf_edit=lambda c: c['B']['B-A']['my_auth'].__setitem__('id', '{0.peer_auth.psk}.%(psk)s.{self.configuration}.example'))))
    sc.append(('psk vs rsa', dict(opts_by_ep={'A': {'auth': 'rsa'}, 'B': {'auth': 'psk'}})))
    sc.append(('rsa', dict(opts={'auth': 'rsa'})))
    sc.append(('no ike proposal', dict(opts_by_ep={'A': {'ike_encr': ['aes128']}, 'B': {'ike_encr': ['aes256']}})))
    sc.append(('no child proposal', dict(opts_by_ep={'A': {'child_integ': ['sha1']}, 'B': {'child_integ': ['sha512']}})))
    sc.append(('ts unacceptable', dict(opts_by_ep={'A': {'mode': 'tunnel'}, 'B': {'mode': 'transport'}})))
    sc.append(('ts subnet mismatch', dict(opts_by_ep={'A': {'mode': 'tunnel', 'my_subnet': '10.5.1.0/24', 'peer_subnet': '10.5.2.0/24'}, 'B': {'mode': 'tunnel', 'my_subnet': '10.6.2.0/24', 'peer_subnet': '10.6.1.0/24'}})))
    sc.append(('ts port mismatch', dict(opts_by_ep={'A': {'peer_port': 80}, 'B': {'my_port': 443}})))
    sc.append(('ts protocol mismatch', dict(opts_by_ep={'A': {'ip_proto': 'tcp'}, 'B': {'ip_proto': 'udp'}})))
    sc.append(('invalid ke', dict(opts_by_ep={'A': {'ike_dh': ['ecp256', 'ecp384'], 'child_dh': ['ecp256', 'ecp384']}, 'B': {'ike_dh': ['ecp384', 'ecp256'], 'child_dh': ['ecp384', 'ecp256']}})))
    sc.append(('kernel refusal', dict(refuse=True)))
    sc.append(('kernel refusal at the initiator', dict(refuse='A')))
    sc.append(('kernel refusal of a delete', dict(refuse='A', refuse_kind='DELSA')))
    sc.append(('plain', dict()))
    sc.append(('damaged copies before every protected datagram', dict(corrupt=4)))
    sc.append(('damaged copies before every protected datagram, follow-ups by the responder', dict(corrupt=3, starter='B')))
    # the two peers list the same algorithms in opposite preference orders and the ORIGINAL RESPONDER starts the follow-up exchanges: an IKE_SA rekey then
    # changes the negotiated PRF / integrity / key length (each responder follows its own order) - whatever is said about the old and the new keys stays at DEBUG
    orders = {'A': {'ike_prf': ['sha256', 'sha512', 'sha1'], 'ike_integ': ['sha1', 'sha512'], 'ike_encr': ['aes128', 'aes256'], 'child_encr': ['aes256', 'aes128'], 'child_integ': ['sha512', 'sha1']},
              'B': {'ike_prf': ['sha1', 'sha512', 'sha256'], 'ike_integ': ['sha512', 'sha1'], 'ike_encr': ['aes256', 'aes128'], 'child_encr': ['aes128', 'aes256'], 'child_integ': ['sha1', 'sha512']}}
    sc.append(('opposite preference orders, follow-ups by the responder', dict(opts_by_ep=orders, starter='B')))
    sc.append(('opposite preference orders, follow-ups by the initiator', dict(opts_by_ep=orders)))
    return sc


def run_failure(name, spec, seed, keep_debug=False):
    import fakekernel
    conf = None
    kw = {k: v for k, v in spec.items() if k in ('opts', 'opts_by_ep')}
    w = wd.World(seed=seed, record_prf=True, keep_debug=keep_debug, start='conf_edit' not in spec, **kw)
    if 'conf_edit' in spec:
        spec['conf_edit'](w.conf)
        for e in w.endpoints:
            w.start(e)
    if spec.get('refuse'):
        rk = spec.get('refuse_kind', 'NEWSA')
        w.kernel[spec['refuse'] if spec['refuse'] in ('A', 'B') else 'B'].refuse = lambda idx, req: 17 if req['kind'] == rk else 0
    try:
        log = w.establish('A')
        # a few follow-up exchanges where possible: new child, rekeys, delete
        st = spec.get('starter', 'A')          # who starts the follow-up exchanges: the original initiator, or the original responder
        for trig in ('acquire', 'rekey', 'rekeyike', 'delete'):
            a = [s for s in w.sas(st) if s.state.name == 'ESTABLISHED']
            if not a:
                break
            sa = a[0]
            if trig == 'acquire':
                m = w.acquire(st, sport=0, dport=0)
            elif trig == 'rekey' and sa.child_sas:
                m = w.expire(st, bytes(sa.child_sas[0].inbound_spi), False)
            elif trig == 'rekeyike':
                sa.rekey_ike_sa_at = w.now - 1
                m = w.timer(st, sa, 'check_rekey_ike_sa_timer')
            elif trig == 'delete' and sa.child_sas:
                m = w.expire(st, bytes(sa.child_sas[0].inbound_spi), True)
            else:
                continue
            cur = st
            hops = 0
            while m is not None and hops < 8:
                nxt = w.peer_of(cur)
                for i in range(spec.get('corrupt', 0)):
                    # damaged copies of the protected datagram arrive first, several in a row (line noise, or somebody guessing): each fails the integrity
                    # check - what is said about that, also the second and third time, says nothing about the keys
                    d = bytearray(bytes(m))
                    if i % 3 == 2:
                        d = d[:-5]
                    else:
                        d[-1 - i] ^= 0x40
                    w.dispatch(nxt, bytes(d), cur)
                m = w.dispatch(nxt, m, cur)
                cur = nxt
                hops += 1
    except wd.Escape:
        pass
    finally:
        w.close()
    return w


def cli_logging(v):
    """pyikev2.py (the command line entry point) decides what 'the default log level' is: its top-level code is executed in-process (run_path) with a
    configuration file, once without and once with --verbose; main_loop and netlink are stubbed.  Without --verbose records below INFO must not
    reach the log stream; with it they do (that is where key material goes, as the help text of the option says)."""
    import io
    import logging
    import os
    import runpy
    import signal
    import sys
    import tempfile
    import yaml
    import ikesacontroller
    import xfrm
    conf = {'c': wd.connection_dict('A', 'B')}
    tmp = tempfile.mkdtemp(prefix='verif-cli-')
    path = os.path.join(tmp, 'conf.yaml')
    yaml.safe_dump(conf, open(path, 'w'))
    root = logging.getLogger()
    saved = (list(root.handlers), root.level, sys.argv, sys.stderr, ikesacontroller.IkeSaController.main_loop, xfrm.Xfrm.__dict__.get('send_recv'), signal.getsignal(signal.SIGINT),
             getattr(logging, 'indent', None))
    results = {}
    try:
        for verbose in (False, True):
            for h in list(root.handlers):
                root.removeHandler(h)
            root.setLevel(logging.WARNING)                 # the interpreter's default, as in a fresh process
            stream = io.StringIO()
            sys.stderr = stream
            sys.argv = ['pyikev2.py', '-c', path, '-i', wd.addr_of('A')] + (['--verbose'] if verbose else [])
            ikesacontroller.IkeSaController.main_loop = lambda self: None
            xfrm.Xfrm.send_recv = classmethod(lambda cls, *a, **k: None)
            try:
                runpy.run_path(os.path.join(common.REPO, 'pyikev2.py'), run_name='__main__')
            except SystemExit as ex:
                raise common.MachineryError(f'pyikev2.py exited ({ex.code}) with a valid configuration: {stream.getvalue()[-300:]}')
            logging.debug('VERIF-DEBUG-MARKER')
            logging.info('VERIF-INFO-MARKER')
            text = stream.getvalue()
            results[verbose] = ('VERIF-DEBUG-MARKER' in text, 'VERIF-INFO-MARKER' in text, logging.getLevelName(root.getEffectiveLevel()))
    finally:
        for h in list(root.handlers):
            root.removeHandler(h)
        for h in saved[0]:
            root.addHandler(h)
        root.setLevel(saved[1])
        sys.argv, sys.stderr = saved[2], saved[3]
        ikesacontroller.IkeSaController.main_loop = saved[4]
        if saved[5] is not None:
            xfrm.Xfrm.send_recv = saved[5]
        elif 'send_recv' in xfrm.Xfrm.__dict__:
            del xfrm.Xfrm.send_recv
        signal.signal(signal.SIGINT, saved[6])
        logging.indent = saved[7]
        import shutil
        shutil.rmtree(tmp, ignore_errors=True)
    if results[False][0] or not results[False][1]:
        v.violation(f'pyikev2.py without --verbose: records below INFO reach the log / INFO does not (debug shown={results[False][0]}, info shown={results[False][1]}, '
                    f'effective level {results[False][2]}) - key material is logged at DEBUG by design', {'results': str(results)}, signature={'component': 'cli:default-level'})
    if not results[True][0]:
        v.violation('pyikev2.py --verbose does not enable DEBUG records', {'results': str(results)}, signature={'component': 'cli:verbose'})
    return {('verbose' if k else 'default'): {'debug_records_shown': r[0], 'info_records_shown': r[1], 'effective_level': r[2]} for k, r in results.items()}


def cli_odd_secrets(v):
    """Secrets that LOOK like another notation (a hexadecimal / binary / octal literal with a slip in it, a float, a base64 blob, a YAML tag): pyikev2.py is
    started without --verbose on a file that holds such a PSK.  Whether the loader takes the secret as text or rejects the file is C19's business - what is
    written to the log (the default level, on stderr) in either case must not contain the secret, in any of the tracked forms."""
    import io, logging, os, runpy, shutil, signal, sys, tempfile
    import yaml
    import ikesacontroller
    import xfrm
    odd = ['0xC0FFEE-and-b1scuits', '0Xdeadbeefg', '0x', '0b1011-secret2', '0o777-secret8', '1e400-secret', 'c2VjcmV0LWJhc2U2NA=', '!!binary not-base64', '{0}-{psk}-%(psk)s', '0x 12 34']
    root = logging.getLogger()
    saved = (list(root.handlers), root.level, sys.argv, sys.stderr, ikesacontroller.IkeSaController.main_loop, xfrm.Xfrm.__dict__.get('send_recv'), signal.getsignal(signal.SIGINT),
             getattr(logging, 'indent', None))
    tmp = tempfile.mkdtemp(prefix='verif-cli-')
    out = {'accepted': 0, 'rejected': 0}
    try:
        for k, secret in enumerate(odd):
            for where in ('my_auth', 'peer_auth'):
                c = wd.connection_dict('A', 'B')
                c[where]['psk'] = secret
                path = os.path.join(tmp, f'conf{k}{where}.yaml')
                yaml.safe_dump({'c': c}, open(path, 'w'))
                for h in list(root.handlers):
                    root.removeHandler(h)
                root.setLevel(logging.WARNING)
                stream = io.StringIO()
                sys.stderr = stream
                sys.argv = ['pyikev2.py', '-c', path, '-i', wd.addr_of('A')]
                ikesacontroller.IkeSaController.main_loop = lambda self: None
                xfrm.Xfrm.send_recv = classmethod(lambda cls, *a, **kw: None)
                try:
                    runpy.run_path(os.path.join(common.REPO, 'pyikev2.py'), run_name='__main__')
                    out['accepted'] += 1
                except SystemExit:
                    out['rejected'] += 1
                except Exception as ex:                      # (what the interpreter would print for an uncaught exception)
                    import traceback
                    stream.write(''.join(traceback.format_exception(type(ex), ex, ex.__traceback__)))
                text = stream.getvalue()
                hit = next((f for f in forms(secret.encode()) if f and f in text), None) if len(secret) >= 4 else None
                if hit is not None:
                    line = next(l for l in text.splitlines() if hit in l)
                    v.violation(f'pyikev2.py (default log level) started on a configuration whose {where} PSK is {secret!r}: the log contains the secret: {line[:160]!r}',
                                {'secret_shape': secret, 'where': where}, signature={'component': 'cli:odd-secret', 'where': where})
    finally:
        for h in list(root.handlers):
            root.removeHandler(h)
        for h in saved[0]:
            root.addHandler(h)
        root.setLevel(saved[1])
        sys.argv, sys.stderr = saved[2], saved[3]
        ikesacontroller.IkeSaController.main_loop = saved[4]
        if saved[5] is not None:
            xfrm.Xfrm.send_recv = saved[5]
        elif 'send_recv' in xfrm.Xfrm.__dict__:
            del xfrm.Xfrm.send_recv
        signal.signal(signal.SIGINT, saved[6])
        logging.indent = saved[7]
        shutil.rmtree(tmp, ignore_errors=True)
    return out


def log_sites():
    """Every statement of the implementation that logs at INFO level or above: (file, first line, last line, level)."""
    import ast
    import glob
    import os
    out = []
    for path in sorted(glob.glob(os.path.join(common.REPO, '*.py'))):
        name = os.path.basename(path)
        if name.startswith('test_') or name in ('setup.py',):
            continue
        tree = ast.parse(open(path).read())
        for node in ast.walk(tree):
            if isinstance(node, ast.Call) and isinstance(node.func, ast.Attribute):
                a = node.func.attr
                base = node.func.value
                if (isinstance(base, ast.Name) and base.id == 'logging' and a in ('info', 'warning', 'error', 'critical', 'exception')) or \
                        (a in ('log_info', 'log_warning', 'log_error') and isinstance(base, ast.Name) and base.id == 'self'):
                    out.append((name, node.lineno, node.end_lineno, a.replace('log_', '')))
    return out


def run(tier, replay=None):
    v = common.Verdict('C20', tier, 'exploration')
    rnd = random.Random(common.SEED)
    n_hist = n_records = n_secrets = 0
    kinds = {}
    samples = []

    def judge(w, origin):
        nonlocal n_hist, n_records, n_secrets
        hits, ns, nt = scan(w, w.log_info)
        n_hist += 1
        n_records += nt
        n_secrets += ns
        for kind, rec in hits:
            v.violation(f'{origin}: a log record at INFO level or above contains the {kind}', {'record': rec}, signature={'component': 'leak', 'secret': kind})
    # (1) histories generated from the protocol specification (all transitions of small scenarios incl. the adversary and the retries)
    for sc in (('init', 'adv_init', 'init_cookie', 'estab') if tier == 'quick' else ('init', 'adv_init', 'adv', 'init_ke', 'init_cookie', 'estab_pfs', 'estab_rekey_ke')):
        g = ikemodel.dump_graph(sc)
        paths = g.behaviours()
        cap = (250 if sc in ('init', 'adv_init') else 120) if tier == 'quick' else 4000
        if len(paths) > cap:
            paths = rnd.sample(paths, cap)
        for p in paths:
            steps = [(g.edges[i][1], g.edges[i][2], g.states[g.edges[i][3]]) for i in p]
            wd_prf = wd.World.__init__.__defaults__
            done, mm, w = replay_with_prf(g.sc, steps)
            judge(w, f'Ike.tla scenario {sc}')
            kinds[sc] = kinds.get(sc, 0) + 1
    # (2) failure paths: wrong credentials / identities / methods, refusals, kernel errors
    for name, spec in failure_scenarios():
        for seed in range(2 if tier == 'quick' else 10):
            w = run_failure(name, spec, common.SEED + seed)
            judge(w, f'failure scenario "{name}"')
            kinds[name] = kinds.get(name, 0) + 1
            if len(samples) < 2 and name in ('wrong psk', 'kernel refusal'):
                samples.append({'scenario': name, 'records': [t for _, t, _, _ in w.log_info][-6:]})
    # (3) hostile input through the real main_loop (warnings / errors of the containment paths)
    for i in range(20 if tier == 'quick' else 300):
        seq = ['legit'] + rnd.sample(list(mainloop.KINDS), 3) + ['legit'] + rnd.sample(list(mainloop.KINDS), 2) + ['legit', 'legit']
        loop, ex = mainloop.run_behaviour(seq, common.SEED + i, rnd)
        loop.w.record_prf = True
        judge(loop.w, 'hostile input through main_loop')
        kinds['main_loop'] = kinds.get('main_loop', 0) + 1
    # positive control: the detector sees the material when the same history runs at DEBUG
    w = run_failure('plain', {}, common.SEED, keep_debug=True)
    dbg_hits, ns, _ = scan(w, [(10, t, None, 0) for t in w.log_debug] + list(w.log_info))
    if len(dbg_hits) < 5:
        raise common.MachineryError(f'positive control failed: only {len(dbg_hits)} of {ns} secrets visible in a verbose (DEBUG) run - the detector does not see the material')
    v.coverage['command_line_log_level'] = cli_logging(v)
    v.coverage['command_line_odd_secrets'] = cli_odd_secrets(v)
    # which of the INFO+ logging statements of the implementation did these histories execute?  (a monitor only sees what runs)
    sites = log_sites()
    hit = [(f, a, b, lvl) for f, a, b, lvl in sites if any(ff == f and a <= ln <= b for ff, ln in wd.LOG_SITES)]
    missed = [f'{f}:{a} ({lvl})' for f, a, b, lvl in sites if (f, a, b, lvl) not in hit]
    v.coverage['log_statements'] = {'info_or_above_in_source': len(sites), 'executed_by_the_histories': len(hit), 'not_executed': missed}
    v.coverage.update({'evaluations': n_hist, 'distinct_nontrivial': n_hist, 'records_scanned': n_records, 'secrets_tracked_total': n_secrets, 'histories_by_origin': kinds,
                       'positive_control_debug_hits': len(dbg_hits),
                       'rule': 'histories: every transition of Ike.tla scenarios (handshakes with COOKIE / INVALID_KE retries, adversary injections), failure scenarios '
                               '(wrong PSK / identity / method, RSA, no proposal, TS_UNACCEPTABLE, INVALID_KE, kernel refusal) with follow-up exchanges, hostile input through '
                               'main_loop; every record with level >= INFO and every traceback printed to stderr is searched for every secret (raw, hex, base64, repr); '
                               'each history is a distinct execution', 'samples': samples or [{'note': 'no INFO records sampled'}]})
    v.assumptions += ['secrets known to the harness: configured PSKs / private keys, IKE key rings, SKEYSEED (prf over the DH secret), CHILD_SA keys seen by the kernel model, DH secrets']
    return v.finish()


def replay_with_prf(sc, steps):
    orig = ikereplay.IkeWorld.__init__

    def init(self, sc_, seed=0, **kw):
        kw['record_prf'] = True
        orig(self, sc_, seed=seed, **kw)
    ikereplay.IkeWorld.__init__ = init
    try:
        return ikereplay.replay_behaviour(sc, steps)
    finally:
        ikereplay.IkeWorld.__init__ = orig
