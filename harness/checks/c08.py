"""C08 - Message-ID window: a request runs at most once, replays come from cache."""
import random

import common
import probes
import wire_ref as W
import world as wd
from checks import ikeprop


DPD_SENTINEL = -12345.0


def replay_storm(v, seeds, depth):
    """Beyond the bounded model: along seeded random schedules, EVERY datagram that was already delivered once is delivered
    again after every step.  Oracle (from the property statement): nothing changes; the answer is the byte-identical stored
    response iff the copy is the immediately preceding request, otherwise there is no answer."""
    n_redeliveries = n_cached = n_future = 0
    sample = None
    for seed in seeds:
        w = wd.World(seed=seed, opts={'child_dh': ['ecp256'] if seed % 3 == 0 else []})
        import ikereplay
        ikereplay.install_observers()
        w.handler_runs, w.routed, w.exec_count = [], [], {}
        s = probes.Scheduler(w, seed, p_dup=0.1, p_loss=0.05)
        try:
            for step in range(depth):
                s.step()
                for dst, src, data in list({(d, r, x) for d, r, x in s.delivered}):
                    h = W.dec_header(data)
                    if h['xchg'] == W.IKE_SA_INIT:
                        continue            # every IKE_SA_INIT request creates a fresh responder (ID 0 is reused by retries)
                    my = h['spi_r'] if h['initiator'] else h['spi_i']
                    sa = next((x for x in w.ctl[dst].ike_sas if bytes(x.my_spi) == my), None)
                    before = probes.world_snapshot(w)
                    cached = bytes(getattr(sa, 'last_sent_response_data', b'') or b'') if sa is not None else None
                    expect_cached = sa is not None and not h['response'] and h['mid'] == sa.peer_msg_id - 1
                    runs0 = dict(getattr(w, 'exec_count', {}))
                    # "dropped without effect" includes the liveness timer: a copy of an old message proves nothing fresh about the peer (RFC 7296 2.4).  The
                    # timer is parked on a sentinel for the delivery and put back afterwards, so that the schedule itself is not disturbed
                    saved_dpd = getattr(sa, 'start_dpd_at', None) if sa is not None else None
                    if saved_dpd is not None:
                        sa.start_dpd_at = DPD_SENTINEL
                    reply = w.dispatch(dst, data, src)
                    dpd_moved = saved_dpd is not None and sa.start_dpd_at != DPD_SENTINEL
                    if saved_dpd is not None and not dpd_moved:
                        sa.start_dpd_at = saved_dpd
                    after = probes.world_snapshot(w)
                    n_redeliveries += 1
                    diff = probes.diff_snapshots(before, after)
                    if dpd_moved and not expect_cached and not diff:
                        diff = [f'{dst}.sas[{my.hex()}].start_dpd_at: the liveness timer was restarted']
                    if diff:
                        v.violation('a copy of an already processed datagram changed the endpoint', {'seed': seed, 'step': step, 'diff': diff,
                                    'datagram': {'xchg': h['xchg'], 'response': h['response'], 'mid': h['mid']}},
                                    signature={'component': 'storm:state', 'xchg': h['xchg'], 'response': h['response']})
                        raise StopIteration
                    if expect_cached:
                        n_cached += 1
                        if reply is None or bytes(reply) != cached:
                            v.violation('a copy of the preceding request was not answered with the byte-identical stored response',
                                        {'seed': seed, 'step': step, 'reply': reply and bytes(reply).hex(), 'stored': cached.hex()},
                                        signature={'component': 'storm:cached'})
                            raise StopIteration
                    elif reply is not None:
                        v.violation('an old datagram outside the window was answered', {'seed': seed, 'step': step, 'mid': h['mid'],
                                    'reply': bytes(reply).hex()[:120]}, signature={'component': 'storm:answered'})
                        raise StopIteration
                # authentic requests with an ID beyond the window (built with the sender's keys): must be dropped
                for e in 'AB':
                    for sa in w.sas(e):
                        peer = probes.peer_sa_of(w, sa)
                        if peer is None or sa.my_crypto is None or sa.state.name in ('INIT_REQ_SENT', 'AUTH_REQ_SENT', 'INITIAL', 'INIT_RES_SENT'):
                            continue
                        for delta in (1, 5):
                            data = probes.seal(sa, W.INFORMATIONAL, False, peer.peer_msg_id + delta, [])
                            before = probes.world_snapshot(w)
                            saved_dpd, peer.start_dpd_at = peer.start_dpd_at, DPD_SENTINEL
                            reply = w.dispatch(w.peer_of(e), data, e)
                            n_future += 1
                            dpd_moved = peer.start_dpd_at != DPD_SENTINEL
                            if not dpd_moved:
                                peer.start_dpd_at = saved_dpd
                            diff = probes.diff_snapshots(before, probes.world_snapshot(w))
                            if dpd_moved and not diff:
                                diff = ['start_dpd_at: the liveness timer was restarted']
                            if diff or reply is not None:
                                v.violation('an authentic request whose Message ID is not the next expected one had an effect',
                                            {'seed': seed, 'step': step, 'delta': delta, 'diff': diff, 'answered': reply is not None},
                                            signature={'component': 'storm:future'})
                                raise StopIteration
            if sample is None:
                sample = {'seed': seed, 'schedule': s.log[:40], 'datagrams_ever': len(s.history)}
        except StopIteration:
            pass
        except wd.Escape as ex:
            pass          # escapes are C09's / C17's business
        finally:
            w.close()
    v.coverage['replay_storm'] = {'schedules': len(seeds), 'depth': depth, 'redeliveries': n_redeliveries,
                                  'cached_answers_checked': n_cached, 'future_id_probes': n_future, 'sample': sample}


def run(tier, replay=None):
    v = common.Verdict('C08', tier, 'model_checking')
    if replay:
        return ikeprop.replay_file(v, replay)
    scen = ['estab', 'init_cookie', 'estab_rekey_ke', 'estab_pfs'] if tier == 'quick' else ['estab_loss', 'estab3', 'init_ke', 'init_cookie', 'estab_pfs', 'estab_rekey_ke', 'init3']
    # the role of an IKE_SA (who started the exchange that created it - also for an IKE_SA created by a rekey) decides the Initiator flag and the SPI
    # positions of every header it emits: a role that differs from the specification's is this property's
    ikeprop.run(v, scen, limit=3000 if tier == 'quick' else None, extra_owned=('sa.init',))
    rnd = random.Random(common.SEED)
    replay_storm(v, [rnd.randrange(1 << 30) for _ in range(12 if tier == 'quick' else 150)], 40 if tier == 'quick' else 70)
    ikeprop.run_traces(v, 24 if tier == 'quick' else 400, 60 if tier == 'quick' else 120)     # binding B: Message IDs of recorded random schedules
    v.assumptions += ['authentic traffic only (forgeries are C03); two endpoints; budgets per scenario']
    return v.finish()
