"""C19 - configuration is loaded faithfully or rejected cleanly (spec/Config.tla vectors)."""
import copy
import ipaddress
import json
import os
import random
import shutil
import socket as _socket
import tempfile

import common
import world as wd      # (imports the repository modules and silences nothing else)

LISTEN = [ipaddress.ip_address('192.168.0.1')]


def vectors():
    tmp = tempfile.mkdtemp(prefix='verif-cfg-')
    try:
        out = os.path.join(tmp, 'v.json')
        cfg = os.path.join(tmp, 'c.cfg')
        open(cfg, 'w').write(f'INIT Init\nNEXT Next\nCONSTANTS\n OutFile = "{out}"\n')
        res = common.run_tlc('Config.tla', cfg=cfg, workers=1, timeout=600)
        if not res.ok:
            raise common.MachineryError(f'TLC on Config.tla: {res.error}\n{res.out[-2500:]}')
        return json.load(open(out))
    finally:
        shutil.rmtree(tmp, ignore_errors=True)


# a well-formed PEM SubjectPublicKeyInfo whose algorithm identifier (1.2.3.4) no library knows: not a key the daemon can use
PEM_UNKNOWN_ALGORITHM = '-----BEGIN PUBLIC KEY-----\nMA8wBwYDKgMEBQADBAABAgM=\n-----END PUBLIC KEY-----\n'


def to_py(v, pems):
    k = v['k']
    if k == 'str':
        return {'PEM-PRIVATE': pems['A']['priv'], 'PEM-PUBLIC': pems['B']['pub'], 'PEM-UNKNOWN-ALGORITHM': PEM_UNKNOWN_ALGORITHM}.get(v['v'], v['v'])
    if k == 'int':
        return v['v']
    if k == 'neg':
        return -v['v']
    if k == 'bool':
        return v['v']
    if k == 'null':
        return None
    if k == 'float':
        return float(v['v'])
    if k == 'list':
        return [to_py(x, pems) for x in v['v']]
    if k == 'map':
        items = v['v'].items() if isinstance(v['v'], dict) else []
        return {name: to_py(x, pems) for name, x in items if x.get('k') != 'absent'}
    raise common.MachineryError(f'unknown tag {k}')


class SocketShim:
    gaierror = _socket.gaierror

    def __getattr__(self, n):
        return getattr(_socket, n)

    @staticmethod
    def getaddrinfo(host, port, *a, **k):
        if not isinstance(host, (str, bytes, type(None))):
            raise TypeError('getaddrinfo() argument 1 must be string or None')
        if host == 'alice.example':
            return [(2, 1, 6, '', ('192.168.0.1', 0))]
        try:
            ipaddress.ip_address(host)
        except ValueError:
            raise _socket.gaierror(-2, 'Name or service not known')
        return [(2, 1, 6, '', (host, 0))]


def normal_form(cfg):
    """What was loaded, in the vocabulary of Config.tla."""
    out = []
    for (my, peer), c in cfg.ike_configurations.items():
        def auth(a):
            t = int(a.id.id_type)
            data = bytes(a.id.id_data)
            text = str(ipaddress.ip_address(data)) if t in (1, 5) else data.decode()
            return {'id_type': t, 'id': text, 'psk': a.psk.decode() if a.psk is not None else '', 'privkey': a.privkey is not None, 'pubkey': a.pubkey is not None}

        def trs(prop, ty):
            return [[int(t.id), t.keylen] if ty == 1 else int(t.id) for t in prop.transforms if int(t.type) == ty]
        protect = []
        for p in c.protect:
            protect.append({'proto': int(p.proposal.protocol_id), 'encr': trs(p.proposal, 1), 'integ': trs(p.proposal, 3), 'dh': trs(p.proposal, 4), 'esn': trs(p.proposal, 5),
                            'ip_proto': int(p.my_ts.ip_proto), 'my_net': str(p.my_ts.get_network()), 'peer_net': str(p.peer_ts.get_network()),
                            'my_port': p.my_ts.get_port(), 'peer_port': p.peer_ts.get_port(), 'lifetime': p.lifetime, 'mode': p.mode.name.lower(), 'index': p.index,
                            'proto_consistent': int(p.my_ts.ip_proto) == int(p.peer_ts.ip_proto), 'n_transforms': len(p.proposal.transforms)})
        out.append({'key': [str(my), str(peer)], 'my_addr': str(c.my_addr), 'peer_addr': str(c.peer_addr), 'my_auth': auth(c.my_auth), 'peer_auth': auth(c.peer_auth),
                    'encr': trs(c.proposal, 1), 'integ': trs(c.proposal, 3), 'prf': trs(c.proposal, 2), 'dh': trs(c.proposal, 4), 'lifetime': c.lifetime, 'dpd': c.dpd,
                    'n_transforms': len(c.proposal.transforms), 'protocol': int(c.proposal.protocol_id), 'protect': protect})
    return out


def spec_form(n):
    out = []
    for c in (n.values() if isinstance(n, dict) else n):
        protect = []
        for p in c['protect']:
            q = dict(p)
            q['my_net'], q['peer_net'] = str(ipaddress.ip_network(p['my_net'])), str(ipaddress.ip_network(p['peer_net']))
            q['proto_consistent'] = True
            q['n_transforms'] = len(p['encr']) + len(p['integ']) + len(p['dh']) + len(p['esn'])
            protect.append(q)
        d = dict(c, protect=protect, key=[c['my_addr'], c['peer_addr']], protocol=1, n_transforms=len(c['encr']) + len(c['integ']) + len(c['prf']) + len(c['dh']))
        out.append(d)
    return out


def same(got, want):
    got = sorted(got, key=lambda c: c['key'])
    want = sorted(want, key=lambda c: c['key'])
    if len(got) != len(want):
        return f'{len(got)} connections loaded, {len(want)} expected'
    for g, w in zip(got, want):
        for k in w:
            if k == 'protect':
                if len(g['protect']) != len(w['protect']):
                    return 'number of protect entries'
                for gp, wp in zip(g['protect'], w['protect']):
                    for f in wp:
                        if f == 'index' and wp[f] == 'random':
                            if not isinstance(gp[f], int):
                                return 'random index is not an integer'
                            continue
                        if gp[f] != wp[f]:
                            return f'protect.{f}: loaded {gp[f]!r}, given {wp[f]!r}'
            elif g[k] != w[k]:
                return f'{k}: loaded {g[k]!r}, given {w[k]!r}'
    return None


def load(top):
    import configuration
    try:
        cfg = configuration.Configuration(LISTEN, top)
        return 'ok', cfg
    except configuration.ConfigurationError as ex:
        return 'err', ex
    except BaseException as ex:       # noqa: B902
        return 'other', ex


def run(tier, replay=None):
    v = common.Verdict('C19', tier, 'exploration')
    import configuration
    configuration.socket = SocketShim()
    pems = wd.rsa_pems()
    vec = vectors()
    rnd = random.Random(common.SEED)
    n = {'singles': 0, 'pairs': 0}
    outcomes = {}
    distinct = set()
    samples = []
    for c in vec['cases']:
        top = to_py(c['top'], pems)
        given = copy.deepcopy(top)
        kind, val = load(given)
        want = c['out']['c']
        n['singles'] += 1
        # Load is a function of the dictionary: the same objects presented again after an edit (a reload; a YAML alias shared by two connections) mean
        # what a fresh copy means.  (Writing into the given dictionary is not judged by itself, only what a later load makes of it.)
        if kind == 'ok' and want == 'ok':
            n['purity'] = n.get('purity', 0) + 1
            if isinstance(top, dict) and all(isinstance(x, dict) and isinstance(x.get('peer_addr'), str) for x in top.values()):
                for obj in (given, top):
                    for x in obj.values():
                        x['peer_addr'] = '10.9.9.9' if x['peer_addr'] != '10.9.9.9' else '192.168.0.2'
                k1, v1 = load(given)                      # the objects that were loaded before, edited
                k2, v2 = load(copy.deepcopy(top))         # a fresh copy with the same edit
                diff = None
                if k1 == k2 == 'ok':
                    fresh = normal_form(v2)
                    for conn, spec_conn in zip(sorted(fresh, key=lambda x: x['key']), sorted(spec_form(c['out']['n']), key=lambda x: x['key'])):
                        for gp, wp in zip(conn['protect'], spec_conn['protect']):
                            if wp.get('index') == 'random':
                                gp['index'] = 'random'           # drawn anew by every load
                    diff = same(normal_form(v1), fresh)
                if k1 != k2 or diff:
                    v.violation(f"{c['level']}.{c['key']}: reloading the same dictionary after editing peer_addr differs from loading a fresh copy: "
                                f"{diff if k1 == k2 == 'ok' else (k1, k2)}", {'case': c['val']},
                                signature={'component': 'reload', 'level': c['level']})
                top = to_py(c['top'], pems)
        outcomes[(want, kind)] = outcomes.get((want, kind), 0) + 1
        distinct.add(json.dumps([c['level'], c['key'], c['val']], sort_keys=True))
        what = f"{c['level']}.{c['key']} = {json.dumps(c['val'])[:80]}"
        if kind == 'other':
            v.violation(f'{what}: loading fails with {type(val).__name__}: {val}', {'case': c['val']}, signature={'component': 'escape', 'exception': type(val).__name__, 'key': c['key']})
        elif want == 'ok' and kind == 'err':
            v.violation(f'{what}: a documented valid value is rejected: {val}', {'case': c['val']}, signature={'component': 'rejects-valid', 'key': c['key']})
        elif want == 'err' and kind == 'ok':
            v.violation(f'{what}: a value that cannot be loaded faithfully is accepted', {'case': c['val'], 'loaded': normal_form(val)},
                        signature={'component': 'accepts-invalid', 'key': c['key'], 'level': c['level']})
        elif want == 'ok':
            diff = same(normal_form(val), spec_form(c['out']['n']))
            if diff:
                v.violation(f'{what}: loaded configuration differs from what was given: {diff}', {'case': c['val']}, signature={'component': 'unfaithful', 'field': diff.split(':')[0]})
            elif len(samples) < 2 and c['level'] == 'protect':
                samples.append({'perturbation': {c['key']: c['val']}, 'verdict': want, 'normal_form': c['out']['n']})
    # pairwise perturbations: the verdict composes field-wise (keys are independent); only the outcome class is judged
    single = {}
    for c in vec['cases']:
        if c['level'] in ('conn', 'protect'):
            single[(c['level'], c['key'], json.dumps(c['val'], sort_keys=True))] = c['out']['c']
    keys = list(single)
    m = 1500 if tier == 'quick' else 40000
    base_conn, cv, pv = vec['base'], vec['conn_values'], vec['prot_values']
    for _ in range(m):
        a, b = rnd.sample(keys, 2)
        if (a[0], a[1]) == (b[0], b[1]) or (a[0] == 'conn' and a[1] == 'protect' and b[0] == 'protect') or (b[0] == 'conn' and b[1] == 'protect' and a[0] == 'protect'):
            continue
        conn = copy.deepcopy(base_conn)
        for lvl, key, val in (a, b):
            val = json.loads(val)
            target = conn if lvl == 'conn' else conn['protect']['v'][0]['v']
            if val.get('k') == 'absent':
                target.pop(key, None)
            else:
                target[key] = val
        top = {'c1': to_py({'k': 'map', 'v': conn}, pems)}
        want = 'err' if 'err' in (single[a], single[b]) else ('either' if 'either' in (single[a], single[b]) else 'ok')
        # interplay: a changed my_addr / peer_addr moves the default subnets - still "ok"; unknown interplay is only judged on the exception class
        kind, val = load(top)
        n['pairs'] += 1
        distinct.add(json.dumps([a, b]))
        if kind == 'other':
            v.violation(f'{a[1]} + {b[1]}: loading fails with {type(val).__name__}: {val}', {'a': a, 'b': b}, signature={'component': 'escape', 'exception': type(val).__name__, 'key': a[1]})
        elif want == 'err' and kind == 'ok':
            v.violation(f'{a[0]}.{a[1]} + {b[0]}.{b[1]}: accepted although one of the values cannot be loaded faithfully', {'a': a, 'b': b},
                        signature={'component': 'accepts-invalid-pair', 'key': a[1] if single[a] == 'err' else b[1]})
        elif want == 'ok' and kind == 'err':
            v.violation(f'{a[0]}.{a[1]} + {b[0]}.{b[1]}: two valid values rejected together: {val}', {'a': a, 'b': b}, signature={'component': 'rejects-valid-pair'})
    v.coverage.update({'evaluations': n['singles'] + n['pairs'], 'distinct_nontrivial': len(distinct), 'counts': n,
                       'outcomes': {f'{w}->{k}': c for (w, k), c in sorted(outcomes.items())},
                       'rule': 'Config.tla grammar: one base dictionary + every single perturbation of every documented key at connection, auth and protect-entry level '
                               '(valid alternatives, missing, ill-typed: string / integer / negative / boolean / null / list / map, unknown names, out of range) and top-level '
                               'shapes; ordered pairs of protect entries (AH / ESP, default / explicit / reversed algorithm lists) within one connection and across two '
                               'connections - an entry means the same whatever was loaded before it; verdict ok (must load to exactly the normal form) / err (must raise ConfigurationError) / either; pairs of perturbations judged on the '
                               'outcome class; any other exception is a violation', 'samples': samples, 'exhaustive': tier == 'thorough'})
    v.assumptions += ['getaddrinfo served by the harness (numeric addresses and one fixed name)', 'listening address 192.168.0.1']
    return v.finish()
