"""C11 - algorithm negotiation never selects anything outside both offers (spec/Negotiate.tla vectors + end-to-end)."""
import itertools
import json
import os
import random
import shutil
import struct
import tempfile

import common
import probes
import wire_ref as W
import world as wd
from world import IkeSa

ENC_NAME = {(12, 128): 'aes128', (12, 256): 'aes256'}
INTEG_NAME = {12: 'sha256', 14: 'sha512', 2: 'sha1'}
DH_NAME = {19: 'ecp256', 20: 'ecp384', 21: 'ecp521'}


def vectors():
    tmp = tempfile.mkdtemp(prefix='verif-neg-')
    try:
        out = os.path.join(tmp, 'v.json')
        cfg = os.path.join(tmp, 'neg.cfg')
        open(cfg, 'w').write(f'INIT Init\nNEXT Next\nCONSTANTS\n OutFile = "{out}"\n')
        res = common.run_tlc('Negotiate.tla', cfg=cfg, workers=1, timeout=900)
        if not res.ok:
            raise common.MachineryError(f'TLC on Negotiate.tla: {res.error}\n{res.out[-2500:]}')
        return json.load(open(out))
    finally:
        shutil.rmtree(tmp, ignore_errors=True)


def mk_prop(M, p):
    return M.Proposal(p['num'], p['proto'], bytes(p['spi']), [M.Transform(t['type'], t['id'], t['keylen'] or None) for t in p['transforms']])


def tset(prop):
    return sorted((int(t.type), int(t.id), t.keylen or 0) for t in prop.transforms)


def aset(p):
    return sorted((t['type'], t['id'], t['keylen']) for t in p['transforms'])


def function_level(v, vec, tier, rnd):
    common.repo_import_guard()
    import message as M
    import ikesa
    sel = vec['select']
    if tier == 'quick':
        sel = rnd.sample(sel, 4000)
    n = 0
    classes = set()
    for c in sel:
        mine = mk_prop(M, c['mine'])
        peers = [mk_prop(M, p) for p in c['sa']]
        for k, peer in enumerate(peers):
            got = mine.intersection(peer)
            want = c['inter'][k]
            n += 1
            if (got is None) != (want == []):
                v.violation('Proposal.intersection: acceptability differs from the specification', {'mine': c['mine'], 'peer': c['sa'][k], 'got': got and tset(got)},
                            signature={'component': 'intersection:accept'})
                break
            if got is not None and (tset(got) != aset(want) or len(got.transforms) != len(want['transforms']) or bytes(got.spi) != bytes(want['spi']) or got.num != want['num']):
                v.violation('Proposal.intersection: selected transforms / num / SPI differ from the specification',
                            {'mine': c['mine'], 'peer': c['sa'][k], 'got': tset(got), 'want': aset(want)}, signature={'component': 'intersection:choice'})
                break
        try:
            got = ikesa.IkeSa._select_best_sa_proposal(None, mine, M.PayloadSA(peers))
        except M.NoProposalChosen:
            got = None
        want = c['out']
        n += 1
        classes.add((c['mine']['proto'], len(c['sa']), want == [], len(c['mine']['transforms'])))
        if (got is None) != (want == []) or (got is not None and (tset(got) != aset(want) or bytes(got.spi) != bytes(want['spi']))):
            v.violation('_select_best_sa_proposal differs from the specification (first acceptable peer proposal, local preference order)',
                        {'mine': c['mine'], 'sa': c['sa'], 'got': got and tset(got), 'want': want and aset(want)}, signature={'component': 'select_best'})
    for c in vec['subset']:
        got = mk_prop(M, c['p']).is_subset(mk_prop(M, c['offer']))
        n += 1
        if bool(got) != c['out']:
            v.violation('Proposal.is_subset differs from the specification', c, signature={'component': 'is_subset', 'want': c['out']})
    return n, len(classes)


def ike_cfg(p):
    tr = p['transforms']
    return {'ike_encr': [ENC_NAME[(t['id'], t['keylen'])] for t in tr if t['type'] == 1], 'ike_integ': [INTEG_NAME[t['id']] for t in tr if t['type'] == 3],
            'ike_prf': ['sha256'], 'ike_dh': [DH_NAME[t['id']] for t in tr if t['type'] == 4]}


def end_to_end(v, vec, tier, rnd):
    """All pairs of connection configurations of the universe whose offers are expressible: outcome and chosen suite = specification."""
    table = {}
    for c in vec['select']:
        if c['mine']['proto'] == 1 and len(c['sa']) == 1:
            table[(json.dumps(aset_ordered(c['mine'])), json.dumps(aset_ordered(c['sa'][0])))] = c['out']
    ok_enc = lambda p: all((t['id'], t['keylen']) in ENC_NAME for t in p['transforms'] if t['type'] == 1) and all(t['id'] in (12, 14) for t in p['transforms'] if t['type'] == 3) \
        and all(t['id'] in (19, 20) for t in p['transforms'] if t['type'] == 4) and any(t['type'] == 4 for t in p['transforms']) \
        and all(not t['keylen'] for t in p['transforms'] if t['type'] != 1)       # (a configuration cannot express a key length on INTEG / PRF / DH)
    locals_ = {json.dumps(aset_ordered(c['mine'])): c['mine'] for c in vec['select'] if c['mine']['proto'] == 1}
    peers = {json.dumps(aset_ordered(c['sa'][0])): c['sa'][0] for c in vec['select'] if c['mine']['proto'] == 1 and len(c['sa']) == 1 and ok_enc(c['sa'][0])}
    pairs = [(a, b) for a in peers for b in locals_ if (b, a) in table]
    pairs = rnd.sample(pairs, min(len(pairs), 80 if tier == 'quick' else 2000))
    n = 0
    for a_key, b_key in pairs:
        want = table[(b_key, a_key)]
        w = wd.World(opts_by_ep={'A': ike_cfg(peers[a_key]), 'B': ike_cfg(locals_[b_key])}, seed=common.SEED)
        try:
            req = w.acquire('A')
            res = w.dispatch('B', req, 'A')
            m = W.dec_message(bytes(res))
            notifies = [W.notify_name(p['ntype']) for p in m['payloads'] if p['t'] == W.NOTIFY and p['ntype'] < 16384]
            n += 1
            if want == []:
                if notifies != ['NO_PROPOSAL_CHOSEN'] or w.sas('B') or w.kernel['B'].sad:
                    v.violation('no common suite, but the request is not refused with NO_PROPOSAL_CHOSEN (or state is left behind)',
                                {'A': ike_cfg(peers[a_key]), 'B': ike_cfg(locals_[b_key]), 'notifies': notifies}, signature={'component': 'e2e:refuse'})
                continue
            chosen_dh = next(t['id'] for t in want['transforms'] if t['type'] == 4)
            sent_dh = next(p for p in W.dec_message(bytes(req))['payloads'] if p['t'] == W.KE)['group']
            if sent_dh != chosen_dh:
                ke = [p for p in m['payloads'] if p['t'] == W.NOTIFY and p['ntype'] == 17]
                if not ke or struct.unpack('>H', ke[0]['data'])[0] != chosen_dh or len(m['payloads']) != 1:
                    v.violation('KE in another group than the chosen one is not answered with INVALID_KE_PAYLOAD naming the chosen group',
                                {'A': ike_cfg(peers[a_key]), 'B': ike_cfg(locals_[b_key]), 'want': chosen_dh}, signature={'component': 'e2e:invalid_ke'})
                    continue
                req = w.dispatch('A', res, 'B')
                if W.dec_message(bytes(req))['mid'] != 0 or next(p for p in W.dec_message(bytes(req))['payloads'] if p['t'] == W.KE)['group'] != chosen_dh:
                    v.violation('the retry after INVALID_KE_PAYLOAD does not use the suggested group', {}, signature={'component': 'e2e:retry'})
                    continue
                res = w.dispatch('B', req, 'A')
                m = W.dec_message(bytes(res))
            sa = next((p for p in m['payloads'] if p['t'] == W.SA), None)
            got = sorted((t['type'], t['id'], t['keylen'] or 0) for t in sa['proposals'][0]['transforms']) if sa else None
            if got != aset(want):
                v.violation('the suite in the IKE_SA_INIT response differs from the specification', {'A': ike_cfg(peers[a_key]), 'B': ike_cfg(locals_[b_key]),
                            'got': got, 'want': aset(want)}, signature={'component': 'e2e:choice'})
                continue
            nxt, cur = w.dispatch('A', res, 'B'), 'A'
            while nxt is not None:
                cur = w.peer_of(cur)
                nxt = w.dispatch(cur, nxt, w.peer_of(cur))
            if [s.state.name for s in w.sas('A')] != ['ESTABLISHED'] or [s.state.name for s in w.sas('B')] != ['ESTABLISHED']:
                v.violation('compatible configurations did not establish', {'A': ike_cfg(peers[a_key]), 'B': ike_cfg(locals_[b_key])}, signature={'component': 'e2e:establish'})
        except wd.Escape as ex:
            v.violation(f'negotiation raised: {ex}', {}, signature={'component': 'e2e:escape'})
        finally:
            w.close()
    return n


def child_cfg(p):
    tr = p['transforms']
    return {'proto': 'esp' if p['proto'] == 3 else 'ah', 'child_encr': [ENC_NAME[(t['id'], t['keylen'])] for t in tr if t['type'] == 1] or ['aes256'],
            'child_integ': [INTEG_NAME[t['id']] for t in tr if t['type'] == 3], 'child_dh': [DH_NAME[t['id']] for t in tr if t['type'] == 4]}


def child_end_to_end(v, vec, tier, rnd):
    """CHILD_SA policies end to end: the first CHILD_SA comes with IKE_AUTH (negotiated without the DH transforms), every further one with
    CREATE_CHILD_SA against the FULL configured policy - twice in a row, the second time started by the other side: what an earlier negotiation
    did must not change what the configured policy offers or accepts."""
    table = {}
    for c in vec['select']:
        if c['mine']['proto'] in (2, 3) and len(c['sa']) == 1:
            table[(json.dumps(aset_ordered(c['mine'])), json.dumps(aset_ordered(c['sa'][0])))] = c['out']
    expressible = lambda p: all((t['id'], t['keylen']) in ENC_NAME for t in p['transforms'] if t['type'] == 1) and all(t['id'] in INTEG_NAME for t in p['transforms'] if t['type'] == 3) \
        and all(t['id'] in DH_NAME for t in p['transforms'] if t['type'] == 4) and any(t['type'] == 5 for t in p['transforms']) \
        and (p['proto'] == 2) == (not any(t['type'] == 1 for t in p['transforms'])) and all(not t['keylen'] for t in p['transforms'] if t['type'] != 1)
    accept = {(json.dumps(aset_ordered(c['offer'])), json.dumps(aset(c['answer']))): c['ok'] for c in vec['accept']}
    locals_ = {json.dumps(aset_ordered(c['mine'])): c['mine'] for c in vec['select'] if c['mine']['proto'] in (2, 3)}
    peers = {json.dumps(aset_ordered(c['sa'][0])): c['sa'][0] for c in vec['select'] if c['mine']['proto'] in (2, 3) and len(c['sa']) == 1 and expressible(c['sa'][0])}
    pairs = [(a, b) for a in peers for b in locals_ if (b, a) in table and peers[a]['proto'] == locals_[b]['proto']]
    with_dh = [x for x in pairs if any(t['type'] == 4 for t in peers[x[0]]['transforms']) and any(t['type'] == 4 for t in locals_[x[1]]['transforms'])]
    ke_mismatch = [x for x in pairs if len([t for t in peers[x[0]]['transforms'] if t['type'] == 4]) == 2 and table[(x[1], x[0])] != []
                   and [t['id'] for t in table[(x[1], x[0])]['transforms'] if t['type'] == 4][:1] not in ([], [[t['id'] for t in peers[x[0]]['transforms'] if t['type'] == 4][0]])]
    a_only = [x for x in pairs if any(t['type'] == 4 for t in peers[x[0]]['transforms']) and not any(t['type'] == 4 for t in locals_[x[1]]['transforms'])]
    pairs = rnd.sample(ke_mismatch, min(len(ke_mismatch), 15 if tier == 'quick' else 300)) + rnd.sample(a_only, min(len(a_only), 20 if tier == 'quick' else 300)) + pairs
    pairs = pairs[:35 if tier == 'quick' else 600] + rnd.sample(with_dh, min(len(with_dh), 25 if tier == 'quick' else 400)) + rnd.sample(pairs, min(len(pairs), 25 if tier == 'quick' else 1200))
    n = 0
    for a_key, b_key in pairs:
        want = table[(b_key, a_key)]
        w = wd.World(opts_by_ep={'A': child_cfg(peers[a_key]), 'B': child_cfg(locals_[b_key])}, seed=common.SEED)
        try:
            w.establish('A')
            if [s.state.name for s in w.sas('A')] != ['ESTABLISHED'] or [s.state.name for s in w.sas('B')] != ['ESTABLISHED']:
                continue
            for round_, starter in enumerate(('A', 'A')):
                req = w.acquire(starter, sport=0, dport=0)
                if req is None:
                    break
                res = w.dispatch('B', req, 'A')
                b = w.sas('B')[0]
                m = W.dec_message(bytes(res), probes.keys_of(b.my_crypto))
                n += 1
                sa = next((p for p in m['inner'] if p['t'] == W.SA), None)
                notifies = [W.notify_name(p['ntype']) for p in m['inner'] if p['t'] == W.NOTIFY and p['ntype'] < 16384]
                got = sorted((t['type'], t['id'], t['keylen'] or 0) for t in sa['proposals'][0]['transforms']) if sa else None
                has_ke = any(p['t'] == W.KE for p in m['inner'])
                what = f'CREATE_CHILD_SA no. {round_ + 1} after IKE_AUTH'
                if want == []:
                    if sa is not None or 'NO_PROPOSAL_CHOSEN' not in notifies:
                        v.violation(f'{what}: no common suite, but the request is not refused with NO_PROPOSAL_CHOSEN', {'A': child_cfg(peers[a_key]), 'B': child_cfg(locals_[b_key]), 'got': got},
                                    signature={'component': 'child-e2e:refuse'})
                    w.dispatch('A', res, 'B')
                    continue
                # KeRule: the requester's KE payload is in the first DH group of its offer; if the chosen suite has another group, the answer is
                # INVALID_KE_PAYLOAD naming the chosen group and nothing else happens; the retry in that group is then served
                offer_dh = [t['id'] for t in peers[a_key]['transforms'] if t['type'] == 4]
                want_dh = next((t['id'] for t in want['transforms'] if t['type'] == 4), None)
                if want_dh is not None and offer_dh and offer_dh[0] != want_dh:
                    ke = [p for p in m['inner'] if p['t'] == W.NOTIFY and p['ntype'] == 17]
                    newsa_b = sum(1 for r in w.kernel['B'].requests if r['kind'] == 'NEWSA')
                    if not ke or struct.unpack('>H', ke[0]['data'])[0] != want_dh or sa is not None:
                        v.violation(f'{what}: KE payload in group {offer_dh[0]}, chosen suite has group {want_dh}: the answer is not INVALID_KE_PAYLOAD naming the chosen group '
                                    f'(notifies {notifies}, SA payload {"present" if sa else "absent"}, KE {"present" if has_ke else "absent"})',
                                    {'A': child_cfg(peers[a_key]), 'B': child_cfg(locals_[b_key])}, signature={'component': 'child-e2e:invalid-ke'})
                        break
                    req2 = w.dispatch('A', res, 'B')
                    if req2 is None:
                        v.violation(f'{what}: the suggested (offered) group {want_dh} is not retried', {}, signature={'component': 'child-e2e:retry'})
                        break
                    res = w.dispatch('B', req2, 'A')
                    m = W.dec_message(bytes(res), probes.keys_of(b.my_crypto))
                    sa = next((p for p in m['inner'] if p['t'] == W.SA), None)
                    got = sorted((t['type'], t['id'], t['keylen'] or 0) for t in sa['proposals'][0]['transforms']) if sa else None
                    has_ke = any(p['t'] == W.KE for p in m['inner'])
                elif 'INVALID_KE_PAYLOAD' in notifies:
                    v.violation(f'{what}: INVALID_KE_PAYLOAD although the KE payload is in the group of the chosen suite', {'A': child_cfg(peers[a_key]), 'B': child_cfg(locals_[b_key])},
                                signature={'component': 'child-e2e:invalid-ke-spurious'})
                    break
                if got != aset(want) or has_ke != any(t['type'] == 4 for t in want['transforms']):
                    v.violation(f'{what}: the chosen CHILD_SA suite differs from the specification (configured policy vs offer)',
                                {'A': child_cfg(peers[a_key]), 'B': child_cfg(locals_[b_key]), 'got': got, 'want': aset(want), 'ke_payload': has_ke},
                                signature={'component': 'child-e2e:choice', 'round': round_})
                    break
                before = sum(1 for r in w.kernel['A'].requests if r['kind'] == 'NEWSA')
                nxt, cur = w.dispatch('A', res, 'B'), 'A'
                installed = sum(1 for r in w.kernel['A'].requests if r['kind'] == 'NEWSA') > before
                ok = accept.get((a_key, json.dumps(got)))
                if ok is not None and installed != ok:
                    v.violation(f'{what}: the requester {"installs" if installed else "refuses"} an answer that the specification says it must {"accept" if ok else "refuse"} '
                                '(every transform of the answer offered, every type the local policy requires present)',
                                {'A': child_cfg(peers[a_key]), 'B': child_cfg(locals_[b_key]), 'answer': got}, signature={'component': 'child-e2e:requester', 'installed': installed})
                    break
                while nxt is not None:
                    cur = w.peer_of(cur)
                    nxt = w.dispatch(cur, nxt, w.peer_of(cur))
        except wd.Escape as ex:
            v.violation(f'child negotiation raised: {ex}', {}, signature={'component': 'child-e2e:escape'})
        finally:
            w.close()
    return n


def aset_ordered(p):
    return [p['proto']] + [(t['type'], t['id'], t['keylen']) for t in p['transforms']]


def scripted_peer(v):
    """Wrong answers from a peer that holds the keys: extra / foreign transform, never-offered DH group. Nothing may be installed."""
    n = 0

    def retag(payloads, f):
        out = []
        for p in payloads:
            p = dict(p)
            if p['t'] == W.SA:
                props = [dict(q, transforms=f([dict(t) for t in q['transforms']])) for q in p['proposals']]
                p = dict(p, proposals=props)
            out.append(p)
        return out
    tamperers = {
        'extra transform': lambda trs: trs + [{'type': 1, 'id': 12, 'keylen': 128}],
        'foreign transform': lambda trs: [{'type': 1, 'id': 3, 'keylen': None} if t['type'] == 1 else t for t in trs] if any(t['type'] == 1 for t in trs) else trs + [{'type': 3, 'id': 1, 'keylen': None}],
        'foreign integrity': lambda trs: [{'type': 3, 'id': 2, 'keylen': None} if t['type'] == 3 else t for t in trs],
        # "exactly one transform of each type the local policy requires": an answer that leaves a required type out is drawn from the offer - and incomplete
        'missing dh transform': lambda trs: [t for t in trs if t['type'] != 4] if any(t['type'] == 4 for t in trs) else trs + [{'type': 1, 'id': 12, 'keylen': 128}],
        'missing integrity transform': lambda trs: [t for t in trs if t['type'] != 3],
    }
    # (a) IKE_SA_INIT response (clear)
    for name, f in tamperers.items():
        w = wd.World(seed=common.SEED)
        try:
            req = w.acquire('A')
            res = bytes(w.dispatch('B', req, 'A'))
            m = W.dec_message(res)
            forged = W.enc_message({'spi_i': m['spi_i'], 'spi_r': m['spi_r'], 'xchg': 34, 'response': True, 'initiator': False, 'mid': 0}, retag(m['payloads'], f))
            before = len(w.kernel['A'].requests)
            out = w.dispatch('A', forged, 'B')
            n += 1
            if out is not None or [s.state.name for s in w.sas('A')] not in ([], ['DELETED']) or len(w.kernel['A'].requests) != before:
                v.violation(f'IKE_SA_INIT response with {name} is not refused', {'states': [s.state.name for s in w.sas('A')], 'answered': out is not None},
                            signature={'component': 'scripted:init', 'tamper': name})
        finally:
            w.close()
    # (b) CREATE_CHILD_SA / IKE_AUTH responses (protected, re-sealed with the responder's keys)
    for stage in ('auth', 'child'):
        for name, f in tamperers.items():
            w = wd.World(seed=common.SEED)
            try:
                if stage == 'auth':
                    req = w.acquire('A')
                    res = w.dispatch('B', req, 'A')
                    req = w.dispatch('A', res, 'B')
                else:
                    w.establish('A')
                    req = w.acquire('A', sport=0, dport=0)
                res = bytes(w.dispatch('B', req, 'A'))
                b = w.sas('B')[0]
                m = W.dec_message(res, probes.keys_of(b.my_crypto))
                forged = probes.seal(b, m['xchg'], True, m['mid'], retag(m['inner'], f))
                newsa_before = sum(1 for r in w.kernel['A'].requests if r['kind'] == 'NEWSA')
                try:
                    w.dispatch('A', forged, 'B')
                except wd.Escape as ex:
                    v.violation(f'{stage} response with {name}: {ex}', {}, signature={'component': 'scripted:escape'})
                n += 1
                if sum(1 for r in w.kernel['A'].requests if r['kind'] == 'NEWSA') != newsa_before:
                    v.violation(f'{stage} response with {name} was installed', {}, signature={'component': 'scripted:installed', 'stage': stage, 'tamper': name})
            finally:
                w.close()
    # (c) a suggested DH group that was never offered
    for stage in ('init', 'child', 'rekeyike'):
        w = wd.World(seed=common.SEED, opts={'child_dh': ['ecp256']})
        try:
            if stage == 'init':
                req = bytes(w.acquire('A'))
                m = W.dec_message(req)
                forged = W.enc_message({'spi_i': m['spi_i'], 'spi_r': b'\0' * 8, 'xchg': 34, 'response': True, 'initiator': False, 'mid': 0},
                                       [{'t': W.NOTIFY, 'proto': 0, 'spi': b'', 'ntype': 17, 'data': struct.pack('>H', 21)}])
            else:
                w.establish('A')
                if stage == 'child':
                    req = bytes(w.acquire('A', sport=0, dport=0))
                else:
                    a = w.sas('A')[0]
                    a.rekey_ike_sa_at = w.now - 1
                    req = bytes(w.timer('A', a, 'check_rekey_ike_sa_timer'))
                b = w.sas('B')[0]
                forged = probes.seal(b, 36, True, W.dec_header(req)['mid'], [{'t': W.NOTIFY, 'proto': 0, 'spi': b'', 'ntype': 17, 'data': struct.pack('>H', 21)}])
            out = w.dispatch('A', forged, 'B')
            n += 1
            retried = False
            if out is not None:
                h = W.dec_header(bytes(out))
                sa_a = w.sas('A')[0] if w.sas('A') else None
                if h['xchg'] in (34, 36):
                    keys = None if h['xchg'] == 34 else probes.keys_of(sa_a.my_crypto)
                    mm = W.dec_message(bytes(out), keys)
                    pl = mm['inner'] if mm['protected'] else mm['payloads']
                    retried = any(p['t'] == W.KE and p['group'] == 21 for p in pl)
            if retried:
                v.violation(f'{stage}: a suggested DH group that was never offered is retried', {}, signature={'component': 'scripted:downgrade', 'stage': stage})
        finally:
            w.close()
    return n


def raw_offers(v, vec, tier, rnd):
    """A requester that no configuration of this implementation could be: its IKE_SA_INIT carries ANY SA payload of the Negotiate.tla universe (AES-CBC without
    Key Length, an integrity transform with one, 3DES, a group nobody has, no group at all, two proposals) against the real responder with a configured
    policy: NO_PROPOSAL_CHOSEN with nothing left behind, or exactly SelectBest - INVALID_KE_PAYLOAD naming its group when the KE payload is in another."""
    import kdf_ref
    cases = [c for c in vec['select'] if c['mine']['proto'] == 1]
    odd = [c for c in cases if len(c['sa']) == 2 or any(t['type'] == 1 and (t['id'], t['keylen']) not in ENC_NAME or t['type'] != 1 and t['keylen'] for p in c['sa'] for t in p['transforms'])
           or not all(any(t['type'] == 4 for t in p['transforms']) for p in c['sa'])]
    pick = rnd.sample(odd, min(len(odd), 70 if tier == 'quick' else 1500)) + rnd.sample(cases, min(len(cases), 20 if tier == 'quick' else 500))
    n = 0
    # the KE payload in the first group of the first proposal - and, with several proposals, in the first group of each of the others: the suite comes from the
    # FIRST acceptable proposal whatever group the KE payload is in (INVALID_KE_PAYLOAD then names that suite's group)
    runs = []
    for c in pick:
        firsts = [next((t['id'] for t in p['transforms'] if t['type'] == 4), None) for p in c['sa']]
        ke_groups = []
        for gq in [firsts[0] if firsts[0] in (19, 20, 21) else 19] + [x for x in firsts[1:] if x in (19, 20, 21)]:
            if gq not in ke_groups:
                ke_groups.append(gq)
        runs += [(c, gq) for gq in ke_groups]
    for c, ke_group in runs:
        want = c['out']
        w = wd.World(opts_by_ep={'A': {}, 'B': ike_cfg(c['mine'])}, seed=common.SEED)
        try:
            props = [{'num': p['num'], 'proto': 1, 'spi': b'', 'transforms': [{'type': t['type'], 'id': t['id'], 'keylen': t['keylen'] or None} for t in p['transforms']]} for p in c['sa']]
            req = W.enc_message({'spi_i': b'\x5c' * 8, 'spi_r': b'\0' * 8, 'xchg': 34, 'response': False, 'initiator': True, 'mid': 0},
                                [{'t': W.SA, 'proposals': props}, {'t': W.KE, 'group': ke_group, 'data': kdf_ref.dh_public(ke_group, 0x1234567)}, {'t': W.NONCE, 'data': b'\x44' * 32}])
            try:
                res = w.dispatch('B', req, 'A')
            except wd.Escape as ex:
                v.violation(f'a raw offer made the responder raise: {ex}', {'sa': c['sa'], 'mine': c['mine']}, signature={'component': 'raw:escape'})
                continue
            n += 1
            m = W.dec_message(bytes(res)) if res is not None else {'payloads': []}
            notifies = [(W.notify_name(p['ntype']), p['data']) for p in m['payloads'] if p['t'] == W.NOTIFY and p['ntype'] < 16384]
            if want == []:
                if [x[0] for x in notifies] != ['NO_PROPOSAL_CHOSEN'] or w.sas('B'):
                    v.violation('a raw offer without a common suite is not refused with NO_PROPOSAL_CHOSEN (or an IKE_SA is left behind)',
                                {'sa': c['sa'], 'mine': c['mine'], 'notifies': [x[0] for x in notifies], 'ike_sas': [s.state.name for s in w.sas('B')]}, signature={'component': 'raw:refuse'})
                continue
            chosen_dh = next(t['id'] for t in want['transforms'] if t['type'] == 4)
            if chosen_dh != ke_group:
                if [x[0] for x in notifies] != ['INVALID_KE_PAYLOAD'] or struct.unpack('>H', notifies[0][1])[0] != chosen_dh or w.sas('B'):
                    v.violation('a raw offer whose KE payload is not in the chosen group is not answered with INVALID_KE_PAYLOAD naming that group', {'sa': c['sa'], 'mine': c['mine'],
                                'notifies': [x[0] for x in notifies]}, signature={'component': 'raw:invalid_ke'})
                continue
            sa = next((p for p in m['payloads'] if p['t'] == W.SA), None)
            got = sorted((t['type'], t['id'], t['keylen'] or 0) for t in sa['proposals'][0]['transforms']) if sa else None
            if got != aset(want) or (sa and sa['proposals'][0]['num'] != want['num']):
                v.violation('the suite (or proposal number) chosen for a raw offer differs from the specification', {'sa': c['sa'], 'mine': c['mine'], 'got': got, 'want': aset(want),
                            'notifies': [x[0] for x in notifies]}, signature={'component': 'raw:choice'})
        finally:
            w.close()
    return n


def raw_child_offers(v, vec, tier, rnd):
    """The same for CREATE_CHILD_SA: an authentic requester (it holds the keys of the IKE_SA) whose SA payload is ANY member of the ChildSas universe -
    the real request of endpoint A is opened, its SA (and KE) payload replaced, and sealed again."""
    import kdf_ref
    cases = [c for c in vec['select'] if c['mine']['proto'] in (2, 3) and c['sa'][0]['proto'] == c['mine']['proto']]
    odd = [c for c in cases if len(c['sa']) == 2 or any(t['type'] == 1 and (t['id'], t['keylen']) not in ENC_NAME or t['type'] != 1 and t['keylen'] for p in c['sa'] for t in p['transforms'])
           or not any(t['type'] == 5 for t in c['sa'][0]['transforms'])]
    pick = rnd.sample(odd, min(len(odd), 50 if tier == 'quick' else 1500)) + rnd.sample(cases, min(len(cases), 15 if tier == 'quick' else 500))
    n = 0
    for c in pick:
        want = c['out']
        w = wd.World(opts_by_ep={'A': {'proto': 'esp' if c['mine']['proto'] == 3 else 'ah'}, 'B': child_cfg(c['mine'])}, seed=common.SEED)
        try:
            w.establish('A')
            if [s.state.name for s in w.sas('B')] != ['ESTABLISHED']:
                continue
            a, b = w.sas('A')[0], w.sas('B')[0]
            real = W.dec_message(bytes(w.acquire('A', sport=0, dport=0)), probes.keys_of(a.my_crypto))
            # (a well-formed requester: its KE payload is in the first DH group that any of its proposals offers)
            groups = [t['id'] for p in c['sa'] for t in p['transforms'] if t['type'] == 4]
            ke_group = groups[0] if groups and groups[0] in (19, 20, 21) else None
            props = [{'num': p['num'], 'proto': p['proto'], 'spi': bytes([0x0c, 0x0d, 0x0e, p['num']]),
                      'transforms': [{'type': t['type'], 'id': t['id'], 'keylen': t['keylen'] or None} for t in p['transforms']]} for p in c['sa']]
            inner = [{'t': W.SA, 'proposals': props}] + [p for p in real['inner'] if p['t'] not in (W.SA, W.KE)]
            if ke_group:
                inner.insert(2, {'t': W.KE, 'group': ke_group, 'data': kdf_ref.dh_public(ke_group, 0x7654321)})
            newsa_before = sum(1 for r in w.kernel['B'].requests if r['kind'] == 'NEWSA')
            try:
                res = w.dispatch('B', probes.seal(a, 36, False, real['mid'], inner), 'A')
            except wd.Escape as ex:
                v.violation(f'a raw CHILD_SA offer made the responder raise: {ex}', {'sa': c['sa'], 'mine': c['mine']}, signature={'component': 'rawchild:escape'})
                continue
            n += 1
            m = W.dec_message(bytes(res), probes.keys_of(b.my_crypto)) if res is not None else {'inner': []}
            notifies = [(W.notify_name(p['ntype']), p['data']) for p in m['inner'] if p['t'] == W.NOTIFY and p['ntype'] < 16384]
            installed = sum(1 for r in w.kernel['B'].requests if r['kind'] == 'NEWSA') - newsa_before
            sa = next((p for p in m['inner'] if p['t'] == W.SA), None)
            got = sorted((t['type'], t['id'], t['keylen'] or 0) for t in sa['proposals'][0]['transforms']) if sa else None
            if want == []:
                if [x[0] for x in notifies] != ['NO_PROPOSAL_CHOSEN'] or sa is not None or installed:
                    v.violation('a raw CHILD_SA offer without a common suite is not refused with NO_PROPOSAL_CHOSEN (or kernel SAs are installed)',
                                {'sa': c['sa'], 'mine': c['mine'], 'notifies': [x[0] for x in notifies], 'got': got, 'installed': installed}, signature={'component': 'rawchild:refuse'})
                continue
            want_dh = next((t['id'] for t in want['transforms'] if t['type'] == 4), None)
            if want_dh is not None and want_dh != ke_group:
                if [x[0] for x in notifies] != ['INVALID_KE_PAYLOAD'] or struct.unpack('>H', notifies[0][1])[0] != want_dh or sa is not None or installed:
                    v.violation('a raw CHILD_SA offer whose KE payload is not in the chosen group is not answered with INVALID_KE_PAYLOAD naming that group',
                                {'sa': c['sa'], 'mine': c['mine'], 'notifies': [x[0] for x in notifies]}, signature={'component': 'rawchild:invalid_ke'})
                continue
            if got != aset(want) or (sa and sa['proposals'][0]['num'] != want['num']) or installed != 2:
                v.violation('the suite (or proposal number) chosen for a raw CHILD_SA offer differs from the specification, or it is not installed as one pair of kernel SAs',
                            {'sa': c['sa'], 'mine': c['mine'], 'got': got, 'want': aset(want), 'notifies': [x[0] for x in notifies], 'installed': installed}, signature={'component': 'rawchild:choice'})
        finally:
            w.close()
    return n


def policy_of_the_matched_entry(v):
    """The local policy of a CHILD_SA negotiation is the protect entry that the request's selectors matched - not the union of the connection's entries.  A
    responder with two entries of different suites gets a request whose selectors match the first while its algorithms are acceptable only to the second:
    NO_PROPOSAL_CHOSEN, nothing installed (in IKE_AUTH, and in CREATE_CHILD_SA after a legitimate CHILD_SA under the second entry)."""
    import probes
    n = 0
    for stage in ('auth', 'child'):
        ca = wd.connection_dict('A', 'B')
        cb = wd.connection_dict('B', 'A')
        base_a, base_b = ca['protect'][0], cb['protect'][0]
        ca['protect'] = [dict(base_a, ip_proto='udp', peer_port=53, index=2, encr=['aes128'], integ=['sha1']),
                         dict(base_a, ip_proto='tcp', peer_port=23, index=3, encr=['aes128'], integ=['sha1'])]
        cb['protect'] = [dict(base_b, ip_proto='tcp', my_port=23, index=31, encr=['aes256'], integ=['sha512']),
                         dict(base_b, ip_proto='udp', my_port=53, index=32, encr=['aes128'], integ=['sha1'])]
        w = wd.World(conf={'A': {'A-B': ca}, 'B': {'B-A': cb}}, seed=common.SEED)
        try:
            if stage == 'child':
                m, cur = w.acquire('A', index=2, proto=17, dport=53), 'A'
                while m is not None:
                    nxt = w.peer_of(cur)
                    m, cur = w.dispatch(nxt, m, cur), nxt
                if [len(x.child_sas) for x in w.sas('B')] != [1]:
                    raise common.MachineryError('the legitimate CHILD_SA under the second entry did not come up')
                req = w.acquire('A', index=3, proto=6, dport=23)
            else:
                req = w.dispatch('A', w.dispatch('B', w.acquire('A', index=3, proto=6, dport=23), 'A'), 'B')
            before = sum(1 for r in w.kernel['B'].requests if r['kind'] == 'NEWSA')
            kids = sum(len(x.child_sas) for x in w.sas('B'))
            res = w.dispatch('B', req, 'A')
            n += 1
            b = w.sas('B')[0]
            notes = [W.notify_name(p['ntype']) for p in W.dec_message(bytes(res), probes.keys_of(b.my_crypto))['inner'] if p['t'] == W.NOTIFY and p['ntype'] < 16384] if res is not None else []
            installed = sum(1 for r in w.kernel['B'].requests if r['kind'] == 'NEWSA') - before
            if notes != ['NO_PROPOSAL_CHOSEN'] or installed or sum(len(x.child_sas) for x in w.sas('B')) != kids:
                v.violation(f'{stage}: responder entries [tcp/23: aes256+sha512, udp/53: aes128+sha1], request for tcp/23 offering aes128+sha1: answered {notes or "with a suite"}, '
                            f'{installed} kernel SAs installed - the suite of an entry whose selectors were never compared with the request', {'stage': stage, 'notifies': notes},
                            signature={'component': 'other-entry', 'stage': stage})
        except wd.Escape as ex:
            v.violation(f'policy of the matched entry ({stage}): {ex}', {}, signature={'component': 'other-entry', 'stage': 'escape'})
        finally:
            w.close()
    return n


def retry_vectors(v, vec):
    """Negotiate.tla RetryGroupOk: an IKE_SA_INIT answered with INVALID_KE_PAYLOAD naming group g is retried with g iff g is a DH transform of the offer."""
    n = 0
    for c in vec['retry']:
        cfg = ike_cfg(c['offer'])
        w = wd.World(seed=common.SEED, opts=cfg)
        try:
            req = bytes(w.acquire('A'))
            m = W.dec_message(req)
            first = next(p for p in m['payloads'] if p['t'] == W.KE)['group']
            if c['g'] == first:
                continue                     # the group already used: not a suggestion a responder makes
            forged = W.enc_message({'spi_i': m['spi_i'], 'spi_r': b'\0' * 8, 'xchg': 34, 'response': True, 'initiator': False, 'mid': 0},
                                   [{'t': W.NOTIFY, 'proto': 0, 'spi': b'', 'ntype': 17, 'data': struct.pack('>H', c['g'])}])
            try:
                out = w.dispatch('A', forged, 'B')
            except wd.Escape as ex:
                v.violation(f'INVALID_KE_PAYLOAD suggesting group {c["g"]}: {ex}', {'offer': cfg}, signature={'component': 'retry:escape'})
                continue
            n += 1
            group = None
            if out is not None and W.dec_header(bytes(out))['xchg'] == 34:
                group = next((p['group'] for p in W.dec_message(bytes(out))['payloads'] if p['t'] == W.KE), None)
            if c['ok'] and group != c['g']:
                v.violation(f'INVALID_KE_PAYLOAD suggesting the offered group {c["g"]} is not followed (retry group {group})', {'offer': cfg},
                            signature={'component': 'retry:not-followed'})
            if not c['ok'] and out is not None and group is not None:
                v.violation(f'INVALID_KE_PAYLOAD suggesting group {c["g"]}, which is not among the offered DH groups {cfg["ike_dh"]}, is followed (retry with group {group})',
                            {'offer': cfg}, signature={'component': 'retry:unoffered', 'group': c['g']})
        finally:
            w.close()
    return n


def run(tier, replay=None):
    v = common.Verdict('C11', tier, 'model_checking')
    rnd = random.Random(common.SEED)
    vec = vectors()
    n_fun, n_cls = function_level(v, vec, tier, rnd)
    n_e2e = end_to_end(v, vec, tier, rnd)
    n_scr = scripted_peer(v)
    n_child = child_end_to_end(v, vec, tier, rnd)
    n_retry = retry_vectors(v, vec)
    n_raw = raw_offers(v, vec, tier, rnd) + raw_child_offers(v, vec, tier, rnd)
    v.coverage['matched_entry_cases'] = policy_of_the_matched_entry(v)
    sample = vec['select'][0]
    v.coverage.update({'evaluations': n_fun + n_e2e + n_scr + n_retry + n_child + n_raw, 'raw_offers': n_raw, 'child_end_to_end': n_child, 'retry_suggestions': n_retry, 'distinct_nontrivial': n_fun, 'spec_cases': len(vec['select']),
                       'function_level': n_fun, 'classes': n_cls, 'end_to_end_pairs': n_e2e, 'scripted_peer_cases': n_scr,
                       'rule': 'Negotiate.tla universe: IKE local policies (ordered ENCR key lengths, INTEG, DH lists) x peer SA payloads with one or two proposals '
                               'incl. foreign / missing / key-length-mismatching transforms; ESP / AH child policies likewise; property ChoiceOk checked by TLC on '
                               'all cases, each case then compared with Proposal.intersection / is_subset / _select_best_sa_proposal; end to end: pairs of connection '
                               'configurations; scripted peer answers with extra / foreign transforms and never-offered groups; raw offers (SA payloads no configuration can express: AES-CBC without Key Length, INTEG with one, two proposals, no group) sent to the real responder; RetryGroupOk: every group number 0..31 suggested by INVALID_KE_PAYLOAD against offers whose other transform types use the same numbers',
                       'samples': [{'mine': sample['mine'], 'peer_sa': sample['sa'], 'expected': sample['out']}], 'exhaustive': tier == 'thorough'})
    v.assumptions += ['order of the transforms inside the chosen proposal is not compared (not fixed by the property)']
    return v.finish()
