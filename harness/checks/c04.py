"""C04 - key material is derived exactly as RFC 7296 prescribes (spec/KeySchedule.tla plans evaluated independently)."""
import random
import warnings

import common
import kdf_ref
import plan_eval
import world as wd
from checks import c01matrix

warnings.filterwarnings('ignore')


def prfplus_lengths(v, kdf, tier):
    """prf+ equals its definition for every output length 1 .. 8*hash+1, for keys / seeds of several lengths."""
    import crypto
    from message import Transform
    n = 0
    rnd = random.Random(common.SEED)
    for prf_id, tid in ((2, Transform.PrfId.PRF_HMAC_SHA1), (5, Transform.PrfId.PRF_HMAC_SHA2_256), (7, Transform.PrfId.PRF_HMAC_SHA2_512)):
        p = crypto.Prf(Transform(Transform.Type.PRF, tid))
        h = plan_eval.hashlib.new(plan_eval.HASH[prf_id]).digest_size
        if p.key_size != h or p.hash_size != h:
            v.violation(f'PRF {prf_id}: key/hash size {p.key_size}/{p.hash_size}, RFC: {h}', {}, signature={'component': 'prf:size'})
        lengths = range(1, 8 * h + 2) if tier == 'thorough' else sorted(set(list(range(1, 2 * h + 3)) + [3 * h, 4 * h + 1, 8 * h, 8 * h + 1]))
        for ln in lengths:
            key = bytes(rnd.getrandbits(8) for _ in range(rnd.choice((1, 16, h, h + 1, 200))))
            seed = bytes(rnd.getrandbits(8) for _ in range(rnd.choice((0, 1, 32, 300))))
            got = p.prfplus(key, seed, ln)
            n += 1
            if got != kdf.prfplus(prf_id, key, seed, ln) or got != kdf_ref.prfplus(prf_id, key, seed, ln):
                v.violation(f'prf+ ({plan_eval.HASH[prf_id]}) output length {ln} differs from its definition', {'key': key.hex(), 'seed': seed.hex()[:80]},
                            signature={'component': 'prfplus', 'prf': prf_id})
                break
            if p.prf(key, seed) != kdf.prf(prf_id, key, seed):
                v.violation(f'prf ({plan_eval.HASH[prf_id]}) is not HMAC', {}, signature={'component': 'prf', 'prf': prf_id})
                break
    return n


def sizes(v, plans):
    """Key / ICV / block sizes per transform as the plan's size tables say."""
    import crypto
    from message import Transform
    want_key = dict(map(tuple, plans['sizes']['integ_key']))
    want_icv = dict(map(tuple, plans['sizes']['integ_icv']))
    for tid in (Transform.IntegId.AUTH_HMAC_SHA1_96, Transform.IntegId.AUTH_HMAC_SHA2_256_128, Transform.IntegId.AUTH_HMAC_SHA2_512_256):
        i = crypto.Integrity(Transform(Transform.Type.INTEG, tid))
        if (i.key_size, i.hash_size) != (want_key[int(tid)], want_icv[int(tid)]):
            v.violation(f'integrity transform {int(tid)}: key/ICV size {i.key_size}/{i.hash_size}', {}, signature={'component': 'sizes:integ'})
    for bits in (128, 256):
        c = crypto.Cipher(Transform(Transform.Type.ENCR, Transform.EncrId.ENCR_AES_CBC, bits))
        if (c.key_size, c.block_size) != (bits // 8, 16):
            v.violation(f'AES-{bits}: key/block size {c.key_size}/{c.block_size}', {}, signature={'component': 'sizes:encr'})


def dh_groups(v, tier):
    """Primes / curves equal their published definitions; public values are fixed width; shared secrets (also with leading zero
    octets) equal the independent computation."""
    import crypto
    from message import Transform
    kdf_ref.ec_selfcheck()
    n = lead = 0
    for g, bits in kdf_ref.MODP_GROUP_BITS.items():
        p_impl = int(crypto.MODPDH._group_dict[Transform.DhId(g)], 16)
        if p_impl != kdf_ref.modp_prime(bits):
            v.violation(f'MODP group {g}: prime differs from the RFC 3526 formula 2^n - 2^(n-64) - 1 + 2^64*(floor(2^(n-130)*pi) + c)', {},
                        signature={'component': 'dh:prime', 'group': g})
    groups = [19, 20, 21, 14] + ([15, 16, 17, 18] if tier == 'thorough' else [])
    tries = {19: 700 if tier == 'quick' else 4000, 20: 60, 21: 40, 14: 60 if tier == 'quick' else 1200, 15: 20, 16: 10, 17: 6, 18: 4}
    for g in groups:
        for _ in range(tries[g]):
            a, b = crypto.DiffieHellman.from_group(g), crypto.DiffieHellman.from_group(g)
            a.compute_secret(b.public_key)
            n += 1
            xa = a._private_key.private_numbers()
            xa = xa.x if hasattr(xa, 'x') else xa.private_value
            if g != 19 and _ > 3 and tier == 'quick' and g != 14:
                pass
            if len(a.public_key) != kdf_ref.dh_public_len(g) or bytes(a.public_key) != kdf_ref.dh_public(g, xa):
                v.violation(f'group {g}: public value is not the fixed-width big-endian encoding of g^x', {'len': len(a.public_key)},
                            signature={'component': 'dh:public', 'group': g})
                break
            ref = kdf_ref.dh_shared(g, xa, bytes(b.public_key))
            if bytes(a.shared_secret) != ref:
                v.violation(f'group {g}: shared secret differs from the independent computation (leading zero octets: {len(ref) - len(ref.lstrip(bytes(1)))})',
                            {'impl_len': len(a.shared_secret), 'ref_len': len(ref)}, signature={'component': 'dh:secret', 'group': g})
                break
            if ref[0] == 0:
                lead += 1
    # directed: for every group, a peer value chosen so that g^ir starts with a zero octet (RFC 7296 2.14: g^ir keeps the length of the
    # modulus / field element, leading zero octets included) - sampling alone meets this case once in 256 exchanges
    for g in [19, 20, 21, 14, 15] + ([16, 17, 18] if tier == 'thorough' else []):
        for rep in range(2 if tier == 'quick' else 6):
            a = crypto.DiffieHellman.from_group(g)
            forced = kdf_ref.dh_peer_forcing_leading_zero(g, bytes(a.public_key))
            if forced is None:
                raise common.MachineryError(f'no peer value forcing a leading zero octet found for group {g}')
            xa = a._private_key.private_numbers()
            xa = xa.x if hasattr(xa, 'x') else xa.private_value
            ref = kdf_ref.dh_shared(g, xa, forced[0])
            if ref[0] != 0:
                raise common.MachineryError(f'group {g}: the stepped search and the reference exponentiation disagree')
            a.compute_secret(forced[0])
            n += 1
            lead += 1
            if bytes(a.shared_secret) != ref:
                v.violation(f'group {g}: shared secret with leading zero octets differs from the fixed-width value of RFC 7296 2.14',
                            {'impl_len': len(a.shared_secret), 'ref_len': len(ref), 'peer_exponent': forced[1]},
                            signature={'component': 'dh:secret', 'group': g})
                break
    return n, lead


def nonce_lengths(v, kdf):
    """SKEYSEED / SK_* / KEYMAT for the extreme nonce lengths (16, 17, 255, 256 are what the payload class accepts / emits)."""
    n = 0
    for ln in (16, 17, 255):
        cfg = {'A': dict(ike_dh=['ecp256']), 'B': dict(ike_dh=['ecp256'])}
        for e in cfg:
            cfg[e].update(v6=False, ip_proto='tcp', peer_port=0)
        w_nonce = ln
        done, checks, nn, err = c01matrix.run_history(cfg, ['rekey_child_A', 'rekey_ike_B'], seed=ln - 16, kdf=kdf) if False else _hist(cfg, ln, kdf)
        n += 1
        if err is not None:
            v.violation(f'nonce length {ln}: {err}', {}, signature={'component': 'nonce:' + err.kind})
    return n


class SteerDh:
    """Environment steering: the responder's random DH key of every exchange is redrawn until g^ir starts with a zero octet (checked with the
    independent arithmetic), so that whole sessions - SKEYSEED, PFS KEYMAT, the rekeyed IKE_SA - run over secrets with leading zeros."""

    def __init__(self, limit=4000):
        self.limit, self.pending, self.steered = limit, {}, 0

    def __enter__(self):
        import crypto
        self.crypto, self.orig = crypto, crypto.DiffieHellman.from_group
        steer = self

        def from_group(group, *a, **k):
            g = int(group)
            obj = steer.orig(group, *a, **k)
            peer = steer.pending.pop(g, None)
            if peer is None:
                steer.pending[g] = bytes(obj.public_key)
                return obj
            for _ in range(steer.limit):
                x = obj._private_key.private_numbers()
                x = x.x if hasattr(x, 'x') else x.private_value
                if kdf_ref.dh_shared(g, x, peer)[0] == 0:
                    steer.steered += 1
                    return obj
                obj = steer.orig(group, *a, **k)
            return obj
        crypto.DiffieHellman.from_group = staticmethod(from_group)
        return self

    def __exit__(self, *exc):
        self.crypto.DiffieHellman.from_group = staticmethod(self.orig)


def leading_zero_sessions(v, kdf, tier):
    """Full sessions (initial exchanges, PFS CHILD_SA rekey, IKE_SA rekey) whose DH secrets all start with a zero octet."""
    n = steered = 0
    for grp in (['modp2048', 'ecp256'] if tier == 'quick' else ['modp2048', 'modp3072', 'ecp256', 'ecp384', 'ecp521']):
        cfg = {e: dict(ike_dh=[grp], child_dh=[grp], v6=False, ip_proto='tcp', peer_port=0) for e in 'AB'}
        with SteerDh() as st:
            done, checks, nn, err = _hist(cfg, 32, kdf)
        n += 1
        steered += st.steered
        if err is not None:
            v.violation(f'session over {grp} with DH secrets that start with a zero octet: {err}', {'steered_exchanges': st.steered},
                        signature={'component': 'dh:leadingzero:' + err.kind})
        elif st.steered < 2:
            raise common.MachineryError(f'{grp}: only {st.steered} exchanges could be steered to a leading zero octet')
    return n, steered


def _hist(cfg, nonce_len, kdf):
    import session
    from keysched import OracleError
    w = wd.World(opts_by_ep=cfg, opts={}, seed=nonce_len, nonce_len=nonce_len)
    s = session.Session(w, kdf=kdf)
    try:
        s.acquire('A')
        s.judge()
        s.rekey_child('B')
        s.judge()
        s.rekey_ike('A')
        n = s.judge()
        return [], s.oracle.checks, n, None
    except OracleError as ex:
        return [], s.oracle.checks, None, ex
    finally:
        w.close()


def rekey_multi_proposal(v, kdf):
    """An IKE_SA rekey request with several proposals, each with its own initiator SPI, of which not the first one is acceptable: the keys of the new IKE_SA
    are cut from prf+(SKEYSEED, Ni | Nr | SPIi | SPIr) with the SPIi of the proposal that was CHOSEN."""
    import probes
    import session
    import wire_ref as W
    import world as wd
    from keysched import OracleError
    n = 0
    for bad in ('encr', 'prf'):
        w = wd.World(seed=common.SEED)
        try:
            s = session.Session(w, kdf=kdf)
            s.acquire('A')
            a = w.sas('A')[0]
            a.rekey_ike_sa_at = w.now - 1
            real = W.dec_message(bytes(w.timer('A', a, 'check_rekey_ike_sa_timer')), probes.keys_of(a.my_crypto))
            good = next(p for p in real['inner'] if p['t'] == W.SA)['proposals'][0]
            first = dict(good, num=1, spi=b'\x58' * 8,
                         transforms=[dict(t, id=3, keylen=None) if (bad == 'encr' and t['type'] == 1) else (dict(t, id=99) if (bad == 'prf' and t['type'] == 2) else t) for t in good['transforms']])
            inner = [dict(p, proposals=[first, dict(good, num=2)]) if p['t'] == W.SA else p for p in real['inner']]
            req = probes.seal(a, 36, False, real['mid'], inner)
            res = w.dispatch('B', req, 'A')
            kind = s.oracle.exchange(bytes(req), bytes(res), 'A', 'B')
            n += 1
            if kind != 'rekey-ike':
                v.violation(f'an IKE_SA rekey whose second proposal is acceptable is not accepted ({kind})', {}, signature={'component': 'rekey-multi:refused'})
                continue
            new_b = next(x for x in w.sas('B') if x.state.name == 'ESTABLISHED' and bytes(x.my_spi) != bytes(w.sas('B')[0].my_spi) or x is w.sas('B')[-1])
            s.oracle.check_ike_keyring(new_b)
        except OracleError as ex:
            v.violation(f'IKE_SA rekey with two proposals (the second one chosen): {ex}', {'unacceptable_first': bad}, signature={'component': 'rekey-multi:' + ex.kind})
        except wd.Escape as ex:
            v.violation(f'IKE_SA rekey with two proposals: {ex}', {}, signature={'component': 'rekey-multi:escape'})
        finally:
            w.close()
    return n


def init_proposal_spi(v, kdf):
    """IKE_SA_INIT: SPIi of the exchange is the one in the HEADER.  A proposal of an IKE_SA_INIT request may carry an SPI field of its own (this implementation
    sends one; RFC 7296 3.3.1 says size 0) - whatever it holds, the responder keys the IKE_SA with the header's SPIi and answers to it."""
    import session
    import wire_ref as W
    import world as wd
    from keysched import OracleError
    n = 0
    for spi in (b'', b'EVILSPI!', b'\0' * 8):
        w = wd.World(seed=common.SEED)
        try:
            s = session.Session(w, kdf=kdf)
            m = W.dec_message(bytes(w.acquire('A')))
            pl = [dict(p, proposals=[dict(q, spi=spi) for q in p['proposals']]) if p['t'] == W.SA else p for p in m['payloads']]
            req = W.enc_message({'spi_i': m['spi_i'], 'spi_r': b'\0' * 8, 'xchg': 34, 'response': False, 'initiator': True, 'mid': 0}, pl)
            res = w.dispatch('B', req, 'A')
            n += 1
            if res is None or W.dec_header(bytes(res))['spi_i'] != m['spi_i']:
                v.violation(f'IKE_SA_INIT request whose proposal carries the SPI {spi!r}: the response is not addressed to the SPIi of the header', {},
                            signature={'component': 'init-spi:header'})
                continue
            s.oracle.exchange(bytes(req), bytes(res), 'A', 'B')
            s.oracle.check_ike_keyring(w.sas('B')[0])
        except OracleError as ex:
            v.violation(f'IKE_SA_INIT request whose proposal carries the SPI {spi!r}: {ex}', {}, signature={'component': 'init-spi:' + ex.kind})
        except wd.Escape as ex:
            v.violation(f'IKE_SA_INIT request whose proposal carries an SPI: {ex}', {}, signature={'component': 'init-spi:escape'})
        finally:
            w.close()
    return n


def run(tier, replay=None):
    v = common.Verdict('C04', tier, 'exploration')
    if replay:
        from checks import ikeprop
        return ikeprop.replay_file(v, replay)
    evals, distinct = c01matrix.run(v, tier, for_c04=True)          # every IKE suite incl. the rekeyed IKE_SA; ESP/AH, PFS histories
    kdf = c01matrix.KDF
    sizes(v, kdf.plans)
    n_pp = prfplus_lengths(v, kdf, tier)
    n_dh, lead = dh_groups(v, tier)
    n_nonce = nonce_lengths(v, kdf)
    n_lz, steered = leading_zero_sessions(v, kdf, tier)
    v.coverage['rekey_with_two_proposals'] = rekey_multi_proposal(v, kdf)
    v.coverage['init_proposals_with_an_spi'] = init_proposal_spi(v, kdf)
    # interleavings: crossing CREATE_CHILD_SA exchanges with PFS (each end answers the other's request while its own is outstanding) and the IKE_SA rekey
    # with a retry - every kernel record and every IKE key ring of the replayed Ike.tla behaviours is compared with the plan evaluation
    from checks import ikeprop
    ike_cov = dict(ikeprop.run(v, ['estab_pfs_same'] if tier == 'quick' else ['estab_pfs_same', 'estab_pfs', 'estab_rekey_ke'], limit=900 if tier == 'quick' else None,
                               owns=lambda mm: mm['component'] in ('keyslot', 'ikekeys')))
    for k in list(ike_cov):
        v.coverage.pop(k, None)
    m = v.coverage['matrix']
    v.coverage.update({
        'evaluations': evals + n_pp + n_dh + n_nonce + n_lz, 'distinct_nontrivial': distinct + n_pp,
        'rule': 'sessions: every supported (ENCR keylen, INTEG, PRF, DH) suite once with an IKE_SA rekey on top (quick: the four large MODP groups '
                'with one suite each) + seeded ESP/AH/PFS histories, all judged by the wire oracle evaluating the KeySchedule.tla plans; '
                'prf+ for output lengths 1..8*hash+1; DH: published primes/curves, fixed-width public values, shared secrets vs Python integers, incl. peer values forcing a leading zero octet, and whole sessions whose responder keys are redrawn until g^ir starts with a zero octet; '
                'distinct = distinct suites/configurations + distinct prf+ (prf, length) cases',
        'exhaustive': tier == 'thorough',
        'prfplus_cases': n_pp, 'dh_pairs': n_dh, 'dh_secrets_with_leading_zero_octet': lead, 'nonce_length_sessions': n_nonce, 'ike_tla_interleavings': {k: ike_cov[k] for k in ('states', 'transitions', 'traces_validated_against_impl', 'steps_compared')}, 'sessions_steered_to_leading_zero_secrets': n_lz, 'steered_dh_exchanges': steered,
        'samples': m['samples'][:1] + [{'plan_ike_example': kdf.plans['ike'][0]}]})
    v.assumptions += ['SHA-1/SHA-2 (hashlib), AES (OpenSSL) and the DH private scalars read off the cryptography key objects are trusted',
                      'TLC fixes structure, order, counters and slice boundaries (32-bit integers); numeric evaluation by the harness']
    return v.finish()
