"""C02 - no IKE_SA is established without a valid AUTH over the real exchange (spec/Auth.tla + a concrete man in the middle)."""
import os
import random
import shutil
import tempfile

import struct

import common
import kdf_ref
import probes
import session
import tlcgraph
import wire_ref as W
import world as wd
from keysched import OracleError

REWRITES = ('none', 'reflect', 'replay', 'swapid', 'method', 'flip')


def cfg(sign=True, cred_i=True, cred_r=True, dump=False):
    b = lambda x: 'TRUE' if x else 'FALSE'
    s = (f'SPECIFICATION Spec\nCONSTANTS\n SignInitMsg = {b(sign)}\n CredIOk = {b(cred_i)}\n CredROk = {b(cred_r)}\n'
         ' Msg34Rewrites = {"none", "reflect", "replay", "swapid", "method", "flip", "empty", "prefix", "extend", "pskempty", "pskid"}\n')
    if not dump:
        s += 'INVARIANT Agreement\nINVARIANT ResponderAgreement\nINVARIANT InitiatorAgreement\nINVARIANT NoInstallWithoutAuth\nINVARIANT NoKeyCompromise\n'
    else:
        s += 'ACTION_CONSTRAINT EdgeDump\n'
    return s + 'VIEW View\nCHECK_DEADLOCK FALSE\n'


def tlc(body):
    tmp = tempfile.mkdtemp(prefix='verif-auth-')
    try:
        path = os.path.join(tmp, 'a.cfg')
        open(path, 'w').write(body)
        return common.run_tlc('Auth.tla', cfg=path, timeout=600)
    finally:
        shutil.rmtree(tmp, ignore_errors=True)


def leaf_paths(g):
    out = {}
    for i, (f, a, dd, t) in enumerate(g.edges):
        out.setdefault(f, []).append(i)
    paths = []

    def walk(u, acc):
        nxt = out.get(u, [])
        if not nxt:
            paths.append(acc)
        for i in nxt:
            walk(g.edges[i][3], acc + [i])
    walk(0, [])
    return paths


class Mitm:
    """Active attacker between A (initiator) and B (responder): own DH scalars, own nonces; opens / re-seals IKE_AUTH only with keys it
    derives itself (independent key schedule) from values it legitimately knows."""
    XA1, XA2 = 0x1111111111, 0x2222222222

    def __init__(self, w, auth, old_auth=None):
        self.w = w
        self.old_auth = old_auth or b'\x5a' * 32
        self.view_i, self.view_r = {}, {}       # what each honest side saw: ni nr spii spir kei ker suite
        self.s1, self.s2 = set(), set()
        self.captured_auth_i = None

    @staticmethod
    def pl(msg, t):
        return next(p for p in msg['payloads'] if p['t'] == t)

    def msg1(self, data, S):
        m = W.dec_message(data)
        self.s1 = set(S)
        self.view_i.update(ni=self.pl(m, W.NONCE)['data'], kei=self.pl(m, W.KE)['data'], spii=m['spi_i'], req=bytes(data))
        if not S:
            self.view_r.update(ni=self.view_i['ni'], kei=self.view_i['kei'], spii=m['spi_i'], req=bytes(data))
            return bytes(data)
        spi_i = b'EVILSPII' if 'spii' in S else m['spi_i']
        pls = []
        for p in m['payloads']:
            p = dict(p)
            if p['t'] == W.NONCE and 'ni' in S:
                p['data'] = b'\xe1' * 32
            if p['t'] == W.KE and 'kei' in S:
                p['data'] = kdf_ref.dh_public(p['group'], self.XA1)
            if p['t'] == W.SA and 'offer' in S:
                prop = dict(p['proposals'][0])
                if getattr(self, 'offer_style', 'remove') == 'remove':
                    prop['transforms'] = [t for t in prop['transforms'] if not (t['type'] == 1 and t['keylen'] == 256)]
                else:
                    # the same reduction of the offer written differently: every transform stays, the preferred integrity transform gets an attribute
                    # "Key Length = 0" - to a receiver it is not that transform any more (3.3.5), although a careless re-serialisation would drop the attribute
                    first = next(t for t in prop['transforms'] if t['type'] == 3)
                    prop['transforms'] = [dict(t, raw_attrs=struct.pack('>HH', 0x8000 | 14, 0)) if t is first else t for t in prop['transforms']]
                p['proposals'] = [prop]
            pls.append(p)
        out = W.enc_message({'spi_i': spi_i, 'spi_r': m['spi_r'], 'xchg': 34, 'response': False, 'initiator': True, 'mid': 0}, pls)
        mm = W.dec_message(out)
        self.view_r.update(ni=self.pl(mm, W.NONCE)['data'], kei=self.pl(mm, W.KE)['data'], spii=spi_i, req=out)
        return out

    def msg2(self, data, S, chosen):
        m = W.dec_message(data)
        self.s2 = set(S)
        prop_r = self.pl(m, W.SA)['proposals'][0]
        self.view_r.update(nr=self.pl(m, W.NONCE)['data'], ker=self.pl(m, W.KE)['data'], spir=m['spi_r'], suite=prop_r, res=bytes(data))
        spi_r = b'EVILSPIR' if 'spir' in S else m['spi_r']
        pls = []
        for p in m['payloads']:
            p = dict(p)
            if p['t'] == W.NONCE and 'nr' in S:
                p['data'] = b'\xe2' * 32
            if p['t'] == W.KE and 'ker' in S:
                p['data'] = kdf_ref.dh_public(p['group'], self.XA2)
            if p['t'] == W.SA and chosen != 'keep':
                prop = dict(p['proposals'][0])
                prop['transforms'] = [({'type': 1, 'id': 3, 'keylen': None} if chosen == 'foreign' else dict(t, keylen=128)) if t['type'] == 1 else t for t in prop['transforms']]
                p['proposals'] = [prop]
            pls.append(p)
        changed = bool(S) or chosen != 'keep' or 'spii' in self.s1
        out = W.enc_message({'spi_i': self.view_i['spii'], 'spi_r': spi_r, 'xchg': 34, 'response': True, 'initiator': False, 'mid': 0}, pls) if changed else bytes(data)
        mm = W.dec_message(out)
        self.view_i.update(nr=self.pl(mm, W.NONCE)['data'], ker=self.pl(mm, W.KE)['data'], spir=spi_r, suite=self.pl(mm, W.SA)['proposals'][0], res=out)
        return out

    def keys(self, view, secret):
        tr = {t['type']: t for t in view['suite']['transforms']}
        return kdf_ref.ike_keys(tr[2]['id'], tr[3]['id'], tr[1]['keylen'], view['ni'], view['nr'], view['spii'], view['spir'], secret), tr[3]['id']

    def both_keysets(self):
        group = 19
        k_i, integ_i = self.keys(self.view_i, kdf_ref.dh_shared(group, self.XA2, self.view_i['kei']))     # attacker's KEr given to I, I's real KEi
        k_r, integ_r = self.keys(self.view_r, kdf_ref.dh_shared(group, self.XA1, self.view_r['ker']))     # attacker's KEi given to R, R's real KEr
        return (k_i, integ_i), (k_r, integ_r)

    def proxy_header(self, data, to_r):
        """Pass a protected datagram on, with the SPIs the receiver knows (any change breaks the checksum: that is the point)."""
        d = bytearray(data)
        d[0:8] = self.view_r['spii'] if to_r else self.view_i['spii']
        d[8:16] = self.view_r['spir'] if to_r else self.view_i['spir']
        return bytes(d)

    def reseal(self, data, to_r, rw):
        (k_i, integ_i), (k_r, integ_r) = self.both_keysets()
        src_keys, src_integ, dst_keys, dst_integ = (k_i, integ_i, k_r, integ_r) if to_r else (k_r, integ_r, k_i, integ_i)
        d = 'i' if to_r else 'r'       # direction of the message: sent by the initiator (msg 3) or by the responder (msg 4)
        m = W.dec_message(data, {'ke': src_keys['sk_e' + d], 'ka': src_keys['sk_a' + d], 'integ': src_integ})
        inner = []
        dview = self.view_r if to_r else self.view_i
        idp = next((p for p in m['inner'] if p['t'] == (W.IDI if to_r else W.IDR)), None)
        for p in m['inner']:
            p = dict(p)
            if p['t'] == W.AUTH and rw in ('pskempty', 'pskid') and idp is not None:
                # a shared-key AUTH over exactly the octets the receiver will reconstruct, keyed with a secret anybody knows: the empty string / the identity
                prf_id = next(t['id'] for t in dview['suite']['transforms'] if t['type'] == 2)
                octets = kdf_ref.signed_octets(prf_id, dview['req'] if to_r else dview['res'], dview['nr'] if to_r else dview['ni'],
                                               dst_keys['sk_pi' if to_r else 'sk_pr'], idp['id_type'], idp['data'])
                p['method'] = 2
                p['data'] = kdf_ref.psk_auth(prf_id, b'' if rw == 'pskempty' else bytes(idp['data']), octets)
            elif p['t'] == W.AUTH:
                if to_r:
                    self.captured_auth_i = dict(p)
                if rw == 'flip':
                    p['data'] = p['data'][:-1] + bytes([p['data'][-1] ^ 1])
                elif rw == 'empty':                 # authentication data cut to zero octets / to a proper prefix / extended
                    p['data'] = b''
                elif rw == 'prefix':
                    p['data'] = p['data'][:len(p['data']) // 2]
                elif rw == 'extend':
                    p['data'] = p['data'] + b'\0'
                elif rw == 'method':
                    p['method'] = 1 if p['method'] == 2 else 2
                elif rw == 'replay':
                    p['data'] = self.old_auth
                elif rw == 'reflect' and not to_r and self.captured_auth_i:
                    p = dict(self.captured_auth_i)
                elif rw == 'reflect':
                    p['data'] = bytes(reversed(p['data']))
            if p['t'] in (W.IDI, W.IDR) and rw == 'swapid':
                p['data'] = b'mallory@example.org'
            inner.append(p)
        view = self.view_r if to_r else self.view_i
        hdr = {'spi_i': view['spii'], 'spi_r': view['spir'], 'xchg': m['xchg'], 'response': m['response'], 'initiator': m['initiator'], 'mid': m['mid']}
        return W.enc_message(hdr, [], sk={'ke': dst_keys['sk_e' + d], 'ka': dst_keys['sk_a' + d], 'integ': dst_integ, 'iv': b'\x66' * 16, 'inner': inner})


def forge_auth_response(mitm, w, request, forge):
    """IKE_AUTH response of an attacker that completed the Diffie-Hellman exchange with the initiator itself and claims the responder's identity."""
    view = mitm.view_i
    k, integ = mitm.keys(view, kdf_ref.dh_shared(19, mitm.XA2, view['kei']))
    m = W.dec_message(request, {'ke': k['sk_ei'], 'ka': k['sk_ai'], 'integ': integ})
    rq = m['inner']
    ident = w.conf['A']['A-B']['peer_auth']['id'].encode()
    id_type = 3 if b'@' in ident else 2
    prf_id = next(t['id'] for t in view['suite']['transforms'] if t['type'] == 2)
    octets = kdf_ref.signed_octets(prf_id, view['res'], view['ni'], k['sk_pr'], id_type, ident)
    auth_i = next(p for p in rq if p['t'] == W.AUTH)
    auth = {'empty': (2, b''), 'random': (2, bytes(range(32))), 'pskempty': (2, kdf_ref.psk_auth(prf_id, b'', octets)),
            'pskid': (2, kdf_ref.psk_auth(prf_id, ident, octets)), 'replay': (auth_i['method'], mitm.old_auth), 'rsagarbage': (1, b'\x17' * 256),
            'copyi': (auth_i['method'], auth_i['data']), 'noauth': None,
            # positive control of the harness only: the credential the attacker does not have
            'control-with-the-real-psk': (2, kdf_ref.psk_auth(prf_id, str(w.conf['A']['A-B']['peer_auth'].get('psk', '')).encode(), octets))}[forge]
    sa = dict(next(p for p in rq if p['t'] == W.SA))
    prop = dict(sa['proposals'][0], spi=b'\xee\xee\xee\x01')
    seen, keep = set(), []
    for t in prop['transforms']:
        if t['type'] not in seen:
            seen.add(t['type'])
            keep.append(t)
    prop['transforms'] = keep
    inner = [{'t': W.IDR, 'id_type': id_type, 'data': ident}]
    if auth is not None:
        inner.append({'t': W.AUTH, 'method': auth[0], 'data': auth[1]})
    inner += [dict(sa, proposals=[prop])] + [dict(p) for p in rq if p['t'] in (W.TSI, W.TSR) or (p['t'] == W.NOTIFY and p['ntype'] == 16391)]
    hdr = {'spi_i': view['spii'], 'spi_r': view['spir'], 'xchg': 35, 'response': True, 'initiator': False, 'mid': m['mid']}
    return W.enc_message(hdr, [], sk={'ke': k['sk_er'], 'ka': k['sk_ar'], 'integ': integ, 'iv': b'\x67' * 16, 'inner': inner})


_TEMPLATE = {}


def auth_request_template(auth):
    """SA / TSi / TSr / mode payloads of an honest IKE_AUTH request in the default configuration (the attacker copies what an initiator would ask for)."""
    if auth not in _TEMPLATE:
        w = wd.World(seed=77, opts={'ike_encr': ['aes256', 'aes128'], 'auth': auth})
        try:
            log = w.establish('A')
            a = w.sas('A')[0]
            m = W.dec_message(log[2][1], probes.keys_of(a.my_crypto))
            _TEMPLATE[auth] = [dict(p) for p in m['inner'] if p['t'] in (W.SA, W.TSI, W.TSR) or (p['t'] == W.NOTIFY and p['ntype'] == 16391)]
        finally:
            w.close()
    return [dict(p) for p in _TEMPLATE[auth]]


class FakeInitiator:
    """An attacker that starts IKE_SA_INIT itself (own DH scalar and nonce) and so owns the keys of the half-open IKE_SA at the responder."""
    X = 0x3333333333

    def __init__(self, w, old_auth):
        self.w, self.old_auth = w, old_auth
        self.spi_i, self.ni = b'EVILINIT', b'\xe3' * 32

    def msg1(self):
        prop = {'num': 1, 'proto': 1, 'spi': b'', 'transforms': [{'type': 1, 'id': 12, 'keylen': 256}, {'type': 3, 'id': 12, 'keylen': None},
                                                              {'type': 2, 'id': 5, 'keylen': None}, {'type': 4, 'id': 19, 'keylen': None}]}
        self.req = W.enc_message({'spi_i': self.spi_i, 'spi_r': b'\0' * 8, 'xchg': 34, 'response': False, 'initiator': True, 'mid': 0},
                                 [{'t': W.SA, 'proposals': [prop]}, {'t': W.KE, 'group': 19, 'data': kdf_ref.dh_public(19, self.X)}, {'t': W.NONCE, 'data': self.ni}])
        return self.req

    def msg3(self, res, forge, auth):
        m = W.dec_message(bytes(res))
        pl = {p['t']: p for p in m['payloads']}
        if W.SA not in pl or W.KE not in pl:
            raise common.MachineryError(f'the responder did not answer the attacker\'s IKE_SA_INIT with SA/KE/Nonce: {[p["t"] for p in m["payloads"]]}')
        tr = {t['type']: t for t in pl[W.SA]['proposals'][0]['transforms']}
        nr, spi_r = pl[W.NONCE]['data'], m['spi_r']
        k = kdf_ref.ike_keys(tr[2]['id'], tr[3]['id'], tr[1]['keylen'], self.ni, nr, self.spi_i, spi_r, kdf_ref.dh_shared(19, self.X, pl[W.KE]['data']))
        prf_id, integ = tr[2]['id'], tr[3]['id']
        ident = self.w.conf['B']['B-A']['peer_auth']['id'].encode()
        id_type = 3 if b'@' in ident else 2
        octets = kdf_ref.signed_octets(prf_id, self.req, nr, k['sk_pi'], id_type, ident)
        tmpl = auth_request_template(auth)
        for p in tmpl:
            if p['t'] == W.SA:
                p['proposals'] = [dict(p['proposals'][0], spi=b'\xee\xee\xee\x02')]
        hdr = {'spi_i': self.spi_i, 'spi_r': spi_r, 'response': False, 'initiator': True, 'mid': 1}
        seal = lambda xchg, inner: W.enc_message(dict(hdr, xchg=xchg), [], sk={'ke': k['sk_ei'], 'ka': k['sk_ai'], 'integ': integ, 'iv': b'\x68' * 16, 'inner': inner})
        if forge == 'ccsa-instead':
            return seal(36, [p for p in tmpl if p['t'] == W.SA] + [{'t': W.NONCE, 'data': b'\xe4' * 32}] + [p for p in tmpl if p['t'] != W.SA])
        if forge == 'info-instead':
            return seal(37, [])
        a = {'empty': (2, b''), 'random': (2, bytes(range(32))), 'pskempty': (2, kdf_ref.psk_auth(prf_id, b'', octets)), 'pskid': (2, kdf_ref.psk_auth(prf_id, ident, octets)),
             'replay': (2 if auth == 'psk' else 1, self.old_auth), 'rsagarbage': (1, b'\x17' * 256), 'copyi': (2, kdf_ref.psk_auth(prf_id, b'alice', octets)), 'noauth': None,
             'control-with-the-real-psk': (2, kdf_ref.psk_auth(prf_id, str(self.w.conf['B']['B-A']['peer_auth'].get('psk', '')).encode(), octets))}[forge]
        inner = [{'t': W.IDI, 'id_type': id_type, 'data': ident}] + ([{'t': W.AUTH, 'method': a[0], 'data': a[1]}] if a else []) + tmpl
        return seal(35, inner)


# "Another secret" of Auth.tla (CredIOk / CredROk = FALSE) is instantiated by secrets at every distance from the right one: unrelated, and
# near misses of a LONG secret (longer than the key / block size of every prf) that agree with it on a prefix, on a suffix, or are one octet longer / shorter
NEAR = ('other', 'tail', 'head', 'extend', 'truncate', 'blank')


def near_secret(right, kind):
    long = (right * 12)[:100]
    return long, {'other': 'a-completely-wrong-psk', 'tail': long[:-4] + 'XXXX', 'head': 'XXXX' + long[4:], 'extend': long + 'x',
                  'truncate': long[:-1], 'blank': long + ' '}[kind]


def near_ok(nears):
    return tuple(nears) == ('other',)


def run_attack(actions, leaf, cred_i, cred_r, auth, seed, old_auth, r_variant=None, near='other', offer_style='remove', cookie=False):
    opts = {'ike_encr': ['aes256', 'aes128'], 'ike_integ': ['sha256', 'sha1'], 'auth': auth}
    auth_request_template(auth)          # (its own world: before this one is made the current one)
    w = wd.World(opts=opts, seed=seed, start=False)
    if not cred_i:      # the responder's idea of the initiator's credential / identity is wrong
        if auth == 'psk':
            right, wrong = near_secret(w.conf['A']['A-B']['my_auth']['psk'], near)
            if near != 'other':
                w.conf['A']['A-B']['my_auth']['psk'] = right
            w.conf['B']['B-A']['peer_auth']['psk'] = wrong
        else:
            w.conf['B']['B-A']['peer_auth']['pubkey'] = wd.rsa_pems()['X']['pub']
    if not cred_r:
        if (r_variant == 'id') if r_variant else seed % 2:
            w.conf['A']['A-B']['peer_auth']['id'] = 'somebody.else.example.org'
        elif auth == 'psk':
            right, wrong = near_secret(w.conf['B']['B-A']['my_auth']['psk'], near)
            if near != 'other':
                w.conf['B']['B-A']['my_auth']['psk'] = right
            w.conf['A']['A-B']['peer_auth']['psk'] = wrong
        else:
            w.conf['A']['A-B']['peer_auth']['pubkey'] = wd.rsa_pems()['X']['pub']
    for e in 'AB':
        w.start(e)
    mitm = Mitm(w, auth, old_auth)
    mitm.offer_style = offer_style
    trace = []
    try:
        cur = bytes(w.acquire('A'))
        for a in actions:
            name = a['a']
            trace.append({k: v for k, v in a.items()})
            if cur is None:
                break
            if name == 'ImpIMsg1':
                fake = FakeInitiator(w, old_auth)
                cur = w.dispatch('B', fake.msg1(), 'A')
            elif name == 'ImpIMsg3':
                cur = w.dispatch('B', fake.msg3(bytes(cur), a['forge'], auth), 'A')
            elif name == 'ImpMsg2':
                res = w.dispatch('B', mitm.msg1(cur, []), 'A')         # the real responder only serves as a template for the message format
                cur = w.dispatch('A', mitm.msg2(bytes(res), ['nr', 'ker', 'spir'], 'keep'), 'B')
            elif name == 'ImpMsg4':
                cur = w.dispatch('A', forge_auth_response(mitm, w, bytes(cur), a['forge']), 'B')
            elif name == 'Msg1':
                if cookie:
                    # the responder is under load: the first request only draws a COOKIE, the initiator repeats it with the cookie in front - and THAT message
                    # is message 1 of the exchange (it is what is rewritten, and what AUTH must cover)
                    w.ctl['B'].cookie_threshold = 0
                    ck = w.dispatch('B', cur, 'A')
                    cur = w.dispatch('A', ck, 'B')
                    if cur is None or W.dec_message(bytes(cur))['payloads'][0]['t'] != W.NOTIFY:
                        raise common.MachineryError('the cookie round trip of the attack harness did not take place')
                genuine = bytes(cur)
                cur = w.dispatch('B', mitm.msg1(cur, a['s']), 'A')
                if a.get('replay'):
                    w.dispatch('B', genuine, 'A')          # the genuine request, late: a second IKE_SA_INIT request with the same SPI (its answer is discarded)
            elif name == 'Msg2':
                cur = w.dispatch('A', mitm.msg2(bytes(cur), a['s'], a['chosen']), 'B')
            elif name == 'Msg3':
                fwd = mitm.reseal(bytes(cur), True, a['rw']) if a['reseal'] else mitm.proxy_header(bytes(cur), True)
                cur = w.dispatch('B', fwd, 'A')
            elif name in ('Msg4', 'Msg4Fail'):
                can = a.get('reseal', False) or (name == 'Msg4Fail' and 'kei' in mitm.s1 and 'ker' in mitm.s2)
                fwd = mitm.reseal(bytes(cur), False, a.get('rw', 'none')) if can else mitm.proxy_header(bytes(cur), False)
                cur = w.dispatch('A', fwd, 'B')
    except wd.Escape as ex:
        return None, f'escape: {ex}', trace
    finally:
        w.close()
    est = lambda e: any(s.state.name == 'ESTABLISHED' for s in w.sas(e))
    inst = lambda e: any(r['kind'] == 'NEWSA' for r in w.kernel[e].requests)
    got = {'stI': est('A'), 'stR': est('B'), 'instI': inst('A'), 'instR': inst('B')}
    want = {'stI': leaf['stI'] == 'ESTABLISHED', 'stR': leaf['stR'] == 'ESTABLISHED', 'instI': 'I' in leaf['installed'], 'instR': 'R' in leaf['installed']}
    return got, want, trace


def old_session_auth():
    """AUTH payload of an earlier, unrelated session (for the replay rewrite)."""
    w = wd.World(seed=4242)
    try:
        log = w.establish('A')
        a = w.sas('A')[0]
        m = W.dec_message(log[2][1], probes.keys_of(a.my_crypto))
        return next(p for p in m['inner'] if p['t'] == W.AUTH)['data']
    finally:
        w.close()


def forged_invalid_ke_downgrade(v):
    """Proposal downgrade through the one unauthenticated answer the initiator acts upon: the attacker answers message 1 itself with N(INVALID_KE_PAYLOAD, g)
    naming the WEAKER of the two groups both ends are configured with, and relays everything afterwards untouched.  Whenever both ends come up they must have
    agreed on what they would have agreed on without the attacker (the retry repeats the full offer, RFC 7296 1.2 / 2.7, and the responder insists on its
    choice); a handshake that fails is fine.  Both group orders, both authentication methods."""
    import struct
    n = 0

    def group_of(sa):
        return [t.id.value if hasattr(t.id, 'value') else int(t.id) for t in sa.chosen_proposal.transforms if int(getattr(t.type, 'value', t.type)) == 4]

    for auth in ('psk', 'rsa'):
        for groups, weak in ((['ecp521', 'ecp256'], 19), (['ecp256', 'modp2048'], 14), (['ecp521', 'ecp384', 'ecp256'], 19)):
            want = None
            for attack in (False, True):
                w = wd.World(opts={'ike_dh': groups, 'auth': auth}, seed=common.SEED)
                try:
                    cur, at = bytes(w.acquire('A')), 'A'
                    if attack:
                        h = W.dec_header(cur)
                        forged = W.enc_message({'spi_i': h['spi_i'], 'spi_r': b'\0' * 8, 'xchg': W.IKE_SA_INIT, 'response': True, 'initiator': False, 'mid': 0},
                                               [{'t': W.NOTIFY, 'proto': 0, 'spi': b'', 'ntype': 17, 'data': struct.pack('>H', weak)}])
                        cur = w.dispatch('A', forged, 'B')
                        if cur is None:
                            n += 1
                            continue                     # the initiator does not follow the hint at all: nothing to downgrade
                        cur = bytes(cur)
                    while cur is not None:
                        nxt = w.peer_of(at)
                        cur, at = w.dispatch(nxt, cur, at), nxt
                    up = {e: [x for x in w.sas(e) if x.state.name == 'ESTABLISHED'] for e in 'AB'}
                    n += 1
                    if not attack:
                        if not (up['A'] and up['B']):
                            raise common.MachineryError(f'the control handshake with groups {groups} ({auth}) did not complete')
                        want = group_of(up['A'][0])
                        continue
                    if up['A'] and up['B']:
                        got = (group_of(up['A'][0]), group_of(up['B'][0]))
                        if got != (want, want):
                            v.violation(f'forged INVALID_KE_PAYLOAD naming group {weak} in answer to message 1 ({auth}, configured groups {groups} on both ends): both ends '
                                        f'come up on DH group {got[0]} / {got[1]}, without the attacker they agree on {want} - a downgrade that ends in establishment',
                                        {'groups': groups, 'weak': weak, 'auth': auth}, signature={'component': 'downgrade:invalid-ke', 'auth': auth})
                except wd.Escape as ex:
                    v.violation(f'forged INVALID_KE_PAYLOAD downgrade ({auth}, {groups}): {ex}', {}, signature={'component': 'downgrade:escape'})
                finally:
                    w.close()
    v.coverage['forged_invalid_ke_downgrade_runs'] = n


def rejecting_responder_without_credential(v):
    """The responder may turn down the first CHILD_SA and keep the IKE_SA (RFC 7296 1.2) - but the IKE_SA is established at the initiator only if IDr and AUTH of
    that very response verify.  A responder that does NOT hold the configured credential (wrong secret / another identity / another key) and answers IKE_AUTH
    with NO_PROPOSAL_CHOSEN or TS_UNACCEPTABLE for the CHILD_SA: failure at the initiator, never establishment (`Auth.tla` InitiatorAgreement: the outcome does
    not depend on what else the fourth message carries)."""
    n = 0
    for auth in ('psk', 'rsa'):
        for reject, by_ep in (('NO_PROPOSAL_CHOSEN', {'A': {'child_integ': ['sha1']}, 'B': {'child_integ': ['sha512']}}),
                              ('TS_UNACCEPTABLE', {'A': {'mode': 'tunnel'}, 'B': {'mode': 'transport'}})):
            for wrong in ('credential', 'identity', None):
                w = wd.World(opts={'auth': auth}, opts_by_ep=by_ep, seed=common.SEED, start=False)
                if wrong == 'credential' and auth == 'psk':
                    w.conf['A']['A-B']['peer_auth']['psk'] = 'not-the-secret-of-bob-0000'
                elif wrong == 'credential':
                    w.conf['A']['A-B']['peer_auth']['pubkey'] = wd.rsa_pems()['X']['pub']
                elif wrong == 'identity':
                    w.conf['A']['A-B']['peer_auth']['id'] = 'somebody.else.example.org'
                for e in 'AB':
                    w.start(e)
                try:
                    m, cur, last = w.acquire('A'), 'A', None
                    while m is not None:
                        nxt = w.peer_of(cur)
                        last, m, cur = (bytes(m) if cur == 'B' else last), w.dispatch(nxt, m, cur), nxt
                    n += 1
                    import probes
                    kinds = []
                    if last is not None and w.sas('B') and w.sas('B')[0].my_crypto is not None:
                        try:
                            kinds = [W.notify_name(p['ntype']) for p in W.dec_message(last, probes.keys_of(w.sas('B')[0].my_crypto))['inner'] if p['t'] == W.NOTIFY and p['ntype'] < 16384]
                        except Exception:
                            kinds = []
                    up = [x.state.name for x in w.sas('A')]
                    if wrong is None:
                        if kinds != [reject] or up != ['ESTABLISHED']:
                            raise common.MachineryError(f'control ({auth}, {reject}): the genuine responder answered {kinds}, initiator {up}')
                        continue
                    if reject not in kinds:
                        raise common.MachineryError(f'the responder without the {wrong} did not answer IKE_AUTH with {reject} ({auth}): {kinds}')
                    if 'ESTABLISHED' in up or any(r['kind'] == 'NEWSA' for r in w.kernel['A'].requests):
                        v.violation(f'a responder with the wrong {wrong} ({auth}) that answers IKE_AUTH with {reject} for the CHILD_SA: the initiator marks the IKE_SA {up} - '
                                    'established without a valid AUTH', {'auth': auth, 'reject': reject, 'wrong': wrong}, signature={'component': 'reject-without-auth', 'wrong': wrong})
                except wd.Escape as ex:
                    v.violation(f'rejecting responder without credential ({auth}, {reject}, {wrong}): {ex}', {}, signature={'component': 'reject-without-auth', 'wrong': 'escape'})
                finally:
                    w.close()
    v.coverage['rejecting_responder_runs'] = n


def run(tier, replay=None):
    v = common.Verdict('C02', tier, 'model_checking')
    rnd = random.Random(common.SEED)
    cov = {'states': 0, 'transitions': 0, 'traces_validated_against_impl': 0, 'configs': {}, 'samples': []}
    # the design: RFC octets verify all properties; the weakened protocol must exhibit the downgrade attack (vacuity control)
    res = tlc(cfg(sign=False))
    if 'ResponderAgreement' not in res.violated and 'Agreement' not in res.violated:
        raise common.MachineryError('Auth.tla: weakening AUTH (not covering the signer\'s IKE_SA_INIT message) does not produce the downgrade attack - the model is vacuous')
    old_auth = old_session_auth()
    # vacuity control of the impersonation harness: the same forged response, keyed with the real shared secret, IS accepted
    got, want, _ = run_attack([{'a': 'ImpMsg2'}, {'a': 'ImpMsg4', 'forge': 'control-with-the-real-psk'}], {'stI': 'DELETED', 'stR': 'NONE', 'installed': []}, True, True, 'psk',
                              common.SEED, old_auth)
    if not (got and got['stI'] and got['instI']):
        # the harness's key schedule and AUTH computation are exercised by every other comparison of this check (the monitor recomputes the AUTH payloads of
        # real handshakes): an initiator that refuses a response authenticated exactly as RFC 7296 2.15 says verifies under something else than the configured credential
        v.violation(f'a response that an independent implementation authenticated with the responder\'s configured secret is refused by the initiator ({got}): '
                    'it does not verify under the configured credential of the configured peer', {'got': got}, signature={'component': 'control:initiator-refuses-the-real-credential'})
        return v.finish()
    got, want, _ = run_attack([{'a': 'ImpIMsg1'}, {'a': 'ImpIMsg3', 'forge': 'control-with-the-real-psk'}], {'stI': 'INIT_REQ_SENT', 'stR': 'DELETED', 'installed': []}, True, True, 'psk',
                              common.SEED, old_auth)
    if not (got and got['stR'] and got['instR']):
        v.violation(f'a request that an independent implementation authenticated with the initiator\'s configured secret is refused by the responder ({got}): '
                    'it does not verify under the configured credential of the configured peer', {'got': got}, signature={'component': 'control:responder-refuses-the-real-credential'})
        return v.finish()
    outcomes = {}
    for cred_i, cred_r in ((True, True), (False, True), (True, False), (False, False)):
        res = tlc(cfg(cred_i=cred_i, cred_r=cred_r))
        common.tlc_must_pass(res, f'Auth.tla CredIOk={cred_i} CredROk={cred_r}')
        cov['states'] += res.distinct
        cov['transitions'] += res.generated
        g = tlcgraph.dump('Auth.tla', cfg(cred_i=cred_i, cred_r=cred_r, dump=True), 'auth', {}, lambda st: True)
        g.full_sources = True
        paths = leaf_paths(g)
        def changes(p):
            acts = [g.edges[i][1] for i in p]
            return sum(len(a.get('s', [])) + (a.get('chosen', 'keep') != 'keep') + (a.get('rw', 'none') != 'none') for a in acts)
        if True:
            def dh_mitm_single(p):
                # the full Diffie-Hellman man in the middle (both KE values substituted, nothing else) with at most one AUTH/ID rewrite
                acts = [g.edges[i][1] for i in p]
                subs = [tuple(sorted(a.get('s', []))) for a in acts if a['a'] in ('Msg1', 'Msg2')]
                return (subs[:2] == [('kei',), ('ker',)] and all(a.get('chosen', 'keep') == 'keep' for a in acts)
                        and sum(a.get('rw', 'none') != 'none' for a in acts) <= 1)
        if tier == 'quick':
            few = [p for p in paths if changes(p) <= 1 or dh_mitm_single(p)]   # the unmodified exchange, every single rewrite, every rewrite by the DH man in the middle: always
            rest = [p for p in paths if not (changes(p) <= 1 or dh_mitm_single(p))]
            paths = few + rnd.sample(rest, min(len(rest), 240 if (cred_i and cred_r) else 50))
        n = 0
        for pi, p in enumerate(paths):
            actions = [g.edges[i][1] for i in p]
            leaf = g.states[g.edges[p[-1]][3]]
            for auth in (('psk', 'rsa') if (tier == 'thorough' or pi % 7 == 0 or dh_mitm_single(p) or any(g.edges[i][1]['a'].startswith('Imp') for i in p)) else ('psk',)):
              # what the initiator holds about the responder is wrong in one of two ways: another identity, or another secret / key for the right identity
              for r_variant in ((None,) if cred_r else ('id', 'secret')):
               # how wrong the wrong secret is: every kind of near miss for the unmodified exchange, one kind (in turn) for every attack path
               nears = ('other',) if (cred_i and cred_r) or auth != 'psk' else (NEAR if changes(p) == 0 else (NEAR[pi % len(NEAR)],))
               # how the reduced offer is written on the wire: the strong transform removed, or masked by an attribute that a re-serialisation would drop
               styles = ('remove', 'mask') if any(x['a'] == 'Msg1' and 'offer' in x.get('s', []) for x in actions) else ('remove',)
               # ... and whether message 1 is the first request or the one repeated with a COOKIE (rewrites that keep SPI and nonce, which the cookie binds)
               cookies = (False, True) if any(x['a'] == 'Msg1' and set(x.get('s', [])) <= {'offer'} and not x.get('replay') for x in actions) and near_ok(nears) else (False,)
               for near, style, ck in [(n_, s_, c_) for n_ in nears for s_ in styles for c_ in cookies]:
                got, want, trace = run_attack(actions, leaf, cred_i, cred_r, auth, common.SEED + pi, old_auth, r_variant=r_variant, near=near, offer_style=style, cookie=ck)
                if ck:
                    trace = trace + [{'a': 'message-1-is-the-cookie-retry', 'forge': 'cookie'}]
                if near != 'other':
                    trace = trace + [{'a': 'wrong-secret', 'forge': near}]
                if style != 'remove':
                    trace = trace + [{'a': 'offer-written-as', 'forge': style}]
                n += 1
                key = (tuple(sorted(want.items())) if isinstance(want, dict) else want)
                outcomes[str(want)] = outcomes.get(str(want), 0) + 1
                if got is None:
                    v.violation(f'man in the middle {trace}: {want}', {'trace': trace}, signature={'component': 'mitm:escape'})
                elif got != want:
                    worse = (got['stI'] and not want['stI']) or (got['stR'] and not want['stR']) or (got['instI'] and not want['instI']) or (got['instR'] and not want['instR'])
                    v.violation(f'man in the middle ({auth}, CredIOk={cred_i}, CredROk={cred_r}) {[(t["a"], t.get("s"), t.get("chosen"), t.get("rw") or t.get("forge")) for t in trace]}: '
                                f'outcome {got}, specification {want}', {'trace': trace, 'got': got, 'want': want},
                                signature={'component': 'mitm:established-or-installed' if worse else 'mitm:fails-where-spec-succeeds'})
                if len(cov['samples']) < 2 and len(trace) >= 3 and trace[0].get('s'):
                    cov['samples'].append({'attack': trace, 'outcome': got, 'auth': auth})
        cov['configs'][f'CredIOk={cred_i},CredROk={cred_r}'] = {'distinct_states': res.distinct, 'attack_paths': len(paths), 'executed': n}
        cov['traces_validated_against_impl'] += n
    cov['outcomes'] = outcomes
    # the monitor: every AUTH payload of unmodified handshakes recomputed from the wire octets, for each PRF and both methods
    n_auth = 0
    for prf in ('sha1', 'sha256', 'sha512'):
        for auth in ('psk', 'rsa'):
            w = wd.World(opts={'ike_prf': [prf], 'auth': auth}, seed=common.SEED)
            try:
                s = session.Session(w)
                s.acquire('A')
                s.judge()
                n_auth += s.oracle.checks['auth']
            except OracleError as ex:
                v.violation(f'handshake ({prf}, {auth}): {ex}', {}, signature={'component': 'auth:oracle', 'kind': ex.kind})
            finally:
                w.close()
    cov['auth_payloads_recomputed'] = n_auth
    v.coverage.update(cov)
    v.assumptions += ['attacker capabilities: replace any field of messages 1/2 (own DH scalars, nonces), proxy SPIs, open / re-seal IKE_AUTH only with keys derived by an '
                      'independent key schedule from values it owns; meaning-preserving rewrites (observation O-1) are not part of the menu',
                      'ecp256 only for the substituted KE values']
    forged_invalid_ke_downgrade(v)
    rejecting_responder_without_credential(v)
    return v.finish()
