"""C05 - wire encoding matches RFC 7296 section 3 and round-trips (spec/Wire.tla vectors)."""
import copy
import json
import random

import common
import wire_ref as W
import wirevec as V
from wirevec import M


def expressible(ps):
    return all(p['t'] in V.KNOWN and p['t'] != 46 for p in ps)


def expected_parse(ps):
    """What RFC 7296 3.2 says a receiver sees: unknown non-critical payloads are skipped, unknown critical ones rejected."""
    if any(p['t'] not in V.KNOWN and p['critical'] for p in ps):
        return 'critical', None
    return 'ok', [p for p in ps if p['t'] in V.KNOWN]


def leaves(p, path=()):
    """(path, value) of every decoded field of an abstract payload."""
    out = []
    for k, x in p.items():
        if k in ('t',):
            continue
        if isinstance(x, list) and x and isinstance(x[0], dict):
            for i, y in enumerate(x):
                out += leaves(y, path + (k, i))
        elif isinstance(x, list) and x and isinstance(x[0], list):
            for i, y in enumerate(x):
                out.append((path + (k, i), y))
        else:
            out.append((path + (k,), x))
    return out


def mutate_leaf(p, path):
    """A copy of abstract payload p with the leaf at `path` changed to another valid value (None if not applicable)."""
    q = copy.deepcopy(p)
    cur = q
    for k in path[:-1]:
        cur = cur[k]
    old = cur[path[-1]]
    name = path[-1] if isinstance(path[-1], str) else path[-2]
    if isinstance(old, bool):
        cur[path[-1]] = not old
    elif isinstance(old, int):
        new = {'keylen': 192 if old else 128, 'type': old, 'ts_type': old, 'num': old + 1, 'sport': (old + 1) % 65536, 'eport': (old - 1) % 65536,
               'group': 20 if old != 20 else 21, 'id': old + 1, 'method': 3 if old != 3 else 2, 'id_type': old, 'ntype': old + 1,
               'proto': {0: 1, 1: 2, 2: 3, 3: 2, 6: 17, 17: 6}.get(old, old)}.get(name, old + 1)
        if new == old:
            return None
        cur[path[-1]] = new
    elif isinstance(old, list):
        if not old:
            return None
        new = list(old)
        new[-1] = (new[-1] + 1) % 256
        cur[path[-1]] = new
    else:
        return None
    return q


def run(tier, replay=None):
    v = common.Verdict('C05', tier, 'exploration')
    modes = ['singles', 'pairs']
    msgs = []
    for mode in modes:
        msgs += V.vectors(mode)['msgs']
    rnd = random.Random(common.SEED)
    if tier == 'quick':
        singles = [m for m in msgs if len(m['ps']) <= 1]
        pairs = [m for m in msgs if len(m['ps']) == 2]
        msgs = singles + rnd.sample(pairs, min(1500, len(pairs)))
    n = {'encode': 0, 'parse': 0, 'idempotent': 0, 'in_sk': 0, 'mixed': 0, 'dump': 0, 'dump_fields': 0}
    distinct = set()
    samples = []
    for vec in msgs:
        h, ps, want = vec['h'], vec['ps'], bytes(vec['b'])
        distinct.add(json.dumps([h, ps], sort_keys=True))
        # (0) the harness' own reference encoder agrees with the specification (keeps wire_ref honest for the other checks)
        # (1) serialisation = the RFC layout
        if expressible(ps):
            try:
                got = bytes(V.build_message(h, [V.build_payload(p) for p in ps]).to_bytes())
            except Exception as ex:       # noqa: B902 - the library refuses to build / serialise content that RFC 7296 section 3 allows
                v.violation(f'a message that RFC 7296 allows cannot be built or serialised with the payload classes: {type(ex).__name__}: {ex}',
                            {'h': h, 'ps': [{k: (x if k != 'data' else f'<{len(x)} octets>') for k, x in p.items()} for p in ps]},
                            signature={'component': 'encode:raises', 'exception': type(ex).__name__, 'types': str(sorted({p['t'] for p in ps}))})
                continue
            n['encode'] += 1
            if got != want:
                v.violation(f'to_bytes differs from the RFC 7296 layout for payloads {[p["t"] for p in ps]} / header {h["xchg"]},{h["major"]}.{h["minor"]}',
                            {'h': h, 'ps': ps, 'expected': want.hex(), 'observed': got.hex()},
                            signature={'component': 'encode', 'where': ('critical-bit' if any(p['critical'] for p in ps) else 'payload:' + str(sorted({p['t'] for p in ps})[0])) if got[:28] == want[:28] else 'header'})
        # (2) parsing yields the content again; chain rules of 3.2
        kind, msg, _ = V.counted_parse(want)
        verdict, exp = expected_parse(ps)
        n['parse'] += 1
        if verdict == 'critical':
            if kind != 'critical':
                v.violation(f'unknown critical payload not rejected as such ({kind})', {'ps': ps}, signature={'component': 'parse:critical', 'got': kind})
            continue
        if kind != 'ok':
            v.violation(f'a well-formed message is rejected: {kind} {msg}', {'h': h, 'ps': ps, 'b': want.hex()},
                        signature={'component': 'parse:reject', 'types': str(sorted({p['t'] for p in ps}))})
            continue
        got_h, got_ps = V.summarize_header(msg), [V.summarize_payload(p) for p in msg.payloads]
        if got_h != h or got_ps != exp:
            v.violation(f'parse does not yield the same content for payloads {[p["t"] for p in ps]}', {'expected': [h, exp], 'observed': [got_h, got_ps]},
                        signature={'component': 'parse:content', 'types': str(sorted({p['t'] for p in ps})) if got_h == h else 'header'})
            continue
        # (3) serialise-after-parse is idempotent
        b2 = bytes(msg.to_bytes())
        k2, m2, _ = V.counted_parse(b2)
        n['idempotent'] += 1
        if k2 != 'ok' or bytes(m2.to_bytes()) != b2 or (expressible(ps) and b2 != want):
            v.violation('serialise-after-parse is not idempotent', {'b': want.hex(), 'b2': b2.hex()}, signature={'component': 'idempotent'})
        # (4) the same payload list inside an encrypted payload
        if expressible(ps) and (len(ps) <= 1 or n['in_sk'] < (400 if tier == 'quick' else 10 ** 9)):
            cr, keys = V.make_crypto(256 if n['in_sk'] % 2 else 128, (2, 12, 14)[n['in_sk'] % 3])
            hh = dict(h, xchg=36)
            sealed = bytes(V.build_message(hh, [], encrypted=[V.build_payload(p) for p in ps], crypto=cr, iv=b'\x31' * 16).to_bytes())
            n['in_sk'] += 1
            try:
                opened = W.dec_message(sealed, keys)
                inner_ok = opened['protected'] and [strip(x) for x in opened['inner']] == [norm(p) for p in ps] and not opened['payloads']
            except W.WireError as ex:
                inner_ok = False
            mine = W.enc_message({'spi_i': bytes(h['spi_i']), 'spi_r': bytes(h['spi_r']), 'xchg': 36, 'response': h['response'], 'version': h['version'],
                                  'initiator': h['initiator'], 'mid': h['mid'][0] * 65536 + h['mid'][1], 'major': h['major'], 'minor': h['minor']}, [],
                                 sk={'ke': keys['ke'], 'ka': keys['ka'], 'integ': keys['integ'], 'iv': b'\x31' * 16, 'inner': [denorm(p) for p in ps]})
            kk, mm, _ = V.counted_parse(mine, crypto=cr)
            back_ok = kk == 'ok' and [V.summarize_payload(p) for p in mm.encrypted_payloads] == ps and not mm.payloads
            if not inner_ok or not back_ok or sealed != mine:
                v.violation(f'payloads {[p["t"] for p in ps]} inside an encrypted payload do not round-trip / differ from the RFC layout',
                            {'inner_ok': inner_ok, 'back_ok': back_ok, 'bytes_equal': sealed == mine}, signature={'component': 'in_sk'})
            # (4a) serialisation is a function of the CURRENT content of the object: the same Message serialised, its header changed (next Message ID, the
            #      other exchange type, response flag, the peer's SPI filled in), and serialised again gives the layout of what it says now
            if n['in_sk'] % 8 == 0:
                mobj = V.build_message(hh, [], encrypted=[V.build_payload(p) for p in ps], crypto=cr, iv=b'\x31' * 16)
                first = bytes(mobj.to_bytes())
                mobj.message_id = (mobj.message_id + 1) % (1 << 32)
                mobj.is_response = not mobj.is_response
                mobj.exchange_type = V.M.Message.Exchange.INFORMATIONAL
                mobj.spi_r = b'\x6b' * 8
                again = bytes(mobj.to_bytes())
                n['reserialised'] = n.get('reserialised', 0) + 1
                want2 = W.enc_message({'spi_i': bytes(h['spi_i']), 'spi_r': b'\x6b' * 8, 'xchg': 37, 'response': not h['response'], 'version': h['version'],
                                       'initiator': h['initiator'], 'mid': (h['mid'][0] * 65536 + h['mid'][1] + 1) % (1 << 32), 'major': h['major'], 'minor': h['minor']}, [],
                                      sk={'ke': keys['ke'], 'ka': keys['ka'], 'integ': keys['integ'], 'iv': b'\x31' * 16, 'inner': [denorm(p) for p in ps]})
                if first == sealed and again != want2:
                    v.violation('a protected message serialised a second time after its header was changed does not have the layout of its current content',
                                {'header_now': again[:28].hex(), 'header_wanted': want2[:28].hex(), 'same_as_first': again == first}, signature={'component': 'reserialise'})
        # (4b) clear payloads in front of the encrypted payload (3.14: SK is the last payload; the header names the first payload of the message)
        if len(ps) == 2 and expressible(ps) and n['mixed'] < (300 if tier == 'quick' else 10 ** 9):
            cr, keys = V.make_crypto(128 if n['mixed'] % 2 else 256, (12, 14, 2)[n['mixed'] % 3])
            hh = dict(h, xchg=37)
            n['mixed'] += 1
            try:
                sealed = bytes(V.build_message(hh, [V.build_payload(ps[0])], encrypted=[V.build_payload(ps[1])], crypto=cr, iv=b'\x32' * 16).to_bytes())
            except Exception as ex:
                sealed = repr(ex).encode()
            mine = W.enc_message({'spi_i': bytes(h['spi_i']), 'spi_r': bytes(h['spi_r']), 'xchg': 37, 'response': h['response'], 'version': h['version'],
                                  'initiator': h['initiator'], 'mid': h['mid'][0] * 65536 + h['mid'][1], 'major': h['major'], 'minor': h['minor']}, [denorm(ps[0])],
                                 sk={'ke': keys['ke'], 'ka': keys['ka'], 'integ': keys['integ'], 'iv': b'\x32' * 16, 'inner': [denorm(ps[1])]})
            kk, mm, _ = V.counted_parse(mine, crypto=cr)
            back_ok = (kk == 'ok' and [V.summarize_payload(p) for p in mm.encrypted_payloads] == ps[1:]
                       and [V.summarize_payload(p) for p in mm.payloads if int(p.type) != W.SK] == ps[:1])
            if sealed != mine or not back_ok:
                v.violation(f'clear payload {ps[0]["t"]} followed by an encrypted payload holding {ps[1]["t"]}: differs from the RFC layout / does not parse back',
                            {'bytes_equal': sealed == mine, 'back_ok': back_ok, 'first_payload_octet': [sealed[16:17].hex(), mine[16:17].hex()]},
                            signature={'component': 'mixed', 'header': sealed[:28] == mine[:28]})
        # (5) the structured dump names every payload, in order, and shows every decoded field value
        try:
            dump = msg.to_dict()
            names = [x.get('type') for x in dump['payloads']]
            n['dump'] += 1
            if names != [V.NAMES[p['t']] for p in exp]:
                v.violation(f'the dump does not name the payloads in order: {names}', {'ps': ps}, signature={'component': 'dump:names'})
            text = json.dumps(dump, sort_keys=True, default=str)
            if len(ps) == 1 and ps[0]['t'] in V.KNOWN:
                for path, val in leaves(ps[0]):
                    q = mutate_leaf(ps[0], path)
                    if q is None:
                        continue
                    try:
                        other = V.build_payload(q)
                        t2 = json.dumps(V.build_message(h, [other]).to_dict(), sort_keys=True, default=str)
                    except Exception:
                        continue
                    n['dump_fields'] += 1
                    if t2 == text:
                        v.violation(f'the dump does not show field {path} of payload type {ps[0]["t"]} (two different values render identically)',
                                    {'payload': ps[0], 'variant': q}, signature={'component': 'dump:field', 'type': ps[0]['t'], 'field': str(path[-1] if isinstance(path[-1], str) else path[-2])})
        except Exception as ex:
            v.violation(f'the structured dump raises {type(ex).__name__}: {ex}', {'ps': ps}, signature={'component': 'dump:raises', 'exception': type(ex).__name__})
        if len(samples) < 2 and len(ps) == 2:
            samples.append({'header': h, 'payloads': ps, 'bytes': want.hex()})
    # trailing data / chain not ending at the end of the data
    base = bytes(msgs[0]['b']) if msgs else b''
    for extra in (b'\x00', b'\x00\x00\x00\x04', b'\x01' * 7):
        for vec in msgs[:40]:
            d = bytearray(bytes(vec['b']) + extra)
            kind, _, _ = V.counted_parse(bytes(d))
            if kind == 'ok':
                v.violation('a datagram whose payload chain does not end at the end of the data is accepted', {'b': bytes(d).hex()},
                            signature={'component': 'parse:trailing'})
                break
    # the chain rules of 3.2 on damaged lengths: whatever ParseChain of Wire.tla rejects (a payload running past the end of the data, a chain ending
    # before it, a length below 4) must be rejected - in the clear and, for the overrun of the last payload, inside the encrypted payload
    n['chain_rejects'] = 0
    for m in V.vectors('mutations')['muts']:
        if m['v'] != 'syntax':
            continue
        chain = bytes(m['b'])
        data = W.enc_header(b'A' * 8, b'B' * 8, m['first'], 2, 0, 34, 0x08, 0, 28 + len(chain)) + chain
        kind, _, _ = V.counted_parse(data)
        n['chain_rejects'] += 1
        if kind == 'ok':
            v.violation(f'a payload chain that does not end exactly at the end of the data ({m["kind"]} mutation at offset {m["at"]}) is accepted',
                        {'b': data.hex()}, signature={'component': 'parse:chain-end', 'kind': m['kind']})
            break
    for vec in [x for x in msgs if len(x['ps']) == 1 and expressible(x['ps'])][:60]:
        cr, keys = V.make_crypto(256, 12)
        for over in (1, 7):
            first, body = W.enc_chain([denorm(p) for p in vec['ps']])
            body = bytearray(body)
            ln = int.from_bytes(body[2:4], 'big') + over
            body[2:4] = ln.to_bytes(2, 'big')
            sealed = W.enc_message({'spi_i': b'A' * 8, 'spi_r': b'B' * 8, 'xchg': 37, 'response': False, 'initiator': True, 'mid': 1}, [],
                                   sk={'ke': keys['ke'], 'ka': keys['ka'], 'integ': keys['integ'], 'iv': b'\x33' * 16, 'raw_inner': (first, bytes(body))})
            kind, _, _ = V.counted_parse(sealed, crypto=cr)
            n['chain_rejects'] += 1
            if kind == 'ok':
                v.violation(f'inside the encrypted payload: a last payload whose length is overstated by {over} is accepted', {'payload': vec['ps'][0]['t']},
                            signature={'component': 'parse:chain-end', 'kind': 'inner'})
                break
    v.coverage.update({'evaluations': sum(n.values()), 'distinct_nontrivial': len(distinct), 'counts': n,
                       'rule': 'Wire.tla universe: all headers (version nibbles x exchange types x 8 flag combinations x Message IDs) with an empty chain; '
                               'every single payload instance (SA with 1-3 proposals incl. the same suite offered twice and a transform listed twice, SPI sizes 0/4/8, transforms with/without key length; KE; IDi/IDr of each type; '
                               'AUTH; NONCE; NOTIFY with/without SPI/data; DELETE with 0/1/3 SPIs; VENDOR; TSi/TSr IPv4/IPv6; unknown critical / non-critical) '
                               'and pairs of them; distinct = distinct abstract (header, payload list); each compared in 5 ways',
                       'exhaustive': tier == 'thorough', 'samples': samples})
    v.assumptions += ['the TLA+ encoder is written from RFC 7296 section 3; its self-consistency (ParseChain o EncChain) is checked by TLC']
    return v.finish()


def strip(x):
    """wire_ref payload dict -> comparable form of an abstract payload."""
    t = x['t']
    d = {'t': t, 'critical': x.get('critical', False)}
    if t == 33:
        d['proposals'] = [{'num': q['num'], 'proto': q['proto'], 'spi': list(q['spi']),
                           'transforms': [{'type': y['type'], 'id': y['id'], 'keylen': y['keylen'] or 0} for y in q['transforms']]} for q in x['proposals']]
    elif t == 42:
        d.update(proto=x['proto'], spis=[list(s) for s in x['spis']])
    elif t in (44, 45):
        d['ts'] = [{k: (list(y[k]) if isinstance(y[k], bytes) else y[k]) for k in ('ts_type', 'proto', 'sport', 'eport', 'saddr', 'eaddr')} for y in x['ts']]
    else:
        for k, val in x.items():
            if k not in ('t', 'critical'):
                d[k] = list(val) if isinstance(val, bytes) else val
    return d


def norm(p):
    return json.loads(json.dumps(p))


def denorm(p):
    """abstract payload -> wire_ref payload dict (bytes instead of int lists)."""
    def conv(x):
        if isinstance(x, list) and (not x or isinstance(x[0], int)):
            return bytes(x)
        if isinstance(x, list):
            return [conv(y) for y in x]
        if isinstance(x, dict):
            return {k: (conv(val) if k not in ('transforms',) else [dict(t, keylen=t['keylen'] or None) for t in val]) for k, val in x.items()}
        return x
    d = conv(p)
    if p['t'] == 33:
        for q in d['proposals']:
            q['spi'] = bytes(q['spi'])
    return d
