"""C07 - encrypted payloads round-trip and every modification is detected (Wire.tla SkFraming + independent AES / HMAC)."""
import hashlib
import hmac
import random
import struct

import common
import wire_ref as W
import wirevec as V
import world as wd
from wirevec import M

H = {'spi_i': [65] * 8, 'spi_r': [66] * 8, 'major': 2, 'minor': 0, 'xchg': 37, 'response': False, 'version': False, 'initiator': True, 'mid': [0, 5]}


def inner_payloads(n):
    """Payload objects of the library whose chain is exactly n octets long (n = 0 or n >= 5)."""
    if n == 0:
        return []
    if n < 5:
        return None
    if n <= 30:
        return [M.PayloadVENDOR(bytes(range(1, n - 3)))]
    return [M.PayloadVENDOR(bytes(range(1, 11))), M.PayloadVENDOR(bytes((i * 7) % 251 + 1 for i in range(n - 14 - 4)))]


def framing(v, tier):
    sk = {(x['n'], x['icv']): x['f'] for x in V.vectors('sk')['sk']}
    n = 0
    samples = []
    for inner_len in range(0, 49):
        pls = inner_payloads(inner_len)
        if pls is None:
            continue
        for bits in (128, 256):
            for integ in (2, 12, 14):
                cr, keys = V.make_crypto(bits, integ, seed=inner_len + bits + integ)
                iv = bytes((inner_len * 3 + i) % 256 for i in range(16))
                data = bytes(V.build_message(H, [], encrypted=pls, crypto=cr, iv=iv).to_bytes())
                f = sk[(inner_len, W.INTEG[integ][1])]
                n += 1
                icv = W.INTEG[integ][1]
                what = f'inner length {inner_len}, AES-{bits}, integrity {integ}'
                # lengths as the specification computes them
                if len(data) != f['total'] or struct.unpack_from('>L', data, 24)[0] != f['total'] or struct.unpack_from('>H', data, 30)[0] != f['sk_len']:
                    v.violation(f'{what}: datagram / header / SK lengths {len(data)}/{struct.unpack_from(">L", data, 24)[0]}/{struct.unpack_from(">H", data, 30)[0]}, '
                                f'specification {f["total"]}/{f["total"]}/{f["sk_len"]}', {'data': data.hex()}, signature={'component': 'sk:lengths'})
                    continue
                if data[16] != W.SK or data[28] != (int(pls[0].type) if pls else 0) or data[32:48] != iv:
                    v.violation(f'{what}: SK framing (first payload / inner first payload / IV)', {'data': data.hex()}, signature={'component': 'sk:framing'})
                    continue
                # checksum = negotiated MAC, truncated, over everything from the start of the header to the end of the ciphertext
                hname = W.INTEG[integ][0]
                want = hmac.new(keys['ka'], data[:f['mac_covers']], getattr(hashlib, hname)).digest()[:icv]
                if data[-icv:] != want or f['mac_covers'] != len(data) - icv:
                    v.violation(f'{what}: the checksum is not HMAC-{hname} truncated to {icv} over the first {f["mac_covers"]} octets', {'data': data.hex()},
                                signature={'component': 'sk:mac'})
                    continue
                # plaintext: inner | padding | pad length, whole blocks
                plain = W.aes_cbc(keys['ke'], iv, data[48:len(data) - icv], False)
                chain = bytes(M.Message._payloads_to_bytes(pls)) if False else None
                if len(plain) != f['ct'] or plain[-1] != f['pad'] or len(plain) % 16:
                    v.violation(f'{what}: plaintext length {len(plain)}, pad length octet {plain[-1]}; specification {f["ct"]} / {f["pad"]}', {},
                                signature={'component': 'sk:padding'})
                    continue
                inner = plain[:inner_len]
                try:
                    got, _ = W.dec_chain(inner, data[28])
                except W.WireError as ex:
                    v.violation(f'{what}: decrypted chain is malformed: {ex}', {}, signature={'component': 'sk:inner'})
                    continue
                if [bytes(p['data']) for p in got] != [bytes(p.vendor_id) for p in pls]:
                    v.violation(f'{what}: decrypted payloads differ', {}, signature={'component': 'sk:inner'})
                # and back through the library under the same keys
                kind, msg, _ = V.counted_parse(data, crypto=cr)
                if kind != 'ok' or [bytes(p.vendor_id) for p in msg.encrypted_payloads] != [bytes(p.vendor_id) for p in pls] or msg.payloads:
                    v.violation(f'{what}: does not parse back to the same payloads ({kind})', {}, signature={'component': 'sk:roundtrip'})
                # a message sealed by the specification's framing (independent encoder) is accepted too
                mine = W.enc_message({'spi_i': bytes(H['spi_i']), 'spi_r': bytes(H['spi_r']), 'xchg': 37, 'response': False, 'initiator': True, 'mid': 5}, [],
                                     sk={'ke': keys['ke'], 'ka': keys['ka'], 'integ': integ, 'iv': iv, 'inner': [{'t': 43, 'data': bytes(p.vendor_id)} for p in pls]})
                if mine != data:
                    v.violation(f'{what}: differs from the independently sealed message', {}, signature={'component': 'sk:bytes'})
                if len(samples) < 2 and inner_len in (15, 31):
                    samples.append({'inner_len': inner_len, 'aes': bits, 'integ': integ, 'framing': f, 'datagram': data.hex()})
    return n, samples


def tamper(v, tier, rnd):
    """Every change of a protected datagram must make parsing fail with a protocol error."""
    w = wd.World(seed=common.SEED)
    n = 0
    cases = []
    try:
        log = w.establish('A')
        a, b = w.sas('A')[0], w.sas('B')[0]
        cases.append(('IKE_AUTH request', bytes(log[2][1]), b.peer_crypto, a.peer_crypto))
        cases.append(('IKE_AUTH response', bytes(log[3][1]), a.peer_crypto, b.peer_crypto))
        req = bytes(w.acquire('A', sport=0, dport=0))
        cases.append(('CREATE_CHILD_SA request', req, b.peer_crypto, a.peer_crypto))
        res = bytes(w.dispatch('B', req, 'A'))
        cases.append(('CREATE_CHILD_SA response', res, a.peer_crypto, b.peer_crypto))
        w.dispatch('A', res, 'B')
        a.start_dpd_at = w.now - 1
        dpd = bytes(w.timer('A', a, 'check_dead_peer_detection_timer'))
        cases.append(('INFORMATIONAL request, empty payload list', dpd, b.peer_crypto, a.peer_crypto))
        res = bytes(w.dispatch('B', dpd, 'A'))
        cases.append(('INFORMATIONAL response, empty payload list', res, a.peer_crypto, b.peer_crypto))
        for name, data, right, wrong in cases:
            kind, msg, _ = V.counted_parse(data, crypto=right)
            if kind != 'ok':
                raise common.MachineryError(f'authentic {name} does not parse ({kind})')
            bits = range(8) if tier == 'thorough' else (0, 7)
            positions = range(len(data)) if tier == 'thorough' or len(data) < 120 else sorted(set(list(range(0, 60)) + list(range(len(data) - 40, len(data))) + rnd.sample(range(len(data)), 60)))
            for pos in positions:
                for bit in bits:
                    d = bytearray(data)
                    d[pos] ^= 1 << bit
                    k, m, _ = V.counted_parse(bytes(d), crypto=right)
                    n += 1
                    if k == 'ok':
                        region = 'header' if pos < 28 else ('sk-header' if pos < 32 else ('iv' if pos < 48 else ('checksum' if pos >= len(data) - right.integrity.hash_size else 'ciphertext')))
                        v.violation(f'{name}: flipping bit {bit} of octet {pos} ({region}) is not detected', {'data': bytes(d).hex()},
                                    signature={'component': 'tamper:bit', 'region': region})
                        break
                    if k in ('other', 'budget'):
                        v.violation(f'{name}: tampered datagram raises {type(m).__name__ if m else k}', {'data': bytes(d).hex()}, signature={'component': 'tamper:exception'})
            for cut in range(28, len(data)):
                k, m, _ = V.counted_parse(data[:cut], crypto=right)
                n += 1
                if k == 'ok':
                    v.violation(f'{name}: truncation to {cut} octets is accepted', {}, signature={'component': 'tamper:truncate'})
                    break
            for extra in (1, 2, 16, 32):
                k, m, _ = V.counted_parse(data + b'\0' * extra, crypto=right)
                n += 1
                if k == 'ok':
                    v.violation(f'{name}: extension by {extra} octets is accepted', {}, signature={'component': 'tamper:extend'})
            # any other integrity key: the other direction's, one bit off, wrong length
            import copy
            others = [wrong]
            for f in (lambda k: bytes([k[0] ^ 1]) + k[1:], lambda k: k[:-1] + bytes([k[-1] ^ 0x80])):       # (HMAC zero-pads short keys: k and k|00 are the same key)
                c = copy.copy(right)
                c.sk_a = f(right.sk_a)
                others.append(c)
            for c in others:
                k, m, _ = V.counted_parse(data, crypto=c)
                n += 1
                if k == 'ok':
                    v.violation(f'{name}: accepted under a different integrity key', {}, signature={'component': 'tamper:key'})
    finally:
        w.close()
    return n, [c[0] for c in cases]


def tamper_at_endpoint(v, tier, rnd):
    """The same at the endpoint: a modified copy of a protected request - one that was answered already (a would-be retransmission) or a fresh one - handed to
    the real receiver through dispatch_message draws no reply and changes nothing (the receiver must check before it consults its retransmission cache)."""
    import probes
    n = 0
    w = wd.World(seed=common.SEED + 1)
    try:
        log = w.establish('A')
        a, b = w.sas('A')[0], w.sas('B')[0]
        answered = [('IKE_AUTH request (answered)', 'B', bytes(log[2][1]))]
        req = bytes(w.acquire('A', sport=0, dport=0))
        w.dispatch('A', w.dispatch('B', req, 'A'), 'B')
        answered.append(('CREATE_CHILD_SA request (answered)', 'B', req))
        b.start_dpd_at = w.now - 1
        dpd = bytes(w.timer('B', b, 'check_dead_peer_detection_timer'))
        w.dispatch('B', w.dispatch('A', dpd, 'B'), 'A')
        answered.append(('INFORMATIONAL request of the original responder (answered)', 'A', dpd))
        a.start_dpd_at = w.now - 1
        fresh = bytes(w.timer('A', a, 'check_dead_peer_detection_timer'))
        answered.append(('INFORMATIONAL request (not yet delivered)', 'B', fresh))
        for name, dst, data in answered:
            icv = 16
            variants = []
            for pos in sorted(set(list(range(16, 36)) + [36, 40, 47, 48, 49, len(data) // 2, len(data) - icv - 1, len(data) - icv, len(data) - 2, len(data) - 1])):
                if 0 <= pos < len(data):
                    for bit in (0, 7):
                        d = bytearray(data)
                        d[pos] ^= 1 << bit
                        variants.append((f'bit {bit} of octet {pos}', bytes(d)))
            # modifications of TWO octets at once: the header's Next Payload octet names another first payload (known / unknown types) and the generic header
            # of that payload gets the critical bit - what the receiver then meets in the CLEAR chain must not matter before the checksum has been verified
            for first in (0, 33, 41, 43, 47, 99, 200, 255):
                for crit in (0x00, 0x80):
                    d = bytearray(data)
                    d[16], d[29] = first, crit
                    if bytes(d) != data:
                        variants.append((f'first payload {first}, critical octet {crit:#x}', bytes(d)))
            # ... and a bare forgery built from the clear header alone: an unknown critical payload instead of the encrypted one
            variants.append(('header + unknown critical payload, no SK', data[:16] + bytes([200]) + data[17:24] + (36).to_bytes(4, 'big') + bytes([0, 0x80, 0, 8, 1, 2, 3, 4])))
            variants += [('truncated by one octet', data[:-1]), ('cut to the header', data[:28]), ('extended by 16 octets', data + b'\0' * 16),
                         ('encrypted payload zeroed', data[:32] + b'\0' * (len(data) - 32)), ('checksum zeroed', data[:-icv] + b'\0' * icv)]
            for label, d in variants:
                if d[20:24] != data[20:24] or d[18] != data[18] or d[19] != data[19]:
                    continue                # another Message ID / exchange type / flags: a different message of the window, judged by C03 / C08
                before = probes.world_snapshot(w, with_dpd=True)
                try:
                    reply = w.dispatch(dst, d, w.peer_of(dst))
                except wd.Escape as ex:
                    if type(ex.ex).__name__ in ('InvalidSyntax', 'UnsupportedCriticalPayload'):
                        reply = None
                    else:
                        v.violation(f'{name}, {label}: {ex}', {}, signature={'component': 'tamper-endpoint:escape'})
                        continue
                n += 1
                diff = probes.diff_snapshots(before, probes.world_snapshot(w, with_dpd=True))
                if reply is not None or diff:
                    v.violation(f'{name}, {label}: the modified datagram is {"answered" if reply is not None else "not answered"}' + (f' and changes {diff[:2]}' if diff else ''),
                                {'data': d.hex()}, signature={'component': 'tamper-endpoint', 'message': name.split(' (')[0], 'answered': reply is not None})
                    break
    finally:
        w.close()
    return n


def keyless_emission(v):
    """The emission clause where it is easiest to break: an endpoint that has NO keys yet (an initiator waiting for the IKE_SA_INIT response) is handed messages
    of the later exchange types - bare headers and cleartext payload lists, requests and responses.  Whatever it emits in reaction is an IKE_SA_INIT message
    or carries everything inside an encrypted payload; an IKE_AUTH / CREATE_CHILD_SA / INFORMATIONAL message in the clear is never emitted."""
    n = 0
    lists = ([], [{'t': W.NOTIFY, 'proto': 0, 'spi': b'', 'ntype': 24, 'data': b''}], [{'t': W.DELETE, 'proto': 1, 'spis': []}], [{'t': W.IDI, 'id_type': 2, 'data': b'x.example'}])
    for xchg in (35, 36, 37, 99):
        for resp in (False, True):
            for mid in (0, 1):
                for pl in lists:
                    w = wd.World(seed=common.SEED)
                    try:
                        req = w.acquire('A')
                        a = w.sas('A')[0]
                        for spi_r in (b'\0' * 8, b'\x52' * 8):
                            forged = W.enc_message({'spi_i': bytes(a.my_spi), 'spi_r': spi_r, 'xchg': xchg, 'response': resp, 'initiator': False, 'mid': mid}, pl)
                            try:
                                out = w.dispatch('A', forged, 'B')
                            except wd.Escape:
                                out = None          # (whether the loop survives is C17's business)
                            n += 1
                            if out is None:
                                continue
                            h = W.dec_header(bytes(out))
                            if h['xchg'] != W.IKE_SA_INIT and h['first'] != W.SK:
                                v.violation(f'an endpoint without keys answers a cleartext exchange-type-{xchg} {"response" if resp else "request"} (Message ID {mid}) with an '
                                            f'UNPROTECTED message of exchange type {h["xchg"]} ({len(out)} octets)', {'forged': forged.hex(), 'emitted': bytes(out).hex()},
                                            signature={'component': 'clear:keyless', 'xchg': xchg, 'response': resp})
                    finally:
                        w.close()
    return n


def run(tier, replay=None):
    v = common.Verdict('C07', tier, 'exploration')
    rnd = random.Random(common.SEED)
    n_frame, samples = framing(v, tier)
    n_tamper, names = tamper(v, tier, rnd)
    n_endpoint = tamper_at_endpoint(v, tier, rnd)
    v.coverage['keyless_emission_cases'] = keyless_emission(v)
    # "everything after IKE_SA_INIT travels inside the encrypted payload": monitored on every datagram of the Ike.tla replays
    from checks import ikeprop
    ikeprop.run(v, ['init'] if tier == 'quick' else ['init', 'estab'], limit=800 if tier == 'quick' else 6000)
    v.coverage.update({'evaluations': n_frame + n_tamper, 'distinct_nontrivial': n_frame + n_tamper,
                       'framing_cases': n_frame, 'tamper_cases': n_tamper, 'tampered_copies_at_the_endpoint': n_endpoint, 'tampered_messages': names,
                       'rule': 'framing: inner lengths 0 and 5..48 (every residue mod 16 three times) x AES-128/256 x 3 integrity algorithms, each compared with '
                               'Wire.tla SkFraming (pad, lengths, MAC coverage) and opened with independent AES-CBC / HMAC; tamper: every octet x bits {0,7} '
                               '(thorough: all 8) of one protected message per exchange type incl. empty payload lists, every truncation, extensions, other integrity keys; '
                               'every case is a distinct datagram',
                       'exhaustive': tier == 'thorough',
                       'samples': samples or [{'note': 'see framing_cases'}]})
    return v.finish()
