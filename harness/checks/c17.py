"""C17 - no datagram, kernel event or send failure can stop or wedge the daemon (spec/MainLoop.tla + the real main_loop)."""
import json
import os
import random
import shutil
import tempfile

import common
import mainloop
import tlcgraph


def cfg(max_hostile, fair=True, dump=False):
    kinds = ', '.join(f'"{k}"' for k in mainloop.KINDS)
    s = f'SPECIFICATION {"FairSpec" if fair else "Spec"}\nCONSTANTS\n Kinds = {{{kinds}}}\n MaxHostile = {max_hostile}\nINVARIANT NeverCrashed\n'
    if fair:
        s += 'PROPERTY BackToSelect\nPROPERTY StillServes\n'
    if dump:
        s += 'ACTION_CONSTRAINT EdgeDump\nVIEW View\n'
    return s + 'CHECK_DEADLOCK FALSE\n'


def sequences_from_graph(g):
    """Every maximal path of the (tree-shaped) graph = one complete schedule."""
    out_edges = {}
    for i, (f, a, dd, t) in enumerate(g.edges):
        out_edges.setdefault(f, []).append(i)
    seqs = []

    def walk(u, acc):
        nxt = out_edges.get(u, [])
        if not nxt:
            seqs.append(acc)
            return
        for i in nxt:
            a = g.edges[i][1]
            walk(g.edges[i][3], acc + ([a['kind']] if a['a'] == 'Hostile' else (['legit'] if a['a'] == 'Legit' else [])))
    import sys
    sys.setrecursionlimit(10000)
    walk(0, [])
    return seqs


def judge(v, seq, seed, rnd, stats, edit_silent_peer=None):
    loop, ex = mainloop.run_behaviour(seq, seed, rnd, edit_silent_peer=edit_silent_peer)
    stats['runs'] += 1
    stats['events'] += len(loop.events_done)
    stats['max_lines_per_event'] = max(stats['max_lines_per_event'], loop.max_lines)
    for k in seq:
        stats['kinds'][k] = stats['kinds'].get(k, 0) + 1
    what = ' '.join(seq)
    if isinstance(ex, mainloop.Wedged):
        v.violation(f'the loop does not come back to select within {mainloop.LINE_BUDGET} executed lines while handling "{loop.current}"', {'schedule': seq},
                    signature={'component': 'wedged', 'kind': loop.current})
        return
    if ex is not None:
        v.violation(f'main_loop terminated with {type(ex).__name__}: {ex} while handling "{loop.current}"', {'schedule': seq},
                    signature={'component': 'terminated', 'kind': loop.current, 'exception': type(ex).__name__})
        return
    a, b = loop.legit.established()
    if getattr(loop, 'own_teardown', False):
        # the daemon's own lifetime timers ended / replaced the IKE_SA: the scripted session does not apply any more; it must survive and answer the status query
        stats['own_teardown'] = stats.get('own_teardown', 0) + 1
    elif 'NEWSA' in loop.netlink_refused:
        # the kernel refused to install an SA: the session cannot complete, and that is not the daemon's fault; it must survive and answer
        stats['kernel_refusals_hit'] = stats.get('kernel_refusals_hit', 0) + 1
    elif not loop.legit.completed:
        v.violation(f'the legitimate session did not complete (daemon: {a}, peer: {b}, stage {loop.legit.stage}) under schedule: {what}', {'schedule': seq},
                    signature={'component': 'not-served', 'hostile': sorted(set(seq) - {'legit'})[0] if set(seq) - {'legit'} else '-'})
        return
    if not loop.status_replies:
        v.violation('the status query was not answered', {'schedule': seq}, signature={'component': 'status'})
        return
    try:
        json.loads(loop.status_replies[-1].decode())
    except ValueError:
        v.violation('the status reply is not JSON', {'schedule': seq}, signature={'component': 'status-json'})


def run(tier, replay=None):
    v = common.Verdict('C17', tier, 'model_checking')
    rnd = random.Random(common.SEED)
    tmp = tempfile.mkdtemp(prefix='verif-ml-')
    try:
        path = os.path.join(tmp, 'ml.cfg')
        open(path, 'w').write(cfg(2))
        res = common.run_tlc('MainLoop.tla', cfg=path, timeout=900)
        common.tlc_must_pass(res, 'MainLoop.tla (NeverCrashed, BackToSelect, StillServes)')
    finally:
        shutil.rmtree(tmp, ignore_errors=True)
    # every hostile kind at every moment of the legitimate session (all schedules with one hostile event), from the dumped graph
    g = tlcgraph.dump('MainLoop.tla', cfg(1 if tier == 'quick' else 2, fair=False, dump=True), 'mainloop', {}, lambda st: True)
    g.full_sources = True
    import re
    legit_steps = int(re.search(r'^LegitSteps == (\d+)', open(os.path.join(common.VERIF, 'spec', 'MainLoop.tla')).read(), re.M).group(1))
    seqs = [s for s in sequences_from_graph(g) if s.count('legit') == legit_steps]
    if len(seqs) < 30:
        raise common.MachineryError(f'only {len(seqs)} complete schedules in the dumped graph of MainLoop.tla: the edge cover is vacuous')
    if tier == 'thorough' and len(seqs) > 3000:
        seqs = [s for s in seqs if sum(1 for k in s if k != 'legit') <= 1] + rnd.sample([s for s in seqs if sum(1 for k in s if k != 'legit') == 2], 3000)
    # longer hostile bursts from TLC's simulation mode
    sim = tlcgraph.simulate('MainLoop.tla', cfg(4, fair=False, dump=True), 120 if tier == 'quick' else 3000, 20, seed=common.SEED)
    for b in sim:
        s = [a['kind'] if a['a'] == 'Hostile' else 'legit' for a, dd, t, ff in b if a['a'] in ('Hostile', 'Legit')]
        s += ['legit'] * (legit_steps - s.count('legit'))
        seqs.append(s)
    stats = {'runs': 0, 'events': 0, 'max_lines_per_event': 0, 'kinds': {}}
    for i, s in enumerate(seqs):
        judge(v, s, common.SEED + i, rnd, stats)
    # a connection with odd values that the loader accepts (Config.tla verdict "either": an empty algorithm list, zero timers) must not make an event for THAT
    # connection fatal for the daemon: ACQUIRE towards its peer, IKE_SA_INIT from its peer - with the legitimate session of the other peer around them
    import configuration
    odd = {'rejected_at_load': 0, 'ran': 0}
    for edit in ({'dh': []}, {'encr': []}, {'integ': []}, {'prf': []}, {'lifetime': 0, 'dpd': 0}, {'dpd': -5}, {'lifetime': -1}):
        for seq in (['acquire_silent_peer'] + ['legit'] * legit_steps, ['legit', 'legit', 'init_from_silent_peer', 'acquire_silent_peer'] + ['legit'] * (legit_steps - 2)):
            try:
                judge(v, seq, common.SEED, rnd, stats, edit_silent_peer=edit)
                odd['ran'] += 1
            except configuration.ConfigurationError:
                odd['rejected_at_load'] += 1
    v.coverage['odd_configurations'] = odd
    v.coverage.update({'states': res.distinct, 'transitions': res.generated, 'traces_validated_against_impl': stats['runs'], 'events_through_main_loop': stats['events'],
                       'max_lines_per_event': stats['max_lines_per_event'], 'line_budget': mainloop.LINE_BUDGET, 'kind_occurrences': stats['kinds'],
                       'samples': [{'schedule': seqs[len(seqs) // 2]}, {'schedule': seqs[-1]}]})
    v.assumptions += ['the legitimate peer is driven directly by the harness; the daemon under test runs its real main_loop with scripted select / sockets',
                      'a send failure makes the legitimate peer retransmit']
    return v.finish()
