"""C15 - installed policies mirror the configuration and acquires map back to it (spec/Policies.tla)."""
import collections
import ipaddress
import json
import random

import common
import fakekernel
import probes
import tlcgraph
import wire_ref as W
import world as wd

# abstract protect entries of Policies.tla -> concrete configuration (connection, protect dictionary)
ENTRY = {
    1: ('B', dict(index=5, ip_proto='tcp', mode='transport', ipsec_proto='esp', peer_port=23, lifetime=30)),
    2: ('B', dict(index=9, ip_proto='udp', mode='tunnel', ipsec_proto='ah', my_subnet='10.1.0.0/24', peer_subnet='10.2.0.0/16', my_port=500, peer_port=4500, lifetime=40,
                  integ=['sha512', 'sha1'])),
    3: ('C', dict(index=2 ** 20, ip_proto='any', mode='tunnel', ipsec_proto='esp', my_subnet='2001:db8:a::/64', peer_subnet='2001:db8:c::/48', encr=['aes128'], lifetime=50)),
    # protected networks of the other address family than the tunnel endpoints: IPv6 networks through an IPv4 tunnel and the reverse
    4: ('B', dict(index=11, ip_proto='tcp', mode='tunnel', ipsec_proto='esp', my_subnet='2001:db8:1::/64', peer_subnet='2001:db8:2::/64', peer_port=443, lifetime=60)),
    5: ('C', dict(index=12, ip_proto='any', mode='tunnel', ipsec_proto='esp', my_subnet='172.16.1.0/24', peer_subnet='172.16.2.0/24', lifetime=70)),
}
PROTO = {'tcp': 6, 'udp': 17, 'any': 0, 'icmp': 1}


def conf_for(entries, ike_lifetime=None):
    """Configuration dictionary of endpoint A for a set of abstract entries (the independent reading is `expected_spd`)."""
    conf = {}
    kw = {} if ike_lifetime is None else {'lifetime': ike_lifetime}
    for e in sorted(entries):
        peer, protect = ENTRY[e]
        v6 = peer == 'C'
        name = f'A-{peer}'
        if name not in conf:
            c = wd.connection_dict('A', peer, v6=v6, **kw)
            c['protect'] = []
            conf[name] = c
        conf[name]['protect'].append(dict(protect))
    return conf


def peer_conf(peer):
    """The peers accept everything A may propose for them."""
    v6 = peer == 'C'
    c = wd.connection_dict(peer, 'A', v6=v6)
    c['protect'] = []
    for e, (p, protect) in ENTRY.items():
        if p == peer:
            m = dict(protect, index=e)
            m['my_subnet'], m['peer_subnet'] = protect.get('peer_subnet'), protect.get('my_subnet')
            m['my_port'], m['peer_port'] = protect.get('peer_port', 0), protect.get('my_port', 0)
            c['protect'].append({k: x for k, x in m.items() if x is not None})
    return {f'{peer}-A': c}


def expected_spd(entries):
    """(selector, dir) -> attributes, read off the configuration dictionary independently of configuration.py / xfrm.py."""
    out = {}
    for e in entries:
        peer, p = ENTRY[e]
        v6 = peer == 'C'
        my_addr, peer_addr = wd.addr_of('A', v6), wd.addr_of(peer, v6)
        my_net = ipaddress.ip_network(p.get('my_subnet', my_addr))
        peer_net = ipaddress.ip_network(p.get('peer_subnet', peer_addr))
        proto = PROTO[p['ip_proto']]
        ipsec = 50 if p['ipsec_proto'] == 'esp' else 51
        mode = 0 if p['mode'] == 'transport' else 1
        mp, pp = p.get('my_port', 0), p.get('peer_port', 0)
        for d, (s_net, d_net, sp, dp, src, dst, index) in {1: (my_net, peer_net, mp, pp, my_addr, peer_addr, (p['index'] << 3) | 1),
                                                          0: (peer_net, my_net, pp, mp, peer_addr, my_addr, 0),
                                                          2: (peer_net, my_net, pp, mp, peer_addr, my_addr, 0)}.items():
            key = (str(s_net), str(d_net), sp, dp, proto, d)
            out[key] = {'index': index, 'tmpl_src': src, 'tmpl_dst': dst, 'tmpl_proto': ipsec, 'mode': mode, 'entry': e}
    return out


def observed_spd(kernel):
    out = {}
    for key, req in kernel.spd.items():
        s = req['sel']
        k = (str(ipaddress.ip_network(f"{s['saddr']}/{s['prefixlen_s']}", strict=False)), str(ipaddress.ip_network(f"{s['daddr']}/{s['prefixlen_d']}", strict=False)),
             s['sport'], s['dport'], s['proto'], req['dir'])
        if req.get('junk'):
            out[('junk', req['junk'])] = 'junk'
            continue
        t = req['attrs'][0]['tmpl'] if req['attrs'] and 'tmpl' in req['attrs'][0] else {}
        ok_masks = s['sport_mask'] == (0xffff if s['sport'] else 0) and s['dport_mask'] == (0xffff if s['dport'] else 0)
        out[k] = {'index': req['index'], 'tmpl_src': t.get('saddr'), 'tmpl_dst': t.get('daddr'), 'tmpl_proto': t.get('proto'), 'mode': t.get('mode'),
                  'masks_ok': ok_masks, 'action': req['action']}
    return out


class Dummy:
    def close(self):
        self.closed = True


def replay_behaviour(steps, seed=0):
    conf = {'A': conf_for({1}), 'B': peer_conf('B'), 'C': peer_conf('C')}
    w = wd.World(conf=conf, endpoints=('A', 'B', 'C'), seed=seed, start=False)
    w.start('B')
    w.start('C')
    cur = set()
    try:
        for i, (a, tgt) in enumerate(steps):
            name = a['a']
            if name == 'Start':
                cur = set(a['c'])
                w.conf['A'] = conf_for(cur)
                w.v6 = False
                w.start('A')
            elif name == 'Negotiate':
                peer = ENTRY[min(cur)][0]
                w.v6 = peer == 'C'
                m, e = w.acquire('A', peer=peer, index=ENTRY[min(cur)][1]['index'], proto=PROTO[ENTRY[min(cur)][1]['ip_proto']],
                                 sel_saddr=str(ipaddress.ip_network(ENTRY[min(cur)][1].get('my_subnet', wd.addr_of('A', w.v6)))[1 if 'my_subnet' in ENTRY[min(cur)][1] else 0]),
                                 sel_daddr=str(ipaddress.ip_network(ENTRY[min(cur)][1].get('peer_subnet', wd.addr_of(peer, w.v6)))[1 if 'peer_subnet' in ENTRY[min(cur)][1] else 0]),
                                 sport=ENTRY[min(cur)][1].get('my_port', 0), dport=ENTRY[min(cur)][1].get('peer_port', 0)), 'A'
                hops = 0
                while m is not None and hops < 10:
                    dst = peer if e == 'A' else 'A'
                    m = w.dispatch(dst, m, e)
                    e = dst
                    hops += 1
                w.v6 = False
            elif name == 'Stop':
                w.ctl['A'].control_socket = Dummy()
                w.call('A', w.ctl['A'].close)
                del w.ctl['A']
            elif name == 'Crash':
                del w.ctl['A']
            elif name == 'Leftover':
                w.kernel['A'].spd[('junk', 1)] = {'junk': 1, 'sel': {'saddr': '1.1.1.1', 'prefixlen_s': 32, 'daddr': '2.2.2.2', 'prefixlen_d': 32, 'sport': 0, 'dport': 0, 'proto': 0,
                                                                      'sport_mask': 0, 'dport_mask': 0}, 'dir': 1, 'attrs': [], 'index': 99 << 3 | 1, 'action': 0}
                w.kernel['A'].sad[('9.9.9.9', 50, b'\x09\x09\x09\x09')] = {'junk': True, 'daddr': '9.9.9.9', 'spi': b'\x09\x09\x09\x09', 'attrs': []}
                w.kernel['A'].sad[('9.9.9.8', 51, b'\x09\x09\x09\x08')] = {'junk': True, 'daddr': '9.9.9.8', 'spi': b'\x09\x09\x09\x08', 'attrs': []}      # (ESP and AH)
            # compare
            spec_entries = {p['entry'] for p in tgt['spd'] if p['entry'] < 90}
            spec_junk = any(p['entry'] >= 90 for p in tgt['spd'])
            want = expected_spd(spec_entries)
            got = observed_spd(w.kernel['A'])
            got_junk = any(k[0] == 'junk' for k in got)
            got = {k: x for k, x in got.items() if k[0] != 'junk'}
            if got_junk != spec_junk:
                return i, f'after {name}: leftover policies {"present" if got_junk else "absent"}, specification: {"present" if spec_junk else "absent"}'
            if set(got) != set(want):
                return i, f'after {name}: installed policies {sorted(set(got) - set(want))} unexpected, {sorted(set(want) - set(got))} missing'
            for k in want:
                for f in ('index', 'tmpl_src', 'tmpl_dst', 'tmpl_proto', 'mode'):
                    if got[k][f] != want[k][f]:
                        return i, f'after {name}: policy {k}: {f} = {got[k][f]}, configured {want[k][f]}'
                if not got[k]['masks_ok'] or got[k]['action'] != 0:
                    return i, f'after {name}: policy {k}: port masks / action'
            sad_junk = any(r.get('junk') for r in w.kernel['A'].sad.values())
            sad_real = any(not r.get('junk') for r in w.kernel['A'].sad.values())
            if sad_junk != ('stale-sa' in tgt['sad']) or sad_real != ('child' in tgt['sad']):
                return i, f'after {name}: kernel SAD (stale={sad_junk}, negotiated={sad_real}), specification {tgt["sad"]}'
            if ('A' in w.ctl) != tgt['running']:
                return i, 'running flag'
    except wd.Escape as ex:
        return i, f'{name}: {ex}'
    finally:
        w.close()
    return len(steps), None


def acquire_mapping(v, tier):
    """An ACQUIRE with an installed out-policy's index is negotiated with that connection's peer, with the entry's proposal, mode,
    lifetime and selectors inside the entry's; IKE_SAs are re-used; an unknown index is ignored."""
    n = 0
    # (the last two rounds: an IKE_SA whose own lifetime is far shorter than the entries' - the CHILD_SA lifetime is the entry's all the same)
    # (the last rounds: an IKE_SA whose own lifetime is far shorter than the entries'; an IKE_SA that the PEER started - the daemon is its responder, yet the
    #  initiator of every exchange its ACQUIREs start: TSi is its own side all the same)
    for entries, ike_life, peer_first in (({1}, None, False), ({1, 2}, None, False), ({3}, None, False), ({1, 2, 3}, None, False), ({4}, None, False), ({1, 4}, None, False),
                                          ({5}, None, False), ({3, 5}, None, False), ({1, 2}, 2, False), ({3, 5}, 2, False), ({1, 2}, None, True), ({3, 5}, None, True), ({4}, None, True)):
        for e in sorted(entries):
            peer, p = ENTRY[e]
            v6 = peer == 'C'
            conf = {'A': conf_for(entries, ike_life), 'B': peer_conf('B'), 'C': peer_conf('C')}
            w = wd.World(conf=conf, endpoints=('A', 'B', 'C'), seed=common.SEED)
            try:
                w.v6 = v6
                my_net = ipaddress.ip_network(p.get('my_subnet', wd.addr_of('A', v6)))
                peer_net = ipaddress.ip_network(p.get('peer_subnet', wd.addr_of(peer, v6)))
                if peer_first:
                    m0, cur0 = w.acquire(peer, peer='A', index=e, proto=PROTO[p['ip_proto']] or 6, sel_saddr=str(peer_net[0]), sel_daddr=str(my_net[0]),
                                         sport=p.get('peer_port', 0) or 80, dport=p.get('my_port', 0) or 1234), peer
                    while m0 is not None:
                        nxt0 = 'A' if cur0 == peer else peer
                        m0, cur0 = w.dispatch(nxt0, m0, cur0), nxt0
                    if [x.state.name for x in w.ctl['A'].ike_sas] != ['ESTABLISHED'] or w.ctl['A'].ike_sas[0].is_initiator:
                        raise common.MachineryError(f'the peer-initiated IKE_SA of the acquire-mapping scenario did not come up: {[x.state.name for x in w.ctl["A"].ike_sas]}')
                for variant, (sa_, da_) in enumerate(((my_net[0], peer_net[0]), (my_net[-1], peer_net[-1]), (my_net[len(list([0])) and 0], peer_net[min(5, peer_net.num_addresses - 1)]))):
                    before = len(w.ctl['A'].ike_sas)
                    req = w.acquire('A', peer=peer, index=p['index'], proto=PROTO[p['ip_proto']] or 6, sel_saddr=str(sa_), sel_daddr=str(da_),
                                    sport=p.get('my_port', 0) or 1234, dport=p.get('peer_port', 0) or 80)
                    n += 1
                    if req is None:
                        v.violation(f'ACQUIRE for installed policy index {p["index"]} produced no request', {'entries': sorted(entries)}, signature={'component': 'acquire:none'})
                        break
                    if (variant > 0 or peer_first) and (len(w.ctl['A'].ike_sas) != before or W.dec_header(bytes(req))['xchg'] != W.CREATE_CHILD_SA):
                        v.violation('a second ACQUIRE towards the same peer did not re-use the IKE_SA', {}, signature={'component': 'acquire:reuse'})
                    # bring it to the message that carries TS / SA
                    h = W.dec_header(bytes(req))
                    cur = bytes(req)
                    if h['xchg'] == W.IKE_SA_INIT:
                        res = w.dispatch(peer, cur, 'A')
                        cur = bytes(w.dispatch('A', res, peer))
                    sa = w.ctl['A'].ike_sas[0]
                    m = W.dec_message(cur, probes.keys_of(sa.my_crypto))
                    pl = m['inner']
                    tsi = next(x for x in pl if x['t'] == W.TSI)['ts']
                    tsr = next(x for x in pl if x['t'] == W.TSR)['ts']
                    prop = next(x for x in pl if x['t'] == W.SA)['proposals'][0]
                    transport = any(x['t'] == W.NOTIFY and x['ntype'] == 16391 for x in pl)
                    dst_ok = wd.addr_of(peer, v6)
                    ok = True
                    for ts, netw, port in ((tsi, my_net, p.get('my_port', 0)), (tsr, peer_net, p.get('peer_port', 0))):
                        for t in ts:
                            lo, hi = ipaddress.ip_address(t['saddr']), ipaddress.ip_address(t['eaddr'])
                            if lo.version != netw.version or hi.version != netw.version or not (netw[0] <= lo <= hi <= netw[-1]):
                                ok = False
                                continue
                            if port and not (t['sport'] == t['eport'] == port or (t['sport'], t['eport']) == (0, 65535) and False):
                                ok = ok and (t['sport'] >= port <= t['eport'] and t['sport'] == port)
                        if (str(ipaddress.ip_address(ts[-1]['saddr'])), str(ipaddress.ip_address(ts[-1]['eaddr']))) != (str(netw[0]), str(netw[-1])):
                            ok = False
                    want_proto = 3 if p['ipsec_proto'] == 'esp' else 2
                    integ = {'sha256': 12, 'sha512': 14, 'sha1': 2}
                    want_integ = [integ[x] for x in p.get('integ', ['sha256'])]
                    got_integ = [t['id'] for t in prop['transforms'] if t['type'] == 3]
                    want_encr = [] if want_proto == 2 else [{'aes128': 128, 'aes256': 256}[x] for x in p.get('encr', ['aes256'])]
                    got_encr = [t['keylen'] for t in prop['transforms'] if t['type'] == 1]
                    if not ok or prop['proto'] != want_proto or got_integ != want_integ or got_encr != want_encr or transport != (p['mode'] == 'transport'):
                        v.violation(f'entry {e}: the request after the ACQUIRE does not carry the entry\'s selectors / proposal / mode',
                                    {'tsi': str(tsi), 'tsr': str(tsr), 'proposal': prop, 'transport': transport, 'entry': p}, signature={'component': 'acquire:content', 'entry': e})
                        break
                    if W.dec_header(cur)['xchg'] in (W.IKE_AUTH, W.CREATE_CHILD_SA):
                        res = w.dispatch(peer, cur, 'A')
                        w.dispatch('A', res, peer)
                    # lifetime of the entry reaches the kernel
                    lifes = {r['lft']['soft_add_expires_seconds'] for r in w.kernel['A'].sad.values()}
                    if lifes and not any(p['lifetime'] <= x <= p['lifetime'] + 5 for x in lifes):
                        v.violation(f'entry {e}: kernel SA lifetime {lifes}, configured {p["lifetime"]}', {}, signature={'component': 'acquire:lifetime'})
                # unknown index
                snap = len(w.kernel['A'].requests)
                out = w.acquire('A', peer=peer, index=777)
                n += 1
                if out is not None or len(w.kernel['A'].requests) != snap:
                    v.violation('an ACQUIRE for an unknown policy index is not ignored', {}, signature={'component': 'acquire:unknown'})
            except wd.Escape as ex:
                v.violation(f'acquire mapping: {ex}', {'entries': sorted(entries), 'entry': e}, signature={'component': 'acquire:escape'})
            finally:
                w.close()
    return n


def acquire_while_busy(v):
    """An ACQUIRE that arrives while the IKE_SA with that peer has a request of its own outstanding is queued on that IKE_SA (no second IKE_SA, no
    IKE_SA_INIT) and negotiated on it as soon as the response arrives - for every kind of outstanding request."""
    n = 0
    for kind in ('newchild', 'rekchild', 'delchild', 'dpd', 'rekeyike'):
        w = wd.World(seed=common.SEED, opts={'dpd': 50, 'lifetime': 500})
        try:
            w.establish('A')
            sa = w.sas('A')[0]
            if kind == 'newchild':
                req = w.acquire('A', sport=0, dport=0)
            elif kind in ('rekchild', 'delchild'):
                req = w.expire('A', bytes(sa.child_sas[0].inbound_spi), kind == 'delchild')
            elif kind == 'dpd':
                sa.start_dpd_at = w.now - 1
                req = w.timer('A', sa, 'check_dead_peer_detection_timer')
            else:
                sa.rekey_ike_sa_at = w.now - 1
                req = w.timer('A', sa, 'check_rekey_ike_sa_timer')
            if req is None:
                raise common.MachineryError(f'no {kind} request was produced')
            before = [bytes(s.my_spi) for s in w.ctl['A'].ike_sas]
            out = w.acquire('A', sport=0, dport=0)
            n += 1
            # ... and a second one, for other traffic (another port of the same entry): both wait, neither is lost, they are negotiated in order
            out2 = w.acquire('A', sport=0, dport=81)
            after = [bytes(s.my_spi) for s in w.ctl['A'].ike_sas]
            out = out if out is not None else out2
            if out is not None or after != before:
                what = 'an IKE_SA_INIT request is sent' if out is not None and W.dec_header(bytes(out))['xchg'] == W.IKE_SA_INIT else 'a request is sent at once'
                v.violation(f'ACQUIRE while a {kind} request is outstanding on the IKE_SA with that peer: {what}, IKE_SAs {len(before)} -> {len(after)} '
                            '(it must wait for that IKE_SA)', {'outstanding': kind}, signature={'component': 'acquire:busy', 'outstanding': kind})
                continue
            res = w.dispatch('B', req, 'A')
            nxt = w.dispatch('A', res, 'B')
            if kind == 'rekeyike':
                continue                     # the follow-up is the delete of the old IKE_SA; the queued ACQUIRE moves on with the successor (C09 / C16)
            if kind == 'rekchild' and nxt is not None and W.dec_header(bytes(nxt))['xchg'] == W.INFORMATIONAL:
                res = w.dispatch('B', nxt, 'A')          # delete of the replaced CHILD_SA first
                nxt = w.dispatch('A', res, 'B')
            if nxt is None or W.dec_header(bytes(nxt))['xchg'] != W.CREATE_CHILD_SA or W.dec_header(bytes(nxt))['spi_i'] != W.dec_header(bytes(req))['spi_i']:
                v.violation(f'the ACQUIRE queued behind a {kind} request is not negotiated on the same IKE_SA once the response arrives', {'outstanding': kind},
                            signature={'component': 'acquire:queued', 'outstanding': kind})
                continue
            res = w.dispatch('B', nxt, 'A')
            nxt2 = w.dispatch('A', res, 'B')
            kids_before = sum(len(s.child_sas) for s in w.sas('A'))
            ports = lambda: sorted(c.tsr.get_port() if s.is_initiator else c.tsi.get_port() for s in w.sas('A') for c in s.child_sas)
            if nxt2 is None or W.dec_header(bytes(nxt2))['xchg'] != W.CREATE_CHILD_SA:
                v.violation(f'the second ACQUIRE queued behind a {kind} request is lost: nothing is negotiated for it', {'outstanding': kind, 'peer_ports_of_child_sas': ports()},
                            signature={'component': 'acquire:queued-second', 'outstanding': kind})
                continue
            res = w.dispatch('B', nxt2, 'A')
            w.dispatch('A', res, 'B')
            if sum(len(s.child_sas) for s in w.sas('A')) != kids_before + 1 or not (set(ports()) & {0, 81}):
                v.violation(f'the second ACQUIRE queued behind a {kind} request did not yield a CHILD_SA that covers its traffic (peer port 81)', {'peer_ports_of_child_sas': ports()},
                            signature={'component': 'acquire:queued-second-ts', 'outstanding': kind})
        except wd.Escape as ex:
            v.violation(f'acquire while busy ({kind}): {ex}', {}, signature={'component': 'acquire:busy-escape', 'outstanding': kind})
        finally:
            w.close()
    return n


def acquire_unknown_index(v):
    """An ACQUIRE whose policy index belongs to no protect entry is IGNORED - whatever the daemon holds at that moment: no IKE_SA with the peer, an idle
    established one, one with a request outstanding.  Ignored means: no datagram, the table / IKE_SAs / kernel as before, and afterwards an ACQUIRE with a
    known index is still negotiated on the existing IKE_SA and the peer's requests on it are still answered."""
    import probes
    n = 0
    for situation in ('none', 'idle', 'busy'):
        w = wd.World(seed=common.SEED, opts={'dpd': 50, 'lifetime': 500})
        try:
            if situation != 'none':
                w.establish('A')
            if situation == 'busy':
                sa = w.sas('A')[0]
                sa.start_dpd_at = w.now - 1
                outstanding = w.timer('A', sa, 'check_dead_peer_detection_timer')
            before = probes.world_snapshot(w)
            listed = [bytes(s.my_spi) for s in w.ctl['A'].ike_sas if s.state.name != 'INITIAL']
            out = w.acquire('A', sport=0, dport=0, index=4242)
            n += 1
            after = probes.world_snapshot(w)
            # (observation O-3: a blank INITIAL IKE_SA may be left listed; a busy IKE_SA queues the event and ignores it when its turn comes)
            diff = [d for d in probes.diff_snapshots(before, after) if 'INITIAL' not in str(d) and not (situation == 'busy' and '.pending' in str(d))]
            if out is not None or [bytes(s.my_spi) for s in w.ctl['A'].ike_sas if s.state.name != 'INITIAL'] != listed or (situation != 'none' and diff):
                v.violation(f'an ACQUIRE for an unknown policy index is not ignored (IKE_SA with the peer: {situation}): '
                            f'{"a datagram is sent; " if out is not None else ""}{diff[:3]}', {'situation': situation}, signature={'component': 'acquire:unknown', 'situation': situation})
                continue
            if situation == 'none':
                # ... and nothing is left behind that would stand in the way later: the peer now sets up an IKE_SA, and a valid ACQUIRE re-uses THAT one
                m0, cur0 = w.acquire('B', sport=0, dport=0), 'B'
                while m0 is not None:
                    nxt0 = w.peer_of(cur0)
                    m0, cur0 = w.dispatch(nxt0, m0, cur0), nxt0
                listed = [x.state.name for x in w.ctl['A'].ike_sas]
                nxt = w.acquire('A', sport=0, dport=0)
                if 'ESTABLISHED' not in listed:
                    raise common.MachineryError(f'the peer-initiated IKE_SA did not come up: {listed}')
                if nxt is None or W.dec_header(bytes(nxt))['xchg'] != W.CREATE_CHILD_SA:
                    v.violation(f'after an ignored ACQUIRE (unknown index, no IKE_SA at the time) and an IKE_SA set up by the peer (IKE_SAs listed: {listed}) a valid ACQUIRE '
                                'does not re-use the established IKE_SA', {'listed': listed}, signature={'component': 'acquire:unknown-after', 'what': 'zombie'})
                continue
            if situation == 'busy':
                res = w.dispatch('B', outstanding, 'A')
                if w.dispatch('A', res, 'B') is not None:
                    v.violation('the queued ACQUIRE for an unknown policy index is negotiated when its turn comes', {}, signature={'component': 'acquire:unknown-queued'})
                    continue
            # the peer's liveness probe on the IKE_SA is still answered, a known index still rides on it
            b = w.sas('B')[0]
            b.start_dpd_at = w.now - 1
            probe = w.timer('B', b, 'check_dead_peer_detection_timer')
            ans = w.dispatch('A', probe, 'B')
            if ans is None:
                v.violation(f'after an ignored ACQUIRE (unknown index, {situation}) the peer\'s request on the IKE_SA is no longer answered', {}, signature={'component': 'acquire:unknown-after', 'what': 'dpd'})
                continue
            w.dispatch('B', ans, 'A')
            nxt = w.acquire('A', sport=0, dport=0)
            if nxt is None or W.dec_header(bytes(nxt))['xchg'] != W.CREATE_CHILD_SA:
                v.violation(f'after an ignored ACQUIRE (unknown index, {situation}) a known index is not negotiated on the existing IKE_SA', {}, signature={'component': 'acquire:unknown-after', 'what': 'reuse'})
        except wd.Escape as ex:
            v.violation(f'acquire for an unknown index ({situation}): {ex}', {}, signature={'component': 'acquire:unknown-escape'})
        finally:
            w.close()
    return n


def acquire_around_rekey(v):
    """An ACQUIRE is negotiated on an IKE_SA that still takes work: right after an IKE_SA rekey the old IKE_SA is still listed (REKEYED at the responder of the
    rekey, DEL_AFTER_REKEY_IKE_SA_REQ_SENT at its initiator) in front of its successor - the ACQUIRE belongs to the successor (CREATE_CHILD_SA with its SPIs,
    at once); while the daemon's own DELETE of the IKE_SA is outstanding there is nothing to re-use - a new IKE_SA is started."""
    n = 0
    for side in ('initiator of the rekey', 'responder of the rekey', 'being deleted'):
        w = wd.World(seed=common.SEED, opts={'dpd': 5000, 'lifetime': 5000})
        try:
            w.establish('A')
            a = w.sas('A')[0]
            if side == 'being deleted':
                a.delete_ike_sa_at = w.now - 1
                w.timer('A', a, 'check_rekey_ike_sa_timer')            # DELETE(IKE_SA) sent, answer outstanding
                e = 'A'
            else:
                a.rekey_ike_sa_at = w.now - 1
                req = w.timer('A', a, 'check_rekey_ike_sa_timer')
                a.rekey_ike_sa_at = w.now + 1e9
                res = w.dispatch('B', req, 'A')                        # B: old IKE_SA REKEYED + successor
                e = 'B'
                if side == 'initiator of the rekey':
                    w.dispatch('A', res, 'B')                          # A: old IKE_SA DEL_AFTER_REKEY_IKE_SA_REQ_SENT + successor (its DELETE is in flight)
                    e = 'A'
            states = [x.state.name for x in w.ctl[e].ike_sas]
            succ = next((x for x in w.ctl[e].ike_sas if x.state.name == 'ESTABLISHED'), None)
            if side != 'being deleted' and succ is None:
                raise common.MachineryError(f'no successor after the IKE_SA rekey: {states}')
            out = w.acquire(e, sport=0, dport=0)
            n += 1
            if out is None:
                v.violation(f'ACQUIRE at the {side}: IKE_SAs {states} - nothing is sent (the ACQUIRE is parked on an IKE_SA that is on its way out and lost with it)',
                            {'side': side, 'states': states}, signature={'component': 'acquire:closing', 'side': side})
                continue
            h = W.dec_header(bytes(out))
            if side == 'being deleted':
                ok = h['xchg'] == W.IKE_SA_INIT
            else:
                ok = h['xchg'] == W.CREATE_CHILD_SA and (h['spi_i'], h['spi_r']) == (bytes(succ.spi_i), bytes(succ.spi_r))
            if not ok:
                v.violation(f'ACQUIRE at the {side}: IKE_SAs {states} - the request (exchange {h["xchg"]}) does not go out on the IKE_SA that takes new work', {'side': side},
                            signature={'component': 'acquire:closing-wrong', 'side': side})
        except wd.Escape as ex:
            v.violation(f'acquire around a rekey ({side}): {ex}', {}, signature={'component': 'acquire:closing-escape'})
        finally:
            w.close()
    return n


def acquire_multihomed(v):
    """Two connections towards the SAME peer address from two local addresses (the configuration is keyed by the address pair): an ACQUIRE of the second
    connection's policy is negotiated for THAT connection - from its local address, with its entry's protocol and selectors - also while an IKE_SA of the
    first connection exists, in either order; the IKE_SA of the first connection is not disturbed and further ACQUIREs of each connection re-use their own."""
    import copy, probes
    from ipaddress import ip_address
    n = 0
    alt = '192.168.5.1'
    for order in ((1, 2), (2, 1)):
        a1 = wd.connection_dict('A', 'B', dpd=50, lifetime=500)
        a2 = copy.deepcopy(a1)
        a2['my_addr'] = alt
        a2['protect'] = [dict(a2['protect'][0], index=21, ipsec_proto='ah', my_subnet='10.5.1.0/24', peer_subnet='10.5.2.0/24')]
        a2['protect'][0].pop('encr', None)
        b1 = wd.connection_dict('B', 'A', dpd=50, lifetime=500)
        b2 = copy.deepcopy(b1)
        b2['peer_addr'] = alt
        b2['protect'] = [dict(b2['protect'][0], index=22, ipsec_proto='ah', my_subnet='10.5.2.0/24', peer_subnet='10.5.1.0/24')]
        b2['protect'][0].pop('encr', None)
        w = wd.World(conf={'A': {'A-B': a1, 'A2-B': a2}, 'B': {'B-A': b1, 'B-A2': b2}}, seed=common.SEED)
        me = {1: wd.addr_of('A'), 2: alt}
        pe = wd.addr_of('B')
        idx = {1: a1['protect'][0]['index'], 2: 21}
        sel = {1: (me[1], pe), 2: ('10.5.1.7', '10.5.2.9')}

        def acquire(c):
            return w.acquire('A', raw=fakekernel.enc_acquire(me[c], pe, sel[c][0], sel[c][1], 0, 0, 6, (idx[c] << 3) | 1))

        def run(c, m):
            """drive the exchange started by datagram m of connection c to its end; returns the protected requests A sent (decoded)"""
            sent, cur, at = [], m, 'A'
            while cur is not None:
                if at == 'A':
                    sent.append(bytes(cur))
                    cur, at = w.guarded('B', 'dispatch_message', w.ctl['B'].dispatch_message, bytes(cur), ip_address(pe), ip_address(me[c])), 'B'
                else:
                    cur, at = w.guarded('A', 'dispatch_message', w.ctl['A'].dispatch_message, bytes(cur), ip_address(me[c]), ip_address(pe)), 'A'
            return sent
        try:
            for step, c in enumerate(order + order):
                n += 1
                tbl_before = [(str(x.my_addr), x.state.name, len(x.child_sas)) for x in w.ctl['A'].ike_sas]
                m = acquire(c)
                if m is None:
                    v.violation(f'connections {order} towards one peer from two local addresses: the ACQUIRE of connection {c} (local address {me[c]}, index {idx[c]}) is not '
                                f'negotiated (IKE_SAs held: {tbl_before})', {'order': order, 'step': step}, signature={'component': 'acquire:multihomed', 'what': 'ignored'})
                    break
                first = step < 2
                if (W.dec_header(bytes(m))['xchg'] == W.IKE_SA_INIT) != first:
                    v.violation(f'connections {order}: ACQUIRE no. {step + 1} (connection {c}) {"does not start an IKE_SA of its own" if first else "does not re-use the IKE_SA of its connection"}',
                                {'order': order, 'step': step, 'table': tbl_before}, signature={'component': 'acquire:multihomed', 'what': 'reuse'})
                    break
                sent = run(c, m)
                mine = [x for x in w.ctl['A'].ike_sas if str(x.my_addr) == me[c]]
                if len(mine) != 1 or mine[0].state.name != 'ESTABLISHED' or len(mine[0].child_sas) != (1 if first else 2):
                    v.violation(f'connections {order}: after ACQUIRE no. {step + 1} the IKE_SA of connection {c} is {[(x.state.name, len(x.child_sas)) for x in mine]}',
                                {'order': order, 'step': step}, signature={'component': 'acquire:multihomed', 'what': 'state'})
                    break
                inner = W.dec_message(sent[-1], probes.keys_of(mine[0].my_crypto))['inner']
                prop = next(x for x in inner if x['t'] == W.SA)['proposals'][0]
                tsi = next(x for x in inner if x['t'] == W.TSI)['ts']
                want_proto = 3 if c == 1 else 2
                net = ipaddress.ip_network(me[1] + '/32' if c == 1 else '10.5.1.0/24')
                lo, hi = ipaddress.ip_address(tsi[-1]['saddr']), ipaddress.ip_address(tsi[-1]['eaddr'])
                if prop['proto'] != want_proto or not (net[0] <= lo <= hi <= net[-1]):
                    v.violation(f'connections {order}: the request for connection {c} carries protocol {prop["proto"]} / TSi {lo}-{hi}, the entry says {want_proto} / {net}',
                                {'order': order, 'step': step}, signature={'component': 'acquire:multihomed', 'what': 'content'})
                    break
                others = [(str(x.my_addr), x.state.name, len(x.child_sas)) for x in w.ctl['A'].ike_sas if str(x.my_addr) != me[c]]
                if others != [t for t in tbl_before if t[0] != me[c]]:
                    v.violation(f'connections {order}: the ACQUIRE of connection {c} disturbed the other connection\'s IKE_SA: {others}', {'order': order, 'step': step},
                                signature={'component': 'acquire:multihomed', 'what': 'other'})
                    break
        except wd.Escape as ex:
            v.violation(f'acquire with two local addresses {order}: {ex}', {}, signature={'component': 'acquire:multihomed', 'what': 'escape'})
        finally:
            w.close()
    return n


def random_indices(v):
    """Protect entries WITHOUT an explicit index (the loader draws one): every entry still gets an outbound policy of its own - the indices the kernel holds
    are pairwise different, also for entries with the same networks and ports that differ in the protocol only - and an ACQUIRE that carries the index of
    the second entry's policy is negotiated with the SECOND entry's proposal."""
    import copy, probes
    n = 0
    for variant in ('proto', 'ipsec', 'mode'):
        a = wd.connection_dict('A', 'B', dpd=50, lifetime=500)
        e1 = dict(a['protect'][0], ip_proto='tcp', ipsec_proto='esp', mode='transport')
        e1.pop('index', None)
        e2 = dict(e1, **{'proto': dict(ip_proto='udp', ipsec_proto='ah'), 'ipsec': dict(ip_proto='udp', ipsec_proto='ah', lifetime=77), 'mode': dict(ip_proto='icmp', ipsec_proto='ah', mode='tunnel')}[variant])
        e2.pop('encr', None)
        e3 = dict(e1, ip_proto='any', ipsec_proto='ah', my_subnet='10.9.1.0/24', peer_subnet='10.9.2.0/24', mode='tunnel')
        e3.pop('encr', None)
        a['protect'] = [e1, e2, e3]
        b = wd.connection_dict('B', 'A', dpd=50, lifetime=500)
        b['protect'] = [dict(b['protect'][0], ip_proto='tcp', ipsec_proto='esp', mode='transport', index=31),
                        dict({k: x for k, x in b['protect'][0].items() if k != 'encr'}, ip_proto=e2['ip_proto'], ipsec_proto='ah', mode=e2['mode'], index=32)]
        w = wd.World(conf={'A': {'A-B': a}, 'B': {'B-A': b}}, seed=common.SEED)
        try:
            outs = {k: x for k, x in observed_spd(w.kernel['A']).items() if k[-1] == 1}
            idx = sorted(x['index'] for x in outs.values())
            n += 1
            if len(outs) != 3 or len(set(idx)) != 3:
                v.violation(f'three protect entries without explicit indices (the first two differ in {variant} only): the outbound policies carry the indices {idx} - '
                            'not one index per entry', {'variant': variant, 'indices': idx}, signature={'component': 'index:distinct'})
                continue
            proto2 = PROTO[e2['ip_proto']]
            second = next(x for k, x in outs.items() if k[4] == proto2)
            req = w.acquire('A', index=second['index'] >> 3, proto=proto2 or 6)
            if req is None:
                v.violation(f'the ACQUIRE carrying the drawn index of the second entry is not negotiated ({variant})', {}, signature={'component': 'index:acquire'})
                continue
            res = w.dispatch('B', bytes(req), 'A')
            auth = bytes(w.dispatch('A', res, 'B'))
            inner = W.dec_message(auth, probes.keys_of(w.ctl['A'].ike_sas[0].my_crypto))['inner']
            prop = next(x for x in inner if x['t'] == W.SA)['proposals'][0]
            tsi = next(x for x in inner if x['t'] == W.TSI)['ts']
            transport = any(x['t'] == W.NOTIFY and x['ntype'] == 16391 for x in inner)
            if prop['proto'] != 2 or tsi[-1]['proto'] != proto2 or transport != (e2['mode'] == 'transport'):
                v.violation(f'the ACQUIRE carrying the drawn index of the second entry (AH, IP protocol {proto2}, {e2["mode"]}) is negotiated with protocol {prop["proto"]}, '
                            f'selector protocol {tsi[-1]["proto"]}, transport={transport}', {'variant': variant}, signature={'component': 'index:content'})
        except wd.Escape as ex:
            v.violation(f'entries without explicit indices ({variant}): {ex}', {}, signature={'component': 'index:escape'})
        finally:
            w.close()
    return n


def acquire_with_half_open_responder(v):
    """An IKE_SA_INIT request from the peer's address (anybody can send one) was answered and IKE_AUTH never follows: that half-open responder IKE_SA is no
    IKE_SA "with the peer" yet.  An ACQUIRE towards the peer is negotiated all the same - by an IKE_SA of the daemon's own - and once that one is established
    the next ACQUIRE rides on it, whatever is still listed in front of it (Ike.tla CtlAcquire / UsableIdx)."""
    n = 0
    w = wd.World(seed=common.SEED, opts={'dpd': 50, 'lifetime': 500})
    try:
        init = w.acquire('B', sport=0, dport=0)
        w.ctl['B'].ike_sas.clear()                               # (the peer forgets about it: the request might as well have been spoofed)
        w.dispatch('A', init, 'B')
        listed = [x.state.name for x in w.ctl['A'].ike_sas]
        if listed != ['INIT_RES_SENT']:
            raise common.MachineryError(f'no half-open responder IKE_SA: {listed}')
        req = w.acquire('A', sport=0, dport=0)
        n += 1
        if req is None or W.dec_header(bytes(req))['xchg'] != W.IKE_SA_INIT:
            v.violation('with a half-open responder IKE_SA listed for the peer (IKE_SA_INIT answered, IKE_AUTH never came) an ACQUIRE towards that peer is '
                        f'{"queued on it - nothing is sent, nothing ever drains the queue" if req is None else "not started by an IKE_SA_INIT of its own"}: it is never negotiated',
                        {'listed': listed}, signature={'component': 'acquire:half-open', 'what': 'first'})
        else:
            m, cur = req, 'A'
            while m is not None:
                nxt = w.peer_of(cur)
                m, cur = w.dispatch(nxt, m, cur), nxt
            listed = [x.state.name for x in w.ctl['A'].ike_sas]
            nxt_req = w.acquire('A', sport=0, dport=0)
            n += 1
            if 'ESTABLISHED' not in listed:
                v.violation(f'the IKE_SA started by the ACQUIRE did not come up next to the half-open one: {listed}', {}, signature={'component': 'acquire:half-open', 'what': 'establish'})
            elif nxt_req is None or W.dec_header(bytes(nxt_req))['xchg'] != W.CREATE_CHILD_SA:
                v.violation(f'IKE_SAs listed {listed}: the next ACQUIRE does not ride on the established IKE_SA', {'listed': listed}, signature={'component': 'acquire:half-open', 'what': 'reuse'})
    except wd.Escape as ex:
        v.violation(f'acquire with a half-open responder IKE_SA: {ex}', {}, signature={'component': 'acquire:half-open', 'what': 'escape'})
    finally:
        w.close()
    return n


def index_edges(v):
    """The lowest and the highest index a protect entry can have (0 - also a possible draw - and 2**20) next to an ordinary one: the outbound policy carries
    index << 3 | OUT for each of them (0 is an index like any other, not "none"), and an ACQUIRE with that value is negotiated with that entry."""
    import probes
    n = 0
    for idx in (0, 2 ** 20):
        a = wd.connection_dict('A', 'B', dpd=50, lifetime=500)
        e1 = dict(a['protect'][0], ip_proto='tcp', ipsec_proto='ah', mode='transport', index=idx, peer_port=23)
        e1.pop('encr', None)
        e2 = dict(a['protect'][0], ip_proto='udp', ipsec_proto='esp', mode='transport', index=5)
        a['protect'] = [e1, e2]
        b = wd.connection_dict('B', 'A', dpd=50, lifetime=500)
        b['protect'] = [dict({k: x for k, x in b['protect'][0].items() if k != 'encr'}, ip_proto='tcp', ipsec_proto='ah', mode='transport', index=31, my_port=23),
                        dict(b['protect'][0], ip_proto='udp', ipsec_proto='esp', mode='transport', index=32)]
        w = wd.World(conf={'A': {'A-B': a}, 'B': {'B-A': b}}, seed=common.SEED)
        try:
            outs = {k[4]: x['index'] for k, x in observed_spd(w.kernel['A']).items() if k[-1] == 1}
            n += 1
            if outs != {6: (idx << 3) | 1, 17: (5 << 3) | 1}:
                v.violation(f'protect entries with the indices {idx} and 5: the outbound policies carry {outs} (per IP protocol), expected {{6: {(idx << 3) | 1}, 17: 41}}',
                            {'index': idx, 'sent': outs}, signature={'component': 'index:edge', 'index': idx})
                continue
            req = w.acquire('A', index=idx, proto=6, dport=23)
            if req is None:
                v.violation(f'the ACQUIRE of the policy of the entry with index {idx} is not negotiated', {}, signature={'component': 'index:edge-acquire', 'index': idx})
                continue
            res = w.dispatch('B', bytes(req), 'A')
            auth = bytes(w.dispatch('A', res, 'B'))
            inner = W.dec_message(auth, probes.keys_of(w.ctl['A'].ike_sas[0].my_crypto))['inner']
            prop = next(x for x in inner if x['t'] == W.SA)['proposals'][0]
            tsr = next(x for x in inner if x['t'] == W.TSR)['ts']
            if prop['proto'] != 2 or tsr[-1]['proto'] != 6 or (tsr[-1]['sport'], tsr[-1]['eport']) != (23, 23):
                v.violation(f'the ACQUIRE of the entry with index {idx} (AH, tcp, port 23) is negotiated with protocol {prop["proto"]}, selector {tsr[-1]["proto"]} / '
                            f'{tsr[-1]["sport"]}-{tsr[-1]["eport"]}', {}, signature={'component': 'index:edge-content', 'index': idx})
        except wd.Escape as ex:
            v.violation(f'entry with index {idx}: {ex}', {}, signature={'component': 'index:escape'})
        finally:
            w.close()
    return n


def cfg(max_steps):
    return ('SPECIFICATION Spec\nCONSTANTS\n Configs = {{1}, {1, 2}, {3}, {1, 2, 3}, {4, 5}, {1, 2, 3, 4, 5}}\n MaxSteps = %d\nINVARIANT AfterStart\nINVARIANT AcquireMaps\nPROPERTY AfterStop\n'
            'VIEW View\nCHECK_DEADLOCK FALSE\n' % max_steps)


def run(tier, replay=None):
    v = common.Verdict('C15', tier, 'model_checking')
    import os, shutil, tempfile
    max_steps = 5 if tier == 'quick' else 7
    tmp = tempfile.mkdtemp(prefix='verif-pol-')
    try:
        path = os.path.join(tmp, 'p.cfg')
        open(path, 'w').write(cfg(max_steps))
        res = common.run_tlc('Policies.tla', cfg=path, timeout=600)
        common.tlc_must_pass(res, 'Policies.tla')
    finally:
        shutil.rmtree(tmp, ignore_errors=True)
    g = tlcgraph.dump('Policies.tla', cfg(max_steps) + 'ACTION_CONSTRAINT EdgeDump\n', 'policies', {}, lambda st: True)
    g.full_sources = True
    paths = g.behaviours()
    rnd = random.Random(common.SEED)
    if tier == 'quick' and len(paths) > 250:
        paths = rnd.sample(paths, 250)
    steps_total = 0
    for p in paths:
        steps = [(g.edges[i][1], g.states[g.edges[i][3]]) for i in p]
        done, err = replay_behaviour(steps, seed=common.SEED)
        steps_total += done
        if err:
            v.violation(err, {'behaviour': [s[0] for s in steps[:done + 1]]}, signature={'component': 'spd', 'what': err.split(':')[0][:40]})
    n_acq = acquire_mapping(v, tier)
    n_busy = acquire_while_busy(v) + acquire_unknown_index(v) + acquire_around_rekey(v) + acquire_multihomed(v) + random_indices(v) + index_edges(v) + acquire_with_half_open_responder(v)
    # Ike.tla CtlAcquire (queue on the IKE_SA with that peer / start one): every divergence right after an ACQUIRE in the replayed behaviours belongs here
    from checks import ikeprop
    ike_cov = dict(ikeprop.run(v, ['init'] if tier == 'quick' else ['init', 'estab', 'init3'], limit=700 if tier == 'quick' else None,
                               owns=lambda mm: mm['at'].startswith('CtlAcquire')))
    for k in list(ike_cov):
        v.coverage.pop(k, None)
    v.coverage['ike_tla_ctlacquire'] = {k: ike_cov[k] for k in ('states', 'transitions', 'traces_validated_against_impl', 'steps_compared', 'edges_replayed', 'edges_total')}
    v.coverage.update({'states': res.distinct, 'transitions': res.generated, 'traces_validated_against_impl': len(paths), 'steps_compared': steps_total,
                       'graph_edges': len(g.edges), 'acquire_cases': n_acq, 'acquire_while_busy_cases': n_busy,
                       'samples': [{'behaviour': [g.edges[i][1] for i in max(paths, key=len)]}] if paths else []})
    v.assumptions += ['five protect entries over two connections incl. networks of the other family than the tunnel; three (IPv4 ESP transport, IPv4 AH tunnel with ports, IPv6 ESP tunnel with a large index)',
                      'expected policies are read off the configuration dictionary by the harness, not by configuration.py']
    return v.finish()
