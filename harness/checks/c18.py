"""C18 - under load, no responder state or DH work without a valid cookie (spec/Cookie.tla vectors + Ike.tla cookie scenario)."""
import json
import os
import random
import shutil
import tempfile

import warnings

import common

warnings.filterwarnings('ignore')
import kdf_ref
import session
import wire_ref as W
import world as wd
from checks import ikeprop

SPI = {'s1': b'\x51' * 8, 's2': b'\x52' * 8}
NONCE = {'n1': bytes(range(32)), 'n2': bytes(range(100, 140))}
KE_PUB = kdf_ref.dh_public(19, 0x1234567)


def gen_vectors(threshold):
    tmp = tempfile.mkdtemp(prefix='verif-cookie-')
    try:
        out = os.path.join(tmp, 'vectors.json')
        cfg = os.path.join(tmp, 'cookie.cfg')
        with open(cfg, 'w') as fh:
            fh.write(f'INIT Init\nNEXT Next\nCONSTANTS\n Threshold = {threshold}\n OutFile = "{out}"\n')
        res = common.run_tlc('Cookie.tla', cfg=cfg, workers=1, timeout=600)
        if not res.ok:
            raise common.MachineryError(f'TLC on Cookie.tla: {res.error}\n{res.out[-1500:]}')
        return json.load(open(out))
    finally:
        shutil.rmtree(tmp, ignore_errors=True)


def init_request(spi, nonce, cookies, neg='ok'):
    prop = {'num': 1, 'proto': 1, 'spi': b'', 'transforms': [{'type': 1, 'id': 12, 'keylen': 256} if neg != 'noproposal' else {'type': 1, 'id': 3, 'keylen': None},
                                                          {'type': 3, 'id': 12, 'keylen': None},
                                                          {'type': 2, 'id': 5, 'keylen': None}, {'type': 4, 'id': 19, 'keylen': None}]}
    pl = [{'t': W.NOTIFY, 'proto': 0, 'spi': b'', 'ntype': 16390, 'data': c} for c in cookies]
    ke = {'t': W.KE, 'group': 19, 'data': KE_PUB}
    if neg == 'wrongke':          # the offer names the group the responder wants AND another one, in which the KE payload is
        import kdf_ref
        prop['transforms'] = prop['transforms'][:3] + [{'type': 4, 'id': 20, 'keylen': None}, {'type': 4, 'id': 19, 'keylen': None}]
        ke = {'t': W.KE, 'group': 20, 'data': kdf_ref.dh_public(20, 0x515151)}
    pl += [{'t': W.SA, 'proposals': [prop]}, {'t': W.NONCE, 'data': nonce}, ke, {'t': W.VENDOR, 'data': b'verif'}]
    return W.enc_message({'spi_i': spi, 'spi_r': b'\0' * 8, 'xchg': W.IKE_SA_INIT, 'response': False, 'initiator': True, 'mid': 0}, pl)


class Responder:
    """Endpoint B configured for peers A and C; requests are injected with a chosen source address."""

    def __init__(self, threshold, seed=0):
        conf = {'B': {'B-A': wd.connection_dict('B', 'A'), 'B-C': wd.connection_dict('B', 'C', index=7)}}
        self.w = wd.World(conf=conf, endpoints=('A', 'B', 'C'), seed=seed, cookie_threshold=threshold)
        self.n_fill = 0

    def send(self, data, src):
        w = self.w
        dh0, tab0 = len(w.dh_log), len(w.ctl['B'].ike_sas)
        reply = w.dispatch('B', data, src)
        return reply, len(w.dh_log) - dh0, len(w.ctl['B'].ike_sas) - tab0

    def classify(self, reply):
        if reply is None:
            return 'NONE', None
        m = W.dec_message(bytes(reply))
        kinds = [p['t'] for p in m['payloads']]
        if kinds == [W.NOTIFY] and m['payloads'][0]['ntype'] == 16390:
            return 'COOKIE', m['payloads'][0]['data']
        if W.SA in kinds and W.KE in kinds and W.NONCE in kinds:
            return 'INIT_OK', None
        if kinds == [W.NOTIFY] and m['payloads'][0]['ntype'] == 17:
            return 'INVALID_KE', None
        if kinds == [W.NOTIFY] and m['payloads'][0]['ntype'] == 14:
            return 'NO_PROPOSAL', None
        return 'OTHER:' + ','.join(map(str, kinds)), None

    def add_halfopen(self, fill='distinct'):
        self.n_fill += 1
        k = self.n_fill if fill == 'distinct' else 1
        spi = b'\xF0' + k.to_bytes(7, 'big')
        nonce = bytes([self.n_fill if fill != 'replayed' else 1]) * 24
        reply, _, _ = self.send(init_request(spi, nonce, []), 'A')
        kind, ck = self.classify(reply)
        if kind == 'COOKIE':
            reply, _, _ = self.send(init_request(spi, nonce, [ck]), 'A')
            kind, _ = self.classify(reply)
        if kind != 'INIT_OK':
            raise common.MachineryError(f'cannot create a half-open IKE_SA ({kind})')


def cookie_for(t, threshold, cache):
    """Black box: the cookie the responder hands out for (SPI, nonce, address) - obtained by asking an armed responder."""
    key = (t['spi'], t['nonce'], t['addr'])
    if key not in cache:
        r = Responder(0)
        reply, _, _ = r.send(init_request(SPI[t['spi']], NONCE[t['nonce']], []), t['addr'])
        kind, ck = r.classify(reply)
        r.w.close()
        if kind != 'COOKIE':
            raise common.MachineryError('an armed responder did not hand out a cookie')
        cache[key] = ck
    return cache[key]


def vectors_check(v, tier):
    threshold = 2
    data = gen_vectors(threshold)
    vectors = data['vectors']
    rnd = random.Random(common.SEED)
    if tier == 'quick':
        cut = [x for x in vectors if any(c[0] == 'cut' for c in x['cookies'])]
        vectors = rnd.sample([x for x in vectors if x not in cut], 600) + cut
    cache = {}
    junk = b'\xAA' * 32
    classes = set()
    samples = []
    n = 0
    for vec in vectors:
        t = vec['t']
        def concrete(c):
            if c == ['junk']:
                return junk
            right = cookie_for({'spi': c[1], 'nonce': c[2], 'addr': c[3]}, threshold, cache)
            if c[0] == 'cut':
                return right[:c[4]] if c[4] <= len(right) else right + b'\x00' * (c[4] - len(right))
            return right
        cookies = [concrete(c) for c in vec['cookies']]
        r = Responder(threshold, seed=common.SEED)
        try:
            fill = vec.get('fill', 'distinct')
            for _ in range(vec['h'] + (1 if fill == 'churn' else 0)):
                r.add_halfopen('distinct' if fill == 'churn' else fill)
            if fill == 'churn':
                # one more than h was created (the later ones under load, i.e. with a cookie); the FIRST one has gone on to completion since
                # (its state is set directly: the initiators of this harness are scripted and do not run IKE_AUTH)
                r.w.ctl['B'].ike_sas[0].state = wd.IkeSa.State.ESTABLISHED
            reply, dh, left = r.send(init_request(SPI[t['spi']], NONCE[t['nonce']], cookies, neg=vec.get('neg', 'ok')), t['addr'])
            kind, ck = r.classify(reply)
            exp = vec['out']
            n += 1
            cls = (vec['h'] + 1 > threshold, vec.get('fill'), vec.get('neg'), len(vec['cookies']), exp['reply'], tuple(c[0] if c == ['junk'] else (f'cut{c[4]}' if c[0] == 'cut' else ('right' if c[1:] == [t['spi'], t['nonce'], t['addr']] else 'other')) for c in vec['cookies']))
            classes.add(cls)
            if len(samples) < 3 and exp['reply'] == 'COOKIE' and vec['cookies']:
                samples.append({'half_open': vec['h'], 'tuple': t, 'cookies': vec['cookies'], 'expected': exp, 'observed': {'reply': kind, 'dh': dh, 'left': left}})
            if not vec['strict']:
                if kind not in ('COOKIE', 'INIT_OK'):
                    v.violation(f'unexpected reply {kind} to an IKE_SA_INIT request', {'vector': vec}, signature={'component': 'cookie:reply'})
                continue
            got = {'reply': kind, 'dh': dh, 'left': left}
            want = {'reply': exp['reply'], 'dh': exp['dh'], 'left': exp['left']}
            if got != want:
                v.violation(f'half-open={vec["h"]} threshold={threshold} cookies={cls[5]} fill={cls[1]} request={cls[2]}: expected {want}, observed {got}', {'vector': vec},
                            signature={'component': 'cookie:outcome', 'expected': exp['reply'], 'observed': kind, 'dh': dh, 'left': left})
            elif kind == 'COOKIE' and ck != cookie_for(t, threshold, cache):
                v.violation('the COOKIE handed out is not the one bound to this SPI, nonce and address', {'vector': vec},
                            signature={'component': 'cookie:value'})
        finally:
            r.w.close()
    v.coverage['cookie_vectors'] = {'evaluated': n, 'of': data['n'], 'distinct_classes': len(classes), 'threshold': threshold,
                                    'rule': 'Cookie.tla: half-open count 0..T+2 x (SPI, nonce, address) x cookie lists of length 0..2 over '
                                            '{cookie for any tuple, junk}; class = (armed, #cookies, expected reply, kind of each cookie)',
                                    'samples': samples}
    return data


def initiator_side(v, tier):
    """An initiator that receives a COOKIE repeats the identical request with the cookie placed first, then completes."""
    n = 0
    for opts in ({}, {'v6': True}, {'auth': 'rsa', 'ike_dh': ['modp2048']}, {'proto': 'ah', 'mode': 'tunnel'}):
        w = wd.World(opts=opts, cookie_threshold=0, seed=common.SEED)
        try:
            first = bytes(w.acquire('A'))
            reply = w.dispatch('B', first, 'A')
            m = W.dec_message(bytes(reply))
            if [p['t'] for p in m['payloads']] != [W.NOTIFY] or m['payloads'][0]['ntype'] != 16390:
                v.violation('armed responder did not answer with a lone COOKIE', {'opts': opts}, signature={'component': 'cookie:init-side'})
                continue
            if len(w.ctl['B'].ike_sas) != 0:
                v.violation('the refused request left an IKE_SA behind', {'opts': opts}, signature={'component': 'cookie:left'})
            retry = bytes(w.dispatch('A', bytes(reply), 'B'))
            a, b = W.dec_message(first), W.dec_message(retry)
            same_hdr = all(a[k] == b[k] for k in ('spi_i', 'spi_r', 'xchg', 'flags', 'mid', 'major', 'minor'))
            cookie_first = b['payloads'] and b['payloads'][0]['t'] == W.NOTIFY and b['payloads'][0]['ntype'] == 16390 \
                and b['payloads'][0]['data'] == m['payloads'][0]['data']
            if not (same_hdr and cookie_first and b['payloads'][1:] == a['payloads']):
                v.violation('the retry is not the identical request with the cookie placed first',
                            {'opts': opts, 'first': [p['t'] for p in a['payloads']], 'retry': [p['t'] for p in b['payloads']], 'mid': b['mid']},
                            signature={'component': 'cookie:retry'})
                continue
            # several cookies: the responder changes its secret (rotation / restart) before the retry arrives and hands out ANOTHER cookie - the initiator
            # repeats the same request again with the cookie it received last placed first
            if opts.get('v6') or not opts:
                w.ctl['B'].cookie_secret = bytes(reversed(bytes(w.ctl['B'].cookie_secret))) + b'\x01'
                reply2 = w.dispatch('B', retry, 'A')
                m2 = W.dec_message(bytes(reply2))
                if [p['t'] for p in m2['payloads']] != [W.NOTIFY] or m2['payloads'][0]['ntype'] != 16390 or m2['payloads'][0]['data'] == m['payloads'][0]['data']:
                    raise common.MachineryError('the responder did not hand out a different cookie after its secret changed')
                retry2 = w.dispatch('A', bytes(reply2), 'B')
                c = W.dec_message(bytes(retry2)) if retry2 is not None else None
                cookies = [p['data'] for p in c['payloads'] if p['t'] == W.NOTIFY and p['ntype'] == 16390] if c else []
                rest = [p for p in c['payloads'] if not (p['t'] == W.NOTIFY and p['ntype'] == 16390)] if c else []
                # (the implementation leaves the earlier cookie behind the new one; the responder looks at the first - the property asks for "the cookie placed first")
                if c is None or not cookies or cookies[0] != m2['payloads'][0]['data'] or c['payloads'][0]['t'] != W.NOTIFY or rest != a['payloads']:
                    v.violation('after a second, different COOKIE the retry does not carry that cookie first (and the identical request behind it)',
                                {'opts': opts, 'cookies_in_retry': len(cookies), 'is_latest': bool(cookies) and cookies[0] == m2['payloads'][0]['data']},
                                signature={'component': 'cookie:second'})
                    continue
                retry = bytes(retry2)
            s = session.Session(w)
            kinds = s.run('A', retry)
            s.judge()
            ok = [x.state.name for x in w.sas('A')] == ['ESTABLISHED'] and [x.state.name for x in w.sas('B')] == ['ESTABLISHED']
            if not ok:
                v.violation('the handshake did not complete after the cookie retry', {'opts': opts, 'kinds': kinds}, signature={'component': 'cookie:complete'})
            n += 1
        except (session.OracleError, wd.Escape) as ex:
            v.violation(f'cookie retry session: {ex}', {'opts': opts}, signature={'component': 'cookie:session'})
        finally:
            w.close()
    v.coverage['initiator_side_sessions'] = n


def input_collision(v, data):
    """Cookie.tla `Collision`: two different (SPI, nonce, address) triples whose plain concatenation is the same octet string - concretely an IPv6 source X
    with nonce N, and the IPv4 source made of the last four octets of X with nonce N | first twelve octets of X.  A responder that serves both families
    (one secret) hands the first a cookie; that cookie must NOT be accepted from the second (another nonce AND another address)."""
    col = data['collision']
    if not (len(col['a']['addr']) == 2 and len(col['b']['addr']) == 1 and col['a']['spi'] == col['b']['spi']
            and list(col['b']['nonce']) == list(col['a']['nonce']) + list(col['a']['addr'][:1]) and col['b']['addr'] == col['a']['addr'][1:]):
        raise common.MachineryError(f'the collision TLC chose has not the expected shape: {col}')
    x6, n = '2001:db8::c0a8:1', bytes(range(1, 25))
    conf = {'B': {'B-A': wd.connection_dict('B', 'A'), 'B-X': dict(wd.connection_dict('B', 'C', index=7), my_addr=wd.addr_of('B', True), peer_addr=x6)}}
    w = wd.World(conf=conf, endpoints=('A', 'B', 'C'), seed=common.SEED, cookie_threshold=0)
    r = Responder.__new__(Responder)
    r.w, r.n_fill = w, 0
    try:
        import ipaddress
        spi = b'\x5e' * 8

        def send(data, src, dst):
            dh0 = len(w.dh_log)
            reply = w.guarded('B', 'dispatch_message', w.ctl['B'].dispatch_message, bytes(data), ipaddress.ip_address(dst), ipaddress.ip_address(src))
            return reply, len(w.dh_log) - dh0
        reply, _ = send(init_request(spi, n, []), x6, wd.addr_of('B', True))
        kind, ck = r.classify(reply)
        if kind != 'COOKIE':
            raise common.MachineryError(f'the dual-stack responder did not hand out a cookie to the IPv6 source ({kind})')
        # positive control: the cookie is accepted from the source it was handed to
        reply, _ = send(init_request(spi, n, [ck]), x6, wd.addr_of('B', True))
        if r.classify(reply)[0] != 'INIT_OK':
            raise common.MachineryError('the cookie is not accepted from the source it was handed to')
        x4 = str(ipaddress.ip_address(ipaddress.ip_address(x6).packed[12:]))
        if x4 != wd.addr_of('A'):
            raise common.MachineryError('address plan changed')
        reply, dh = send(init_request(spi, n + ipaddress.ip_address(x6).packed[:12], [ck]), x4, wd.addr_of('B'))
        kind, _ = r.classify(reply)
        v.coverage['input_collision'] = {'ipv6_source': x6, 'ipv4_source': x4, 'nonce_octets': [len(n), len(n) + 12], 'reply_to_the_transplanted_cookie': kind}
        if kind != 'COOKIE' or dh:
            v.violation(f'a cookie handed to {x6} for a {len(n)}-octet nonce is accepted from {x4} with a {len(n) + 12}-octet nonce (another nonce and another address: '
                        f'the MAC input is a plain concatenation) - reply {kind}, {dh} DH computations', {}, signature={'component': 'cookie:input-collision'})
    finally:
        w.close()


def default_threshold(v):
    """The built-in threshold: requests 1..T answered normally (DH each), the following ones with a lone COOKIE and no DH."""
    r = Responder(None)
    try:
        T = r.w.ctl['B'].cookie_threshold
        outcomes = []
        for i in range(T + 4):
            reply, dh, left = r.send(init_request(bytes([0x60 + i]) * 8, bytes([i + 1]) * 20, []), 'A')
            outcomes.append((r.classify(reply)[0], dh, left))
        want = [('INIT_OK', 2, 1)] * T + [('COOKIE', 0, 0)] * 4
        if outcomes != want:
            v.violation(f'built-in threshold {T}: outcomes {outcomes}', {'expected': want}, signature={'component': 'cookie:default'})
        v.coverage['default_threshold'] = {'threshold': T, 'requests': len(outcomes)}
    finally:
        r.w.close()


def nonce_lengths(v):
    """The cookie rule holds for every nonce a peer may send (RFC 7296 2.10 / 3.9: 16 .. 256 octets), the edges included: over the threshold the cookie-less
    request draws a COOKIE notification and nothing else, the same request with that cookie is admitted, and the cookie is not accepted with a nonce of another
    length that starts with the same octets.  (`Cookie.tla` Input: the nonce's length is part of what the cookie binds.)"""
    n = 0
    for src, ln in (('A', 16), ('A', 17), ('A', 255), ('A', 256), ('C', 16), ('C', 256), ('A', 128)):
        r = Responder(0, seed=common.SEED)
        try:
            spi, nonce = b'\x53' * 8, bytes((i * 7 + ln) % 256 for i in range(ln))
            reply, dh, left = r.send(init_request(spi, nonce, []), src)
            kind, ck = r.classify(reply)
            n += 1
            if kind != 'COOKIE' or dh or left:
                v.violation(f'over the threshold a cookie-less request with a nonce of {ln} octets is answered with {kind} ({dh} DH computations, {left} IKE_SAs left), '
                            'not with a COOKIE notification alone', {'nonce_octets': ln, 'source': src}, signature={'component': 'nonce-length', 'what': 'no-cookie'})
                continue
            other = nonce[:-1] if ln > 16 else nonce + b'\x00'
            reply, dh, left = r.send(init_request(spi, other, [ck]), src)
            kind2, _ = r.classify(reply)
            if kind2 != 'COOKIE' or dh or left:
                v.violation(f'the cookie for a nonce of {ln} octets is accepted with a nonce of {len(other)} octets ({kind2})', {'nonce_octets': ln},
                            signature={'component': 'nonce-length', 'what': 'other-length'})
                continue
            reply, dh, left = r.send(init_request(spi, nonce, [ck]), src)
            kind3, _ = r.classify(reply)
            if kind3 != 'INIT_OK':
                v.violation(f'the request with a nonce of {ln} octets and the right cookie is answered with {kind3}, not admitted', {'nonce_octets': ln},
                            signature={'component': 'nonce-length', 'what': 'not-admitted'})
        except wd.Escape as ex:
            v.violation(f'nonce of {ln} octets over the threshold: {ex}', {}, signature={'component': 'nonce-length', 'what': 'escape'})
        finally:
            r.w.close()
    v.coverage['nonce_length_cases'] = n


def run(tier, replay=None):
    v = common.Verdict('C18', tier, 'model_checking')
    if replay:
        return ikeprop.replay_file(v, replay)
    ikeprop.run(v, ['init_cookie'] if tier == 'quick' else ['init_cookie', 'init3'], limit=2500 if tier == 'quick' else None)
    input_collision(v, vectors_check(v, tier))
    initiator_side(v, tier)
    nonce_lengths(v)
    default_threshold(v)
    return v.finish()
