"""C09 - colliding exchanges leave both peers consistent: no crash, no deadlock."""
import random

import common
import ikemodel
import probes
import world as wd
from checks import ikeprop
from world import IkeSa

ALLOWED_COLLISION_NOTIFIES = {'TEMPORARY_FAILURE', 'CHILD_SA_NOT_FOUND', 'INVALID_KE_PAYLOAD', 'NO_ADDITIONAL_SAS'}


def pairs_established(w, e):
    return {(bytes(s.spi_i).hex(), bytes(s.spi_r).hex()) for s in w.sas(e) if s.state == IkeSa.State.ESTABLISHED}


def child_pairs(w, e):
    return {(bytes(c.inbound_spi).hex(), bytes(c.outbound_spi).hex()) for s in w.sas(e) for c in s.child_sas}


def known_to_both(w, e, c):
    peer = w.peer_of(e)
    return any(bytes(k.inbound_spi) == bytes(c.outbound_spi) and bytes(k.outbound_spi) == bytes(c.inbound_spi)
               for s in w.sas(peer) for k in s.child_sas)


class C09Scheduler(probes.Scheduler):
    """Expire triggers only for CHILD_SAs already known to both peers (the carve-out of the property)."""

    def trigger(self):
        w, r = self.w, self.rnd
        e = r.choice(w.endpoints[:2])
        kind = r.choice(self.triggers)
        if kind in ('soft', 'hard'):
            kids = [(s, c) for s in w.sas(e) for c in s.child_sas if known_to_both(w, e, c)]
            self.log.append((kind, e))
            if kids:
                s, c = r.choice(kids)
                self.emit(e, w.expire(e, bytes(c.inbound_spi), kind == 'hard'))
            return
        # re-use the generic implementation for the other kinds
        state = r.getstate()
        r.setstate(state)
        saved = self.triggers
        self.triggers = (kind,)
        try:
            r2 = self.rnd
            # choose endpoint e again deterministically: temporarily pin choices
            class Pin:
                def __init__(s2): s2.first = True
                def choice(s2, seq):
                    if s2.first and list(seq) == list(w.endpoints[:2]):
                        s2.first = False
                        return e
                    return r2.choice(seq)
                def __getattr__(s2, n): return getattr(r2, n)
            self.rnd = Pin()
            probes.Scheduler.trigger(self)
        finally:
            self.rnd = r
            self.triggers = saved


def timeout_sweep(w, s):
    """'Everything in flight has been delivered or has timed out': deliver all, then let every ESTABLISHED IKE_SA probe its
    peer once; requests that stay unanswered are retransmitted until the built-in budget closes the IKE_SA."""
    for _ in range(6):
        if not s.drain():
            return False
        progressed = False
        for e in w.endpoints[:2]:
            for sa in list(w.sas(e)):
                if sa.state == IkeSa.State.ESTABLISHED and not getattr(sa, '_verif_probed', False):
                    sa._verif_probed = True
                    sa.start_dpd_at = w.now - 1
                    s.emit(e, w.timer(e, sa, 'check_dead_peer_detection_timer'))
                    progressed = True
        # unanswered requests: the peer does not hold the IKE_SA any more -> budget exhausted -> closed
        while s.flight:
            s.deliver_one(lossless=True)
        for e in w.endpoints[:2]:
            for sa in list(w.sas(e)):
                if sa.state.name in probes.WAITING:
                    sa.retransmit_at = w.now - 1
                    sa.retransmissions = IkeSa.MAX_RETRANSMISSIONS
                    w.timer(e, sa, 'check_retransmission_timer')
                    progressed = True
        if not progressed:
            break
    return s.drain()


def random_walks(v, seeds, depth, lossy):
    stats = {'walks': 0, 'steps': 0, 'rest_checks': 0, 'internal_errors': {}}
    sample = None
    for seed in seeds:
        w = wd.World(seed=seed, opts={'child_dh': ['ecp256'] if seed % 4 == 0 else []})
        s = C09Scheduler(w, seed, p_dup=0.15 if lossy else 0.1, p_loss=0.1 if lossy else 0.0,
                         triggers=('acquire', 'soft', 'hard', 'rekeyike', 'delike', 'dpd') + (('retx',) if lossy else ()))
        try:
            w.establish('A', sport=0, dport=0)
            for step in range(depth):
                s.step(p_trigger=0.35)
                stats['steps'] += 1
            ok = timeout_sweep(w, s)
            stats['walks'] += 1
            if not ok:
                v.violation('the system does not come to rest: requests stay outstanding after a lossless drain',
                            {'seed': seed, 'lossy': lossy, 'schedule': s.log[-30:]}, signature={'component': 'walk:norest'})
                continue
            waiting = [(e, sa.state.name) for e in 'AB' for sa in w.sas(e) if sa.state.name in probes.WAITING]
            if waiting:
                v.violation(f'IKE_SA left waiting for a response at rest: {waiting}', {'seed': seed, 'schedule': s.log[-30:]},
                            signature={'component': 'walk:waiting'})
                continue
            stats['rest_checks'] += 1
            ea, eb = pairs_established(w, 'A'), pairs_established(w, 'B')
            ca, cb = child_pairs(w, 'A'), {(o, i) for i, o in child_pairs(w, 'B')}
            if ea != eb:
                v.violation('at rest the two endpoints hold different established IKE_SAs', {'seed': seed, 'lossy': lossy, 'A': sorted(ea),
                            'B': sorted(eb), 'schedule': s.log}, signature={'component': 'walk:ike_sas', 'lossy': lossy})
            elif ca != cb:
                v.violation('at rest the two endpoints hold different CHILD_SAs', {'seed': seed, 'lossy': lossy, 'A': sorted(ca), 'B': sorted(cb),
                            'schedule': s.log}, signature={'component': 'walk:child_sas', 'lossy': lossy})
            for tb in w.internal_errors:      # handled inside the IKE_SA (fail-closed): an observation, not a violation
                last = tb.strip().splitlines()[-1][:90]
                stats['internal_errors'][last] = stats['internal_errors'].get(last, 0) + 1
            if sample is None:
                sample = {'seed': seed, 'lossy': lossy, 'schedule': s.log[:50], 'established_at_rest': sorted(ea), 'child_sas_at_rest': sorted(ca)}
        except wd.Escape as ex:
            v.violation(f'exception escaped an entry point: {ex}', {'seed': seed, 'schedule': s.log[-30:]},
                        signature={'component': 'walk:escape', 'entry': ex.entry, 'exception': type(ex.ex).__name__, 'site': ex.site})
        finally:
            w.close()
    stats['sample'] = sample
    return stats


def run(tier, replay=None):
    v = common.Verdict('C09', tier, 'model_checking')
    if replay:
        return ikeprop.replay_file(v, replay)
    scen = ['estab_c09', 'estab_idle', 'estab3_soft', 'estab3_rekey'] if tier == 'quick' else ['estab_c09', 'estab_idle', 'estab3_soft', 'estab3_rekey', 'estab3_c09', 'estab_pfs', 'estab_rekey_ke', 'init3']
    ikeprop.run(v, scen, limit=3500 if tier == 'quick' else 30000)
    # liveness: under fair delivery and a finite retransmission budget every IKE_SA eventually stops waiting
    live = []
    for sc in (['live'] if tier == 'quick' else ['live', 'live2']):
        res = ikemodel.model_check(sc, invariants=(), properties=('EventuallyQuiescent',), spec='FairSpec', constraint=False, timeout=600)
        if res.violated:
            v.violation(f'liveness: EventuallyQuiescent violated in scenario {sc}', {'tlc': res.out[-3000:]}, signature={'component': 'liveness', 'scenario': sc})
        elif not res.ok:
            raise common.MachineryError(f'TLC liveness run {sc}: {res.error}')
        live.append({'scenario': sc, 'distinct_states': res.distinct, 'states_generated': res.generated})
    v.coverage['liveness'] = live
    rnd = random.Random(common.SEED)
    n = 40 if tier == 'quick' else 600
    v.coverage['random_walks_lossless'] = random_walks(v, [rnd.randrange(1 << 30) for _ in range(n)], 50 if tier == 'quick' else 90, lossy=False)
    v.coverage['random_walks_lossy'] = random_walks(v, [rnd.randrange(1 << 30) for _ in range(n)], 50 if tier == 'quick' else 90, lossy=True)
    ikeprop.run_traces(v, 30 if tier == 'quick' else 600, 60 if tier == 'quick' else 150)     # binding B: recorded random schedules validated by TLC
    v.assumptions += ['expire triggers concern CHILD_SAs already known to both peers (carve-out in the property statement)',
                      'at rest = lossless drain, then one liveness probe per established IKE_SA, unanswered requests run out of budget']
    return v.finish()
