"""C14 - netlink/XFRM requests are byte-exact for the kernel ABI and say what was meant (spec/XfrmWire.tla vectors)."""
import errno
import ipaddress
import json
import os
import random
import shutil
import subprocess
import tempfile

import common
import fakekernel

LAYOUT_MAP = {   # XfrmWire.tla name -> struct.field of the C program
    'nlmsg_len': 'nlmsghdr.nlmsg_len', 'nlmsg_type': 'nlmsghdr.nlmsg_type', 'nlmsg_flags': 'nlmsghdr.nlmsg_flags', 'nlmsg_seq': 'nlmsghdr.nlmsg_seq',
    'nlmsg_pid': 'nlmsghdr.nlmsg_pid', 'sel_daddr': 'xfrm_selector.daddr', 'sel_saddr': 'xfrm_selector.saddr', 'sel_dport': 'xfrm_selector.dport',
    'sel_dport_mask': 'xfrm_selector.dport_mask', 'sel_sport': 'xfrm_selector.sport', 'sel_sport_mask': 'xfrm_selector.sport_mask',
    'sel_family': 'xfrm_selector.family', 'sel_prefixlen_d': 'xfrm_selector.prefixlen_d', 'sel_prefixlen_s': 'xfrm_selector.prefixlen_s',
    'sel_proto': 'xfrm_selector.proto', 'id_daddr': 'xfrm_id.daddr', 'id_spi': 'xfrm_id.spi', 'id_proto': 'xfrm_id.proto',
    'sa_sel': 'xfrm_usersa_info.sel', 'sa_id': 'xfrm_usersa_info.id', 'sa_saddr': 'xfrm_usersa_info.saddr', 'sa_lft': 'xfrm_usersa_info.lft',
    'sa_family': 'xfrm_usersa_info.family', 'sa_mode': 'xfrm_usersa_info.mode', 'sa_replay_window': 'xfrm_usersa_info.replay_window',
    'sa_flags': 'xfrm_usersa_info.flags', 'said_daddr': 'xfrm_usersa_id.daddr', 'said_spi': 'xfrm_usersa_id.spi', 'said_family': 'xfrm_usersa_id.family',
    'said_proto': 'xfrm_usersa_id.proto', 'pol_sel': 'xfrm_userpolicy_info.sel', 'pol_lft': 'xfrm_userpolicy_info.lft', 'pol_priority': 'xfrm_userpolicy_info.priority',
    'pol_index': 'xfrm_userpolicy_info.index', 'pol_dir': 'xfrm_userpolicy_info.dir', 'pol_action': 'xfrm_userpolicy_info.action', 'pol_flags': 'xfrm_userpolicy_info.flags',
    'pol_share': 'xfrm_userpolicy_info.share', 'tmpl_id': 'xfrm_user_tmpl.id', 'tmpl_family': 'xfrm_user_tmpl.family', 'tmpl_saddr': 'xfrm_user_tmpl.saddr',
    'tmpl_reqid': 'xfrm_user_tmpl.reqid', 'tmpl_mode': 'xfrm_user_tmpl.mode', 'tmpl_share': 'xfrm_user_tmpl.share', 'tmpl_optional': 'xfrm_user_tmpl.optional',
    'tmpl_aalgos': 'xfrm_user_tmpl.aalgos', 'tmpl_ealgos': 'xfrm_user_tmpl.ealgos', 'tmpl_calgos': 'xfrm_user_tmpl.calgos',
    'algo_name': 'xfrm_algo.alg_name', 'algo_key_len': 'xfrm_algo.alg_key_len'}
SIZES = {'nlmsghdr': 'nlmsghdr', 'nlattr': 'nlattr', 'sel': 'xfrm_selector', 'id': 'xfrm_id', 'lft': 'xfrm_lifetime_cfg', 'usersa_info': 'xfrm_usersa_info',
         'usersa_id': 'xfrm_usersa_id', 'userpolicy_info': 'xfrm_userpolicy_info', 'user_tmpl': 'xfrm_user_tmpl', 'usersa_flush': 'xfrm_usersa_flush', 'algo': 'xfrm_algo'}
CONSTS = {'NEWSA': 'XFRM_MSG_NEWSA', 'DELSA': 'XFRM_MSG_DELSA', 'NEWPOLICY': 'XFRM_MSG_NEWPOLICY', 'FLUSHSA': 'XFRM_MSG_FLUSHSA', 'FLUSHPOLICY': 'XFRM_MSG_FLUSHPOLICY',
          'ALG_AUTH': 'XFRMA_ALG_AUTH', 'ALG_CRYPT': 'XFRMA_ALG_CRYPT', 'TMPL': 'XFRMA_TMPL', 'REQUEST': 'NLM_F_REQUEST', 'ACK': 'NLM_F_ACK', 'AF_INET': 'AF_INET',
          'AF_INET6': 'AF_INET6', 'ALLOW': 'XFRM_POLICY_ALLOW'}


def vectors():
    tmp = tempfile.mkdtemp(prefix='verif-xw-')
    try:
        out = os.path.join(tmp, 'v.json')
        cfg = os.path.join(tmp, 'xw.cfg')
        open(cfg, 'w').write(f'INIT Init\nNEXT Next\nCONSTANTS\n OutFile = "{out}"\n')
        res = common.run_tlc('XfrmWire.tla', cfg=cfg, workers=1, timeout=600)
        if not res.ok:
            raise common.MachineryError(f'TLC on XfrmWire.tla: {res.error}\n{res.out[-2500:]}')
        return json.load(open(out))
    finally:
        shutil.rmtree(tmp, ignore_errors=True)


def check_layout(vec):
    """The specification's layout table against the kernel headers of this image (C program)."""
    fakekernel.build_native()
    C = fakekernel.layout()
    bad = []
    for k, cname in LAYOUT_MAP.items():
        if list(vec['layout'][k]) != list(C[cname]):
            bad.append((k, vec['layout'][k], C[cname]))
    for k, cname in SIZES.items():
        if vec['layout'][k] != C[cname][1]:
            bad.append((k, vec['layout'][k], C[cname]))
    if vec['layout']['algo_key'] != C['xfrm_algo.alg_key'][0]:
        bad.append(('algo_key', vec['layout']['algo_key'], C['xfrm_algo.alg_key']))
    for k, cname in CONSTS.items():
        if vec['const'][k] != C['const'][cname]:
            bad.append((k, vec['const'][k], C['const'][cname]))
    if bad:
        raise common.MachineryError(f'XfrmWire.tla layout table differs from <linux/xfrm.h>: {bad}')
    return len(LAYOUT_MAP) + len(SIZES) + len(CONSTS) + 1


class Capture:
    def __init__(self, reply=None):
        self.sent = []
        self.reply = reply

    def bind(self, a):
        pass

    def send(self, data):
        self.sent.append(bytes(data))

    def recv(self, n):
        return self.reply if self.reply is not None else fakekernel.encode_error(0, {'raw': self.sent[-1], 'seq': 0, 'pid': 0})

    def close(self):
        pass


def mask(b):
    b = bytearray(b)
    b[8:16] = bytes(8)            # nlmsg_seq / nlmsg_pid are not prescribed
    return bytes(b)


def net(addr, plen):
    return ipaddress.ip_network((bytes(addr), plen), strict=True)


def c_decode(datas):
    exe = os.path.join(common.VERIF, 'native', 'xfrmcodec')
    p = subprocess.run([exe, 'decode'], input='\n'.join(d.hex() for d in datas).encode() + b'\n', stdout=subprocess.PIPE, check=True)
    return [json.loads(l) for l in p.stdout.decode().splitlines()]


def c_encode(lines):
    exe = os.path.join(common.VERIF, 'native', 'xfrmcodec')
    p = subprocess.run([exe, 'encode'], input='\n'.join(lines).encode() + b'\n', stdout=subprocess.PIPE, check=True)
    return [bytes.fromhex(l) for l in p.stdout.decode().splitlines()]


def limbs(l):
    x = 0
    for v in l:
        x = x * 65536 + v
    return x


def run(tier, replay=None):
    v = common.Verdict('C14', tier, 'exploration')
    vec = vectors()
    n_layout = check_layout(vec)
    common.repo_import_guard()
    import logging
    logging.getLogger().setLevel(logging.CRITICAL)
    import netlink
    import xfrm
    rnd = random.Random(common.SEED)
    cap = Capture()
    netlink.NetlinkProtocol._get_socket = classmethod(lambda cls, groups: cap)
    n = {'newsa': 0, 'delsa': 0, 'newpolicy': 0, 'flush': 0, 'c_decoded': 0, 'events': 0, 'replies': 0}
    emitted = []

    def compare(kind, intent, got, want):
        if mask(got) != mask(bytes(want)):
            diff = [i for i in range(min(len(got), len(want))) if mask(got)[i] != mask(bytes(want))[i]]
            v.violation(f'{kind}: request bytes differ from the kernel layout of the intent (first differing offsets {diff[:6]}, lengths {len(got)}/{len(want)})',
                        {'intent': intent, 'got': got.hex(), 'want': bytes(want).hex()}, signature={'component': 'bytes:' + kind, 'first_offset': (diff or [-1])[0]})
            return False
        return True
    newsa = vec['newsa'] if tier == 'thorough' else rnd.sample(vec['newsa'], 400)
    for c in newsa:
        i = c['i']
        s = i['sel']
        life = -1 if i['life']['unlimited'] else limbs(i['life']['secs'])
        cap.sent.clear()
        xfrm.Xfrm.create_sa(net(s['saddr'], s['plen_s']), net(s['daddr'], s['plen_d']), s['sport'], s['dport'], bytes(i['spi']), s['proto'], i['ipsec_proto'],
                            i['mode'], ipaddress.ip_address(bytes(i['src'])), ipaddress.ip_address(bytes(i['dst'])), bytes(i['ealg']), bytes(i['ekey']),
                            bytes(i['aalg']), bytes(i['akey']), life)
        n['newsa'] += 1
        if compare('NEWSA', i, cap.sent[0], c['b']):
            emitted.append(('NEWSA', i, cap.sent[0]))
    for c in vec['delsa']:
        i = c['i']
        cap.sent.clear()
        xfrm.Xfrm.delete_sa(ipaddress.ip_address(bytes(i['dst'])), i['ipsec_proto'], bytes(i['spi']))
        n['delsa'] += 1
        if compare('DELSA', i, cap.sent[0], c['b']):
            emitted.append(('DELSA', i, cap.sent[0]))
    pols = vec['newpolicy'] if tier == 'thorough' else rnd.sample(vec['newpolicy'], 400)
    for c in pols:
        i = c['i']
        s = i['sel']
        cap.sent.clear()
        xfrm.Xfrm.create_policy(net(s['saddr'], s['plen_s']), net(s['daddr'], s['plen_d']), s['sport'], s['dport'], s['proto'], i['dir'], i['ipsec_proto'],
                                i['mode'], ipaddress.ip_address(bytes(i['src'])), ipaddress.ip_address(bytes(i['dst'])), index=limbs(i['index']))
        n['newpolicy'] += 1
        if compare('NEWPOLICY', i, cap.sent[0], c['b']):
            emitted.append(('NEWPOLICY', i, cap.sent[0]))
    # Xfrm.create_policies: the protect entries of one connection in order (XfrmWire.tla EntryLists) - every request says what ITS entry means
    import configuration
    import world as wd
    n['policy_lists'] = 0
    lists = sorted(vec['policy_lists'], key=lambda c: json.dumps(c['entries'], sort_keys=True))
    for c in (lists if tier == 'thorough' else [x for x in lists if len(x['entries']) == 3] + rnd.sample(lists, 40)):
        conn = wd.connection_dict('A', 'B')
        conn['protect'] = [{'index': e['index'], 'ip_proto': {6: 'tcp', 17: 'udp', 0: 'any'}[e['sel']['proto']], 'mode': 'tunnel' if e['mode'] else 'transport',
                            'ipsec_proto': 'esp' if e['ipsec_proto'] == 50 else 'ah', 'my_port': e['sel']['sport'], 'peer_port': e['sel']['dport'],
                            'my_subnet': f"{ipaddress.ip_address(bytes(e['sel']['saddr']))}/{e['sel']['plen_s']}",
                            'peer_subnet': f"{ipaddress.ip_address(bytes(e['sel']['daddr']))}/{e['sel']['plen_d']}"} for e in c['entries']]
        cfg = configuration.Configuration([ipaddress.ip_address(conn['my_addr'])], {'A-B': conn})
        ike_conf = next(iter(cfg.ike_configurations.values()))
        cap.sent.clear()
        xfrm.Xfrm.create_policies(ike_conf)
        n['policy_lists'] += 1
        if len(cap.sent) != len(c['requests']):
            v.violation(f'create_policies: {len(cap.sent)} requests for {len(c["entries"])} protect entries, expected {len(c["requests"])}', {'entries': c['entries']},
                        signature={'component': 'policies:count'})
            continue
        for k, (got, want) in enumerate(zip(list(cap.sent), c['requests'])):
            if compare(f'NEWPOLICY no. {k + 1} of create_policies ({len(c["entries"])} entries, entry {k // 3 + 1})', c['intents'][k], got, want):
                emitted.append(('NEWPOLICY', c['intents'][k], got))
    # Xfrm.create_child_sa: the pair of kernel SAs of one CHILD_SA (XfrmWire.tla ChildPairs) - key halves by the role in the EXCHANGE, for either role in the IKE_SA
    import collections
    import message as M
    import ikesa
    n['child_pairs'] = 0
    xfrm.random = type('R', (), {'randint': staticmethod(lambda a, b: 0)})()       # (the lifetime jitter is drawn here: the seam is the random module)
    for c in sorted(vec['child_pairs'], key=lambda x: json.dumps(x['c'], sort_keys=True)):
        cc = c['c']
        s1 = cc['sel']
        tr = M.Transform
        transforms = ([tr(tr.Type.ENCR, tr.EncrId.ENCR_AES_CBC, 256)] if cc['ipsec_proto'] == 50 else []) + [tr(tr.Type.INTEG, tr.IntegId.AUTH_HMAC_SHA2_256_128), tr(tr.Type.ESN, tr.EsnId.NO_ESN)]
        prop = M.Proposal(1, M.Proposal.Protocol.ESP if cc['ipsec_proto'] == 50 else M.Proposal.Protocol.AH, b'', transforms)
        def ragged(nw, port, proto):
            """a negotiated RANGE that is no network: the two addresses around the middle of nw - the smallest network that covers it is nw itself, so
            the kernel requests must be the very same octets (`Selectors.tla` ToNetwork)"""
            t = M.TrafficSelector.from_network(nw, port, proto)
            if nw.num_addresses < 2:
                return t
            mid = nw[0] + nw.num_addresses // 2
            return M.TrafficSelector(t.ts_type, t.ip_proto, t.start_port, t.end_port, mid - 1, mid)
        for shape in ('network', 'range'):
          mk = M.TrafficSelector.from_network if shape == 'network' else ragged
          child = ikesa.ChildSa(inbound_spi=bytes([5, 6, 7, 8]), outbound_spi=bytes([1, 2, 3, 4]), original_proposal=prop, proposal=prop,
                              tsi=mk(net(s1['saddr'], s1['plen_s']), s1['sport'], s1['proto']),
                              tsr=mk(net(s1['daddr'], s1['plen_d']), s1['dport'], s1['proto']),
                              mode=xfrm.Mode.TUNNEL if cc['mode'] else xfrm.Mode.TRANSPORT, lifetime=60)
          ring = collections.namedtuple('Keyring', ['sk_ai', 'sk_ar', 'sk_ei', 'sk_er'])(bytes(cc['keyring']['ai']), bytes(cc['keyring']['ar']), bytes(cc['keyring']['ei']), bytes(cc['keyring']['er']))
          fake_ike = type('FakeIkeSa', (), {'is_initiator': cc['ike_initiator'], 'my_addr': ipaddress.ip_address('192.168.0.1'), 'peer_addr': ipaddress.ip_address('192.168.0.2')})()
          cap.sent.clear()
          xfrm.Xfrm.create_child_sa(fake_ike, child, ring, cc['exchange_initiator'])
          n['child_pairs'] += 1
          if len(cap.sent) != 2:
              v.violation(f'create_child_sa: {len(cap.sent)} requests instead of 2', {'case': cc}, signature={'component': 'child:count'})
              continue
          for k, (got, want) in enumerate(zip(list(cap.sent), c['requests'])):
              compare(f'NEWSA no. {k + 1} of create_child_sa (selectors negotiated as a {shape}, exchange initiator: {cc["exchange_initiator"]}, IKE_SA initiator: {cc["ike_initiator"]}, protocol {cc["ipsec_proto"]})',
                      cc['intents'][k], got, want)
    for c in vec['flush']:
        cap.sent.clear()
        (xfrm.Xfrm.flush_policies if c['policy'] else xfrm.Xfrm.flush_sas)()
        n['flush'] += 1
        compare('FLUSH', c['policy'], cap.sent[0], c['b'])
    # second oracle: the same bytes decoded with the kernel's own structure definitions must say what was meant
    sample = emitted if tier == 'thorough' else rnd.sample(emitted, min(len(emitted), 300))
    for (kind, i, data), d in zip(sample, c_decode([x[2] for x in sample])):
        n['c_decoded'] += 1
        ok = d.get('framing_ok') and d['kind'] == kind and d['flags'] == 5
        if kind == 'NEWSA':
            s = i['sel']
            a = {x['type']: x for x in d['attrs']}
            ok = ok and d['sel']['saddr'] == str(ipaddress.ip_address(bytes(s['saddr']))) and d['sel']['daddr'] == str(ipaddress.ip_address(bytes(s['daddr']))) \
                and (d['sel']['sport'], d['sel']['dport']) == (s['sport'], s['dport']) and d['sel']['sport_mask'] == (0xffff if s['sport'] else 0) \
                and d['sel']['dport_mask'] == (0xffff if s['dport'] else 0) and (d['sel']['prefixlen_s'], d['sel']['prefixlen_d']) == (s['plen_s'], s['plen_d']) \
                and d['sel']['proto'] == s['proto'] and d['id']['spi'] == bytes(i['spi']).hex() and d['id']['proto'] == i['ipsec_proto'] and d['mode'] == i['mode'] \
                and d['id']['daddr'] == str(ipaddress.ip_address(bytes(i['dst']))) and d['saddr'] == str(ipaddress.ip_address(bytes(i['src']))) \
                and a[1]['alg_name'] == bytes(i['aalg']).decode() and a[1]['alg_key_len'] == 8 * len(i['akey']) and a[1]['key'] == bytes(i['akey']).hex() \
                and ((2 not in a) if i['ipsec_proto'] == 51 else (a[2]['alg_name'] == bytes(i['ealg']).decode() and a[2]['key'] == bytes(i['ekey']).hex() and a[2]['alg_key_len'] == 8 * len(i['ekey'])))
            life = i['life']
            if life['unlimited']:
                ok = ok and d['lft']['soft_add_expires_seconds'] == 0 and d['lft']['hard_add_expires_seconds'] == 0
            else:
                ok = ok and d['lft']['soft_add_expires_seconds'] == limbs(life['secs']) and d['lft']['hard_add_expires_seconds'] == limbs(life['secs']) + 10
            ok = ok and d['lft']['soft_byte_limit'] == 2 ** 64 - 1 and d['lft']['hard_packet_limit'] == 2 ** 64 - 1
        elif kind == 'DELSA':
            ok = ok and d['daddr'] == str(ipaddress.ip_address(bytes(i['dst']))) and d['spi'] == bytes(i['spi']).hex() and d['proto'] == i['ipsec_proto']
        elif kind == 'NEWPOLICY':
            t = d['attrs'][0]['tmpl']
            ok = ok and d['index'] == limbs(i['index']) and d['dir'] == i['dir'] and d['action'] == 0 and t['mode'] == i['mode'] and t['proto'] == i['ipsec_proto'] \
                and t['daddr'] == str(ipaddress.ip_address(bytes(i['dst']))) and t['saddr'] == str(ipaddress.ip_address(bytes(i['src']))) and t['count'] == 1 \
                and d['sel']['prefixlen_s'] == i['sel']['plen_s'] and d['sel']['dport'] == i['sel']['dport']
        if not ok:
            v.violation(f'{kind}: decoded with the kernel structures the request does not say what was meant', {'intent': i, 'decoded': d},
                        signature={'component': 'c_decode:' + kind})
    # kernel -> daemon: events and replies encoded with the kernel structures
    lines, expect = [], []
    # (IPv6 addresses whose upper 96 bits are zero - loopback, IPv4-compatible - and the highest ones: an address is 16 octets of its family, not a number)
    for fam, sa, da in ((2, '192.168.0.1', '192.168.0.2'), (10, '2001:db8::1', '2001:db8::2'), (10, '::1', '::2'), (10, '::192.168.0.1', '::192.168.0.2'),
                        (10, 'ffff:ffff:ffff:ffff:ffff:ffff:ffff:ffff', '::'), (2, '0.0.0.1', '255.255.255.255')):
        for sport, dport, proto, index in ((0, 0, 0, 9), (8765, 23, 6, (5 << 3) | 1), (65535, 1, 17, (2 ** 20 << 3) | 1), (256, 255, 58, 1)):
            lines.append(f'acquire family={fam} daddr={da} saddr={sa} sel_family={fam} sel_saddr={sa} sel_daddr={da} sport={sport} dport={dport} proto={proto} index={index} seq=77')
            expect.append(('acquire', fam, sa, da, sport, dport, proto, index))
    for fam, da in ((2, '10.1.2.3'), (10, '2001:db8::9'), (10, '::1'), (10, '::10.1.2.3')):
        for spi, proto, hard in (('00000001', 50, 0), ('01020304', 51, 1), ('ffffffff', 50, 1)):
            lines.append(f'expire family={fam} daddr={da} spi={spi} proto={proto} hard={hard}')
            expect.append(('expire', fam, da, spi, proto, hard))
    for data, exp in zip(c_encode(lines), expect):
        header, msg, attributes = xfrm.Xfrm.parse_message(data)
        n['events'] += 1
        if exp[0] == 'acquire':
            _, fam, sa, da, sport, dport, proto, index = exp
            got = (header.type, str(msg.id.daddr.to_ipaddr(attributes[xfrm.XFRMA_TMPL].family)), str(msg.saddr.to_ipaddr(attributes[xfrm.XFRMA_TMPL].family)),
                   str(msg.sel.saddr.to_ipaddr(msg.sel.family)), str(msg.sel.daddr.to_ipaddr(msg.sel.family)), msg.sel.sport, msg.sel.dport, msg.sel.proto,
                   msg.policy.index, msg.policy.index >> 3)
            sa, da = str(ipaddress.ip_address(sa)), str(ipaddress.ip_address(da))          # (one textual form)
            want = (fakekernel.C('XFRM_MSG_ACQUIRE'), da, sa, sa, da, sport, dport, proto, index, index >> 3)
        else:
            _, fam, da, spi, proto, hard = exp
            got = (header.type, bytes(msg.state.id.spi).hex(), bool(msg.hard), msg.state.id.proto)
            want = (fakekernel.C('XFRM_MSG_EXPIRE'), spi, bool(hard), proto)
        if got != want:
            v.violation(f'{exp[0]} event encoded with the kernel structures is decoded to other values', {'want': want, 'got': got}, signature={'component': 'event:' + exp[0]})
    for err in (0, errno.EEXIST, errno.ESRCH, errno.EINVAL, errno.EPERM):
        reply = c_encode([f'{"ack" if err == 0 else "error"} errno={err} seq=5'])[0]
        cap2 = Capture(reply=reply)
        netlink.NetlinkProtocol._get_socket = classmethod(lambda cls, groups: cap2)
        n['replies'] += 1
        try:
            xfrm.Xfrm.send_recv(xfrm.XFRM_MSG_FLUSHSA, 5, xfrm.XfrmUserSaFlush(proto=0))
            raised = False
        except netlink.NetlinkError:
            raised = True
        if raised != (err != 0):
            v.violation(f'kernel reply errno={err}: {"raised" if raised else "accepted"}', {}, signature={'component': 'reply', 'errno': err})
    total = sum(n.values())
    v.coverage.update({'evaluations': total + n_layout, 'distinct_nontrivial': n['newsa'] + n['delsa'] + n['newpolicy'] + n['events'], 'counts': n, 'layout_entries_checked': n_layout,
                       'rule': 'Xfrm.create_policies over the EntryLists of XfrmWire.tla (1-3 protect entries in order, ESP / AH x transport / tunnel: three requests per entry, each byte-compared with the intent of its own entry); XfrmWire.tla universe: network-aligned IPv4/IPv6 selectors (/0 /8 /24 /32 /64 /128), ports {0,1,255,256,65535}, IP protocols {0,6,17,58}, ESP/AH, both '
                               'modes, every algorithm / key size, lifetimes {-1, 1, 60, 2^32+5}, SPIs {1, 0x01020304, 0xffffffff}, policy indices {0, 9, 2^20+1, 2^29-1}, directions: every '
                               'selector with one parameter set + every parameter combination with two selectors; each intent compared byte for byte and decoded by a C program '
                               'using the kernel structures; events / replies encoded by that C program',
                       'samples': [{'intent': vec['newsa'][0]['i'], 'bytes': bytes(vec['newsa'][0]['b']).hex()}], 'exhaustive': tier == 'thorough'})
    v.assumptions += ['<linux/xfrm.h> / <linux/netlink.h> of this image are the kernel ABI; x86-64 little endian', 'nlmsg_seq / nlmsg_pid not prescribed (masked)']
    return v.finish()
