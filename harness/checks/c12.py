"""C12 - traffic selectors are only ever narrowed and the mode must match (spec/Selectors.tla vectors + end-to-end)."""
import ipaddress
import json
import os
import random
import shutil
import tempfile
import types

import common
import probes
import wire_ref as W
import world as wd

PORT = {0: 0, 1: 1000, 2: 2000, 3: 65535}
RPORT = {v: k for k, v in PORT.items()}


def vectors():
    tmp = tempfile.mkdtemp(prefix='verif-sel-')
    try:
        out = os.path.join(tmp, 'v.json')
        cfg = os.path.join(tmp, 'sel.cfg')
        open(cfg, 'w').write(f'INIT Init\nNEXT Next\nCONSTANTS\n OutFile = "{out}"\n')
        res = common.run_tlc('Selectors.tla', cfg=cfg, workers=1, timeout=900)
        if not res.ok:
            raise common.MachineryError(f'TLC on Selectors.tla: {res.error}\n{res.out[-2500:]}')
        return json.load(open(out))
    finally:
        shutil.rmtree(tmp, ignore_errors=True)


def addr(fam, k):
    return ipaddress.ip_address(f'10.0.0.{k}') if fam == 4 else ipaddress.ip_address(f'2001:db8::{k:x}')


def mk_ts(M, t):
    return M.TrafficSelector(7 if t['fam'] == 4 else 8, t['proto'], PORT[t['sp']], PORT[t['ep']], addr(t['fam'], t['sa']), addr(t['fam'], t['ea']))


def abs_ts(ts):
    fam = 4 if int(ts.ts_type) == 7 else 6
    return {'fam': fam, 'proto': int(ts.ip_proto), 'sp': RPORT.get(ts.start_port, -1), 'ep': RPORT.get(ts.end_port, -1),
            'sa': int(ts.start_addr) - int(addr(fam, 0)), 'ea': int(ts.end_addr) - int(addr(fam, 0))}


def function_level(v, vec, tier, rnd):
    common.repo_import_guard()
    import message as M
    import ikesa
    from configuration import IpsecConfiguration
    n = 0
    for c in (vec['subset'] if tier == 'thorough' else rnd.sample(vec['subset'], 12000)):
        got = mk_ts(M, c['a']).is_subset(mk_ts(M, c['b']))
        n += 1
        if bool(got) != c['out']:
            v.violation('TrafficSelector.is_subset differs from inclusion of the denoted packet sets', c, signature={'component': 'is_subset', 'want': c['out']})
            break
    for c in (vec['narrow'] if tier == 'thorough' else rnd.sample(vec['narrow'], 5000)):
        protect = [IpsecConfiguration(my_ts=mk_ts(M, e['my']), index=i + 1, peer_ts=mk_ts(M, e['peer']), lifetime=5, mode=None, proposal=None)
                   for i, e in enumerate(c['policy'])]
        fake = types.SimpleNamespace(configuration=types.SimpleNamespace(protect=protect))
        try:
            conf, tsr, tsi = ikesa.IkeSa._get_ipsec_configuration(fake, M.PayloadTSi([mk_ts(M, t) for t in c['tsi']]), M.PayloadTSr([mk_ts(M, t) for t in c['tsr']]))
            got = {'ok': True, 'entry': conf.index, 'tsi': abs_ts(tsi), 'tsr': abs_ts(tsr)}
        except M.TsUnacceptable:
            got = {'ok': False}
        n += 1
        if got != c['out']:
            v.violation('_get_ipsec_configuration differs from the narrowing rule of the specification', {'case': c, 'got': got},
                        signature={'component': 'narrow', 'want_ok': c['out']['ok'], 'got_ok': got['ok']})
            break
    for c in vec['rekey']:
        protect = [IpsecConfiguration(my_ts=mk_ts(M, e['my']), index=i + 1, peer_ts=mk_ts(M, e['peer']), lifetime=5, mode=None, proposal=None)
                   for i, e in enumerate(c['policy'])]
        fake = types.SimpleNamespace(configuration=types.SimpleNamespace(protect=protect))
        try:
            conf, tsr, tsi = ikesa.IkeSa._get_ipsec_configuration(fake, M.PayloadTSi([mk_ts(M, c['tsi'])]), M.PayloadTSr([mk_ts(M, c['tsr'])]), narrow=False)
            got = {'ok': True, 'entry': conf.index, 'tsi': abs_ts(tsi), 'tsr': abs_ts(tsr)}
        except M.TsUnacceptable:
            got = {'ok': False}
        except TypeError as ex:
            got = {'error': str(ex)}
        n += 1
        if got != c['out']:
            v.violation('matching the selectors of a rekey request against the policy differs from `RekeyMatch` of the specification (no narrowing)', {'case': c, 'got': got},
                        signature={'component': 'rekeymatch'})
            break
    for c in vec['convert']:
        net = ipaddress.ip_network(f'10.0.0.{c["net"]["base"]}/{29 + c["net"]["len"]}')
        ts = M.TrafficSelector.from_network(net, PORT[c['port']], c['proto'])
        n += 1
        if abs_ts(ts) != c['ts'] or ts.get_network() != net or ts.get_port() != PORT[c['port']]:
            v.violation('network / port <-> selector conversion is not exact for a configured network', {'case': c, 'got': abs_ts(ts), 'back': str(ts.get_network())},
                        signature={'component': 'convert'})
            break
    for c in vec['tonet']:
        ts = mk_ts(M, c['ts'])
        want = ipaddress.ip_network(f'10.0.0.{c["net"]["base"]}/{29 + c["net"]["len"]}')
        n += 1
        if ts.get_network() != want or ts.get_port() != PORT[c['port']]:
            v.violation('get_network / get_port differ from the smallest covering network / the port rule', {'case': c, 'got': str(ts.get_network())},
                        signature={'component': 'tonetwork'})
            break
    # the conversion at the edges of both address spaces: every prefix length at the lowest, the highest and an ordinary address (`::/0`, "all IPv6 traffic", is
    # a configured network like any other - and it is a network of ITS family whatever its numeric value)
    for base in ('::', 'ffff:ffff:ffff:ffff:ffff:ffff:ffff:ffff', '2001:db8:a::', '0.0.0.0', '255.255.255.255', '10.1.2.3', '::ffff:0:0', '::1:0:0:0'):
        fam_bits = 128 if ':' in base else 32
        for plen in range(fam_bits + 1):
            net = ipaddress.ip_network(f'{base}/{plen}', strict=False)
            ts = M.TrafficSelector.from_network(net, 0, 0)
            back = ts.get_network()
            n += 1
            if back != net or back.version != net.version or (ts.start_addr, ts.end_addr) != (net[0], net[-1]):
                v.violation(f'network -> selector -> network is not the identity for {net}: {back!r}', {'net': str(net), 'back': str(back)},
                            signature={'component': 'convert-edge', 'family': net.version})
                break
    # beyond the universe: random IPv4 / IPv6 ranges, interval arithmetic as oracle (the same definition)
    m = 3000 if tier == 'quick' else 200000
    for i in range(m):
        v6 = i % 3 == 0
        bits = 128 if v6 else 32

        def rts():
            lo = rnd.getrandbits(bits) if rnd.random() < 0.5 else rnd.getrandbits(8) << (bits - 8)
            hi = min((1 << bits) - 1, lo + rnd.choice((0, 1, 255, 1 << 16, rnd.getrandbits(bits // 2))))
            sp = rnd.choice((0, 0, 22, 1000, rnd.randrange(65536)))
            ep = 65535 if sp == 0 and rnd.random() < 0.8 else min(65535, sp + rnd.choice((0, 0, 10, 5000)))
            cls = ipaddress.IPv6Address if v6 else ipaddress.IPv4Address
            return M.TrafficSelector(8 if v6 else 7, rnd.choice((0, 6, 17)), sp, ep, cls(lo), cls(hi)), (lo, hi, sp, ep)
        a, ra = rts()
        b, rb = rts()
        if rnd.random() < 0.5:      # make containment likely
            b = M.TrafficSelector(b.ts_type, rnd.choice((0, int(a.ip_proto))), 0, 65535, type(a.start_addr)(max(0, int(a.start_addr) - rnd.getrandbits(4))),
                                  type(a.start_addr)(min((1 << bits) - 1, int(a.end_addr) + rnd.getrandbits(4))))
        want = (int(b.ip_proto) == 0 or int(a.ip_proto) == int(b.ip_proto)) and a.start_port >= b.start_port and a.end_port <= b.end_port \
            and int(a.start_addr) >= int(b.start_addr) and int(a.end_addr) <= int(b.end_addr)
        n += 1
        if bool(a.is_subset(b)) != want:
            v.violation('is_subset on random ranges differs from interval inclusion', {'a': a.to_dict(), 'b': b.to_dict()}, signature={'component': 'is_subset:random'})
            break
    return n


def end_to_end(v):
    n = 0
    # (1) requests matching no policy / asking for the other mode are refused with TS_UNACCEPTABLE and nothing is installed
    for name, a_over, b_over in (('no policy', {'peer_subnet': '192.168.0.2/32', 'ip_proto': 'tcp'}, {'my_subnet': '10.9.9.0/24', 'ip_proto': 'tcp'}),
                                 ('other protocol', {'ip_proto': 'udp'}, {'ip_proto': 'tcp'}),
                                 ('wrong mode', {'mode': 'tunnel'}, {'mode': 'transport'}),
                                 ('wrong mode', {'mode': 'transport'}, {'mode': 'tunnel'})):
        w = wd.World(opts_by_ep={'A': a_over, 'B': b_over}, seed=common.SEED)
        try:
            s_log = w.establish('A', proto=17 if a_over.get('ip_proto') == 'udp' else 6)
            b = w.sas('B')
            n += 1
            keys = probes.keys_of(b[0].my_crypto) if b else None
            m = W.dec_message(s_log[3][1], keys) if len(s_log) >= 4 and keys else None
            notifies = [W.notify_name(p['ntype']) for p in (m['inner'] if m else []) if p['t'] == W.NOTIFY and p['ntype'] < 16384]
            if 'TS_UNACCEPTABLE' not in notifies or w.kernel['B'].sad or w.kernel['A'].sad:
                v.violation(f'{name}: not refused with TS_UNACCEPTABLE / something was installed', {'notifies': notifies, 'sad_B': len(w.kernel['B'].sad)},
                            signature={'component': 'e2e:refuse', 'case': name})
        finally:
            w.close()
    # (2) acquire selectors inside the entry: installed selectors lie inside the proposal and the responder's entry
    for a_over, b_over, acq in (({'peer_subnet': '192.168.0.0/24', 'my_subnet': '192.168.0.1/32'}, {'my_subnet': '192.168.0.0/25', 'peer_subnet': '192.168.0.1/32'}, {}),
                                ({'peer_port': 23}, {'my_port': 23}, {'dport': 23}),
                                ({'ip_proto': 'any'}, {'ip_proto': 'any'}, {'proto': 17, 'dport': 53, 'sport': 5353})):
        w = wd.World(opts_by_ep={'A': a_over, 'B': b_over}, seed=common.SEED)
        try:
            import session
            s = session.Session(w)
            s.acquire('A', **acq)
            s.judge()
            n += 1
            conf_b = next(iter(w.cfg['B'].ike_configurations.values())).protect[0]
            for key, req in w.kernel['B'].sad.items():
                sel = req['sel']
                mine, peer = conf_b.my_ts, conf_b.peer_ts
                src_is_peer = req['daddr'] == wd.addr_of('B')
                s_net = ipaddress.ip_network(f"{sel['saddr']}/{sel['prefixlen_s']}", strict=False)
                d_net = ipaddress.ip_network(f"{sel['daddr']}/{sel['prefixlen_d']}", strict=False)
                p_src, p_dst = (peer, mine) if src_is_peer else (mine, peer)
                inside = s_net[0] >= p_src.start_addr and s_net[-1] <= p_src.end_addr and d_net[0] >= p_dst.start_addr and d_net[-1] <= p_dst.end_addr
                if not inside:
                    v.violation('a kernel selector is wider than the responder\'s policy entry', {'sel': sel}, signature={'component': 'e2e:wider'})
        except session.OracleError as ex:
            v.violation(f'selectors / negotiation: {ex}', {}, signature={'component': 'e2e:oracle:' + ex.kind})
        finally:
            w.close()
    # (3) a rekey whose selectors differ from those of the replaced SA is refused; (4) widened / mode-flipped responses are never installed
    #     ... and so is a rekey that asks for the other mode than the policy's (the rules for a request hold for a rekey request, too)
    for mode, edit in (('transport', 'selectors'), ('tunnel', 'selectors'), ('transport', 'mode'), ('tunnel', 'mode')):
        w = wd.World(seed=common.SEED, opts={'mode': mode})
        try:
            w.establish('A')
            a, b = w.sas('A')[0], w.sas('B')[0]
            req = bytes(w.expire('A', bytes(a.child_sas[0].inbound_spi), False))
            m = W.dec_message(req, probes.keys_of(a.my_crypto))
            inner = []
            for p in m['inner']:
                p = dict(p)
                if edit == 'selectors' and p['t'] == W.TSI:
                    p['ts'] = [dict(p['ts'][0], eaddr=bytes([192, 168, 0, 200]))]
                if edit == 'mode' and p['t'] == W.NOTIFY and p['ntype'] == 16391:
                    continue                                   # transport policy: the rekey request asks for tunnel mode
                inner.append(p)
            if edit == 'mode' and mode == 'tunnel':
                inner.insert(0, {'t': W.NOTIFY, 'proto': 0, 'spi': b'', 'ntype': 16391, 'data': b''})
            forged = probes.seal(a, 36, False, m['mid'], inner)
            before = len(w.kernel['B'].sad)
            res = w.dispatch('B', forged, 'A')
            mm = W.dec_message(bytes(res), probes.keys_of(b.my_crypto))
            n += 1
            if 'TS_UNACCEPTABLE' not in [W.notify_name(p['ntype']) for p in mm['inner'] if p['t'] == W.NOTIFY] or len(w.kernel['B'].sad) != before:
                v.violation(f'a rekey ({mode} policy) whose {edit} differ from those of the replaced SA / the policy is accepted', {'installed': len(w.kernel['B'].sad) - before},
                            signature={'component': 'e2e:rekey_' + ('ts' if edit == 'selectors' else 'mode')})
        finally:
            w.close()
    # (3b) an authentic requester with ILL-FORMED selectors (Selectors.tla IllFormed: reversed port range - 65535-0 is the wire form of OPAQUE -, reversed
    #      address range) against a policy restricted to one port / one network: refused, nothing installed - never "any port" or a wide network
    for name, edit in (('ports 65535-0', dict(sport=65535, eport=0)), ('ports 81-80', dict(sport=81, eport=80)),
                       ('addresses reversed', dict(saddr=bytes([192, 168, 0, 255]), eaddr=bytes([9, 0, 0, 0])))):
        for which in (W.TSR, W.TSI):
            w = wd.World(seed=common.SEED, opts_by_ep={'A': {'peer_port': 80}, 'B': {'my_port': 80}})
            try:
                w.establish('A', dport=80)
                a, b = w.sas('A')[0], w.sas('B')[0]
                m = W.dec_message(bytes(w.acquire('A', sport=0, dport=80)), probes.keys_of(a.my_crypto))
                inner = [dict(p, ts=[dict(p['ts'][0], **edit)]) if p['t'] == which else p for p in m['inner']]
                before = dict(w.kernel['B'].sad)
                res = w.dispatch('B', probes.seal(a, 36, False, m['mid'], inner), 'A')
                mm = W.dec_message(bytes(res), probes.keys_of(b.my_crypto)) if res is not None else {'inner': []}
                n += 1
                new = [r['sel'] for k, r in w.kernel['B'].sad.items() if k not in before]
                if new or 'TS_UNACCEPTABLE' not in [W.notify_name(p['ntype']) for p in mm['inner'] if p['t'] == W.NOTIFY]:
                    v.violation(f'a request whose {"TSr" if which == W.TSR else "TSi"} has {name} is not refused with TS_UNACCEPTABLE' + (f': installed {new[0]}' if new else ''),
                                {'installed': new}, signature={'component': 'e2e:illformed', 'case': name})
            except wd.Escape as ex:
                v.violation(f'ill-formed selector ({name}): {ex}', {}, signature={'component': 'e2e:escape'})
            finally:
                w.close()
    # (4b) "for a rekey they equal those of the replaced SA" - on the requester's side too: an answer to a rekey that NARROWS the selectors is not installed
    for which in (W.TSR, W.TSI):
        w = wd.World(seed=common.SEED, opts_by_ep={'A': {'peer_subnet': '192.168.0.0/24', 'my_subnet': '192.168.0.0/24'}, 'B': {'my_subnet': '192.168.0.0/24', 'peer_subnet': '192.168.0.0/24'}})
        try:
            w.establish('A')
            a, b = w.sas('A')[0], w.sas('B')[0]
            req = w.expire('A', bytes(a.child_sas[0].inbound_spi), False)
            res = bytes(w.dispatch('B', req, 'A'))
            m = W.dec_message(res, probes.keys_of(b.my_crypto))
            inner = [dict(p, ts=[dict(p['ts'][0], saddr=bytes([192, 168, 0, 0]), eaddr=bytes([192, 168, 0, 127]))]) if p['t'] == which else p for p in m['inner']]
            newsa = sum(1 for r in w.kernel['A'].requests if r['kind'] == 'NEWSA')
            w.dispatch('A', probes.seal(b, m['xchg'], True, m['mid'], inner), 'B')
            n += 1
            if sum(1 for r in w.kernel['A'].requests if r['kind'] == 'NEWSA') != newsa:
                v.violation(f'the answer to a CHILD_SA rekey with a NARROWED {"TSr" if which == W.TSR else "TSi"} was installed by the requester (a rekeyed SA has the selectors of the one it replaces)',
                            {}, signature={'component': 'e2e:rekey_narrowed'})
        except wd.Escape as ex:
            v.violation(f'narrowed rekey answer: {ex}', {}, signature={'component': 'e2e:escape'})
        finally:
            w.close()
    # (4c) ... and on the responder's side when its policy has SEVERAL entries: the rekey request carries the old selectors, and matching them against the policy
    #      once more must not narrow them to an earlier, smaller entry (the CHILD_SA was negotiated under the later, wider one: the responder itself started it)
    for first in (dict(ip_proto='tcp', peer_port=80), dict(ip_proto='udp'), dict(ip_proto='tcp', my_port=443, mode='tunnel')):
        nets = {'my_subnet': '10.1.0.0/16', 'peer_subnet': '10.2.0.0/16'}
        rnets = {'my_subnet': '10.2.0.0/16', 'peer_subnet': '10.1.0.0/16'}
        ca = wd.connection_dict('A', 'B', mode='tunnel', **rnets)
        cb = wd.connection_dict('B', 'A', mode='tunnel', **nets)
        wide = dict(cb['protect'][0], ip_proto='any', index=42)
        cb['protect'] = [dict(wide, index=41, **first), wide]
        ca['protect'] = [dict(ca['protect'][0], ip_proto='any')]
        w = wd.World(conf={'A': {'A-B': ca}, 'B': {'B-A': cb}}, seed=common.SEED)
        try:
            m0, cur0 = w.acquire('B', index=42, proto=17, sel_saddr='10.1.0.9', sel_daddr='10.2.0.9', sport=0, dport=0), 'B'
            while m0 is not None:
                nxt0 = w.peer_of(cur0)
                m0, cur0 = w.dispatch(nxt0, m0, cur0), nxt0
            a, b = w.sas('A')[0], w.sas('B')[0]
            if a.state.name != 'ESTABLISHED' or len(a.child_sas) != 1 or len(b.child_sas) != 1:
                raise common.MachineryError(f'the CHILD_SA under the wide entry did not come up: {a.state.name}, {len(a.child_sas)} / {len(b.child_sas)} CHILD_SAs')
            old = sorted((r['sel']['proto'], r['sel']['sport'], r['sel']['dport'], r['sel']['prefixlen_s'], r['sel']['prefixlen_d']) for r in w.kernel['B'].sad.values())
            req = bytes(w.expire('A', bytes(a.child_sas[0].inbound_spi), False))
            seen = set(w.kernel['B'].sad)
            res = w.dispatch('B', req, 'A')
            n += 1
            new = sorted((r['sel']['proto'], r['sel']['sport'], r['sel']['dport'], r['sel']['prefixlen_s'], r['sel']['prefixlen_d']) for k, r in w.kernel['B'].sad.items() if k not in seen)
            if new != old:
                v.violation(f'responder with the entries [{first}, any] on the same networks: the CHILD_SA it rekeys for the peer was negotiated under the second entry '
                            f'(kernel selectors {old}); the SAs it installs for the rekey have {new if new else "- nothing was installed"} '
                            '(a rekeyed SA has the selectors of the one it replaces)', {'first_entry': first}, signature={'component': 'e2e:rekey_responder_narrows'})
        except wd.Escape as ex:
            v.violation(f'rekey at a responder with several entries: {ex}', {}, signature={'component': 'e2e:escape'})
        finally:
            w.close()
    for name in ('widen tsr', 'widen tsi', 'drop transport mode', 'add transport mode', 'two tsr, the wide one first', 'two tsi, the wide one first'):
        for stage in ('auth', 'child'):
            mode = 'tunnel' if name == 'add transport mode' else 'transport'
            w = wd.World(seed=common.SEED, opts={'mode': mode})
            try:
                if stage == 'auth':
                    req = w.dispatch('A', w.dispatch('B', w.acquire('A'), 'A'), 'B')
                else:
                    w.establish('A')
                    req = w.acquire('A', sport=0, dport=0)
                res = bytes(w.dispatch('B', req, 'A'))
                b = w.sas('B')[0]
                m = W.dec_message(res, probes.keys_of(b.my_crypto))
                inner = []
                for p in m['inner']:
                    p = dict(p)
                    if p['t'] == (W.TSR if name == 'widen tsr' else W.TSI) and name.startswith('widen'):
                        p['ts'] = [dict(p['ts'][0], saddr=bytes([192, 168, 0, 0]), eaddr=bytes([192, 168, 0, 255]))]
                    if p['t'] == (W.TSR if 'tsr' in name else W.TSI) and name.startswith('two'):
                        # a list of two selectors: what is installed is the first one - it is the first one that must lie inside what was proposed
                        p['ts'] = [dict(p['ts'][0], saddr=bytes([0, 0, 0, 0]), eaddr=bytes([255, 255, 255, 255]), sport=0, eport=65535), p['ts'][0]]
                    if name == 'drop transport mode' and p['t'] == W.NOTIFY and p['ntype'] == 16391:
                        continue
                    inner.append(p)
                if name == 'add transport mode':
                    inner.insert(0, {'t': W.NOTIFY, 'proto': 0, 'spi': b'', 'ntype': 16391, 'data': b''})
                forged = probes.seal(b, m['xchg'], True, m['mid'], inner)
                newsa = sum(1 for r in w.kernel['A'].requests if r['kind'] == 'NEWSA')
                w.dispatch('A', forged, 'B')
                n += 1
                if sum(1 for r in w.kernel['A'].requests if r['kind'] == 'NEWSA') != newsa:
                    v.violation(f'{stage} response ({name}) was installed by the initiator', {}, signature={'component': 'e2e:installed', 'tamper': name, 'stage': stage})
            except wd.Escape as ex:
                v.violation(f'{stage} response ({name}): {ex}', {}, signature={'component': 'e2e:escape'})
            finally:
                w.close()
    return n


def run(tier, replay=None):
    v = common.Verdict('C12', tier, 'model_checking')
    rnd = random.Random(common.SEED)
    vec = vectors()
    n_fun = function_level(v, vec, tier, rnd)
    n_e2e = end_to_end(v)
    v.coverage.update({'evaluations': n_fun + n_e2e, 'distinct_nontrivial': n_fun, 'spec_subset_pairs': len(vec['subset']), 'spec_narrow_cases': len(vec['narrow']),
                       'function_level': n_fun, 'end_to_end': n_e2e,
                       'rule': 'Selectors.tla: 264 selectors (2 families x {any, tcp, udp} x 4 port ranges x 11 address ranges): SubsetTheorem (implemented containment = '
                               'packet-set inclusion) for all pairs, ConversionTheorem for all networks, NarrowOk for 62720 (policy, TSi list, TSr list) cases, all checked by TLC; '
                               'the vectors are compared with is_subset / _get_ipsec_configuration / from_network / get_network / get_port; random IPv4/IPv6 ranges beyond; '
                               'end to end: refusals, installed selectors inside the entry, rekey selectors, tampered responses',
                       'samples': [vec['narrow'][0]], 'exhaustive': tier == 'thorough'})
    return v.finish()
