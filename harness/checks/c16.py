"""C16 - datagrams reach the right IKE_SA and the IKE_SA table stays exact."""
import common
from checks import ikeprop


def status_query(v):
    """The local status query (through the real main_loop) reports exactly the table's IKE_SAs with SPIs, role, state and CHILD_SAs."""
    import json
    import random
    import mainloop
    n = 0
    for schedule in (['legit', 'control'], ['legit', 'legit', 'control'], ['legit', 'legit', 'legit', 'control', 'legit', 'control'],
                     ['legit', 'legit', 'acquire_unknown_index', 'control'],
                     # ... while the peer rekeys the IKE_SA: the old IKE_SA (REKEYED, waiting for its DELETE) is still an IKE_SA of the table
                     ['legit'] * 5 + ['control', 'legit', 'control', 'legit', 'control'], ['legit'] * 4 + ['control', 'legit', 'control', 'control']):
        loop = mainloop.Loop(seed=common.SEED)
        loop.rnd = random.Random(common.SEED)
        tables = []
        orig = mainloop.FakeConn.sendall

        def sendall(self, data, loop=loop, tables=tables):
            orig(self, data)
            tables.append([{'my_spi': bytes(s.my_spi).hex(), 'peer_spi': bytes(s.peer_spi).hex(), 'is_initiator': bool(s.is_initiator), 'state': s.state.name,
                            'children': [(bytes(c.inbound_spi).hex(), bytes(c.outbound_spi).hex(), c.mode.name, c.proposal.protocol_id.name) for c in s.child_sas]}
                           for s in loop.w.ctl['A'].ike_sas])
        mainloop.FakeConn.sendall = sendall
        try:
            ex = loop.run([{'type': 'legit'} if k == 'legit' else {'type': 'lazy', 'kind': k} for k in schedule])
        finally:
            mainloop.FakeConn.sendall = orig
            loop.w.close()
        if ex is not None:
            v.violation(f'status query scenario ended with {type(ex).__name__}: {ex}', {'schedule': schedule}, signature={'component': 'status:escape'})
            continue
        for raw, table in zip(loop.status_replies, tables):
            n += 1
            try:
                rep = json.loads(raw.decode())
            except ValueError:
                v.violation('the status reply is not JSON', {'raw': raw[:200].hex()}, signature={'component': 'status:json'})
                continue
            got = [(r.get('my_spi'), r.get('peer_spi'), r.get('is_initiator'), r.get('state'), len(r.get('child_sas', []))) for r in rep]
            want = [(t['my_spi'], t['peer_spi'], t['is_initiator'], t['state'], len(t['children'])) for t in table]
            ok = got == want
            for r, t in zip(rep, table):
                for (i, o, mode, proto), c in zip(t['children'], r.get('child_sas', [])):
                    text = json.dumps(c)
                    ok = ok and i in text and o in text and mode in text and proto in text
            if not ok:
                v.violation('the status query does not report exactly the IKE_SAs of the table', {'reported': rep, 'table': table}, signature={'component': 'status:content'})
    v.coverage['status_queries'] = n


def routing_probes(v):
    """Authentic datagrams with every header SPI / flag combination: handed to the IKE_SA whose local SPI is selected by the initiator
    flag, or dropped without changing anything (unknown SPI, swapped SPIs)."""
    import probes
    import wire_ref as W
    import world as wd
    import ikereplay
    ikereplay.install_observers()
    n = 0
    w = wd.World(seed=common.SEED)
    w.handler_runs, w.routed, w.exec_count = [], [], {}
    try:
        # two IKE_SAs per endpoint (simultaneous initiation)
        for first, e in ((w.acquire('A', sport=0, dport=0), 'A'), (w.acquire('B', sport=0, dport=0), 'B')):
            m, cur = first, e
            while m is not None:
                nxt = w.peer_of(cur)
                m = w.dispatch(nxt, m, cur)
                cur = nxt
        for sa in list(w.sas('A')):
            peer = probes.peer_sa_of(w, sa)
            if peer is None:
                continue
            others = [x for x in w.sas('B') if x is not peer]
            variants = {
                'right': dict(),
                'unknown responder spi': dict(spi_r=b'\x7e' * 8) if sa.is_initiator else dict(spi_i=b'\x7e' * 8),
                'swapped spis': dict(spi_i=sa.spi_r, spi_r=sa.spi_i),
                'flag cleared': dict(initiator=not sa.is_initiator),
                'other sa spi': (dict(spi_r=others[0].my_spi) if sa.is_initiator else dict(spi_i=others[0].my_spi)) if others else None,
            }
            for name, over in variants.items():
                if over is None:
                    continue
                data = probes.seal(sa, 37, False, sa.my_msg_id, [], **over)
                before = probes.world_snapshot(w)
                w.routed.clear()
                w.handler_runs.clear()
                reply = w.dispatch(w.peer_of(sa._verif_owner), data, sa._verif_owner)
                after = probes.world_snapshot(w)
                n += 1
                if name == 'right':
                    if not w.routed or w.routed[0] is not peer or reply is None:
                        v.violation('an authentic request was not handed to the IKE_SA its header selects', {}, signature={'component': 'routing:right'})
                    sa.my_msg_id += 1      # the harness spoke for `sa`: keep its counter in step with what the peer now expects
                else:
                    if reply is not None or probes.diff_snapshots(before, after) or w.handler_runs:
                        v.violation(f'datagram with {name} was not dropped without effect', {'diff': probes.diff_snapshots(before, after)},
                                    signature={'component': 'routing:drop', 'variant': name})
    except wd.Escape as ex:
        v.violation(f'routing probe: {ex}', {}, signature={'component': 'routing:escape'})
    finally:
        w.close()
    v.coverage['routing_probes'] = n


def timeout_removal(v):
    """"An IKE_SA that ends by retransmission timeout is removed together with its kernel SAs" - for every kind of request that can stay unanswered, the
    DELETE that follows an IKE_SA rekey included (the old IKE_SA then leaves the table, its successor and the CHILD_SAs it inherited stay).  Time is the
    virtual clock, the timers are those of the real main_loop."""
    import world as wd
    n = 0
    for kind in ('dpd', 'newchild', 'rekchild', 'delchild', 'rekeyike', 'delike', 'delold'):
        w = wd.World(seed=common.SEED, opts={'dpd': 100000, 'lifetime': 100000})
        try:
            w.establish('A')
            sa = w.sas('A')[0]
            if kind == 'dpd':
                sa.start_dpd_at = w.now - 1
                req = w.timer('A', sa, 'check_dead_peer_detection_timer')
            elif kind == 'newchild':
                req = w.acquire('A', sport=0, dport=0)
            elif kind in ('rekchild', 'delchild'):
                req = w.expire('A', bytes(sa.child_sas[0].inbound_spi), kind == 'delchild')
            elif kind == 'delike':
                sa.delete_ike_sa_at = w.now - 1
                req = w.timer('A', sa, 'check_rekey_ike_sa_timer')
            else:
                sa.rekey_ike_sa_at = w.now - 1
                req = w.timer('A', sa, 'check_rekey_ike_sa_timer')
                sa.rekey_ike_sa_at = w.now + 1e9
                if kind == 'delold':
                    req = w.dispatch('A', w.dispatch('B', req, 'A'), 'B')          # the rekey completes; the DELETE of the old IKE_SA is what gets lost
            if req is None:
                raise common.MachineryError(f'no {kind} request was produced')
            old_spi = bytes(sa.my_spi)
            sent = 0
            for _ in range(60):                  # the peer is gone: nothing is ever answered
                w.now += 1.0
                sent += sum(1 for k, s_, d in w.sweep('A') if d is not None and s_ is sa)
            n += 1
            listed = [(bytes(x.my_spi).hex(), x.state.name) for x in w.ctl['A'].ike_sas]
            want = [] if kind != 'delold' else [x for x in listed if x[0] != old_spi.hex()]
            kern = len(w.kernel['A'].sad)
            if any(x[0] == old_spi.hex() for x in listed) or (kind == 'delold' and (len(listed) != 1 or listed[0][1] != 'ESTABLISHED' or kern == 0)) or (kind != 'delold' and kern):
                v.violation(f'an unanswered {kind} request: after 60 s of timer passes ({sent} retransmissions) the table is {listed} and the kernel holds {kern} SAs '
                            f'(the IKE_SA that sent it must be gone{", its successor and the inherited CHILD_SAs must stay" if kind == "delold" else " with its kernel SAs"})',
                            {'kind': kind}, signature={'component': 'timeout-removal', 'kind': kind})
        except wd.Escape as ex:
            v.violation(f'timeout removal ({kind}): {ex}', {}, signature={'component': 'timeout-removal:escape'})
        finally:
            w.close()
    v.coverage['timeout_removals'] = n


def run(tier, replay=None):
    v = common.Verdict('C16', tier, 'model_checking')
    scen = ['estab', 'init', 'adv_init'] if tier == 'quick' else ['estab_loss', 'init3', 'init_ke', 'init_cookie', 'estab_rekey_ke', 'adv_init', 'adv']
    # the table is this property's whatever kind of datagram changed it (a forged one is C03's business too)
    # ... and so is what happens right after a kernel expiry notice: it goes to the IKE_SA that owns the SPI, whatever that IKE_SA is doing
    ikeprop.run(v, scen, owns=lambda mm: mm['component'] in ('table', 'routing', 'kern', 'kernel_invariant') or mm['at'].startswith('CtlExpire')
                or (mm['component'] in ('escape', 'reply') and mm['at'] == 'Deliver:unknown'))       # a datagram for an SPI that is not (or no longer) in the table: dropped, nothing else   # 'kern': an IKE_SA that ends is removed TOGETHER WITH its kernel SAs
    if tier == 'thorough':
        ikeprop.run_traces(v, 400, 120)            # binding B: the IKE_SA table of recorded random schedules
    routing_probes(v)
    timeout_removal(v)
    status_query(v)
    v.assumptions += ['two endpoints; bounds of each scenario as listed in coverage.scenarios[*].constants',
                      'SPI tokens: the n-th 4/8-octet os.urandom draw of endpoint e is <<e,n>>']
    return v.finish()
