"""C16 - datagrams reach the right IKE_SA and the IKE_SA table stays exact."""
import common
from checks import ikeprop


def run(tier, replay=None):
    v = common.Verdict('C16', tier, 'model_checking')
    scen = ['estab', 'init'] if tier == 'quick' else ['estab_loss', 'init3', 'init_ke', 'init_cookie', 'estab_rekey_ke']
    ikeprop.run(v, scen)
    v.assumptions += ['two endpoints; bounds of each scenario as listed in coverage.scenarios[*].constants',
                      'SPI tokens: the n-th 4/8-octet os.urandom draw of endpoint e is <<e,n>>']
    return v.finish()
