"""C10 - the kernel SAD always equals the CHILD_SAs the daemon tracks (+ a kernel refusal at every netlink request)."""
import random

import common
import ikemodel
from checks import ikeprop


def run(tier, replay=None):
    v = common.Verdict('C10', tier, 'model_checking')
    if replay:
        return ikeprop.replay_file(v, replay)
    scen = ['estab', 'estab_rekey_ke'] if tier == 'quick' else ['estab_loss', 'estab_rekey_ke', 'estab_pfs', 'init3', 'init_ke']
    ikeprop.run(v, scen, limit=3000 if tier == 'quick' else None)
    if tier == 'thorough':
        ikeprop.run_traces(v, 400, 120)            # binding B: kernel SAD of recorded random schedules
    # fault enumeration: one refusal at each NEWSA / DELSA request of each behaviour
    fe = {'runs': 0, 'kinds': {}, 'violations': 0}
    for sc, n in ((('estab', 500), ('init', 200)) if tier == 'quick' else (('estab', 4000), ('init', 842), ('estab_pfs', 1500), ('estab_rekey_ke', 1500))):
        g = ikemodel.dump_graph(sc)
        paths = g.behaviours()
        random.Random(common.SEED).shuffle(paths)
        r = ikemodel.fault_enumeration(g, paths[:n], seed=common.SEED)
        fe['runs'] += r['runs']
        for k, c in r['kinds'].items():
            fe['kinds'][k] = fe['kinds'].get(k, 0) + c
        seen = set()
        for bad in r['violations']:
            key = (bad['kind'], (bad.get('refused') or '').split()[0], bad.get('after'))
            if key in seen:
                continue
            seen.add(key)
            fe['violations'] += 1
            v.violation(f"kernel refusal ({bad.get('refused')}): {bad['kind']} in scenario {sc}", bad,
                        signature={'component': 'fault:' + bad['kind'], 'refused': (bad.get('refused') or '').split()[0], 'scenario': sc},
                        replay={'scenario': sc, 'path': bad['path'], 'refuse_at': bad['refuse_at']})
    v.coverage['fault_enumeration'] = fe
    v.assumptions += ['a refused NEWSA installs nothing; a refused DELSA reports an error and the SA is absent afterwards',
                      'kernel model interprets the real netlink bytes at the offsets of <linux/xfrm.h>']
    return v.finish()
