"""C01 - peers derive the same keys and install mirror-image IPsec SAs (protocol skeleton via Ike.tla; configurations via the matrix)."""
import common
from checks import ikeprop, c01matrix


def run(tier, replay=None):
    v = common.Verdict('C01', tier, 'model_checking')
    if replay:
        return ikeprop.replay_file(v, replay)
    scen = ['estab_rekey_ke', 'estab_pfs', 'estab_pfs_same'] if tier == 'quick' else ['estab_loss', 'estab_rekey_ke', 'estab_pfs', 'estab_pfs_same', 'init_ke', 'init_cookie', 'init3']
    ikeprop.run(v, scen, limit=2500 if tier == 'quick' else None)
    c01matrix.run(v, tier)
    return v.finish()
