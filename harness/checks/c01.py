"""C01 - peers derive the same keys and install mirror-image IPsec SAs (protocol skeleton via Ike.tla; configurations via the matrix)."""
import common
from checks import ikeprop, c01matrix


def incomparable_policies(v):
    """Policies of the two peers that are neither equal nor nested (one side restricts the port, the other the network): the responder answers with a MIXED
    pair - the requester's policy-wide selector on one side (protocol any), the selector of the packet on the other (the packet's protocol).  Both ends must
    still install the same thing: mirror images, with the protocol that the pair denotes."""
    import session
    import world as wd
    from keysched import OracleError
    n = 0
    cases = [
        (dict(my_subnet='10.0.0.0/16', peer_subnet='10.1.0.0/16', peer_port=80, ip_proto='any', mode='tunnel'),
         dict(my_subnet='10.1.0.0/24', peer_subnet='10.0.0.0/16', ip_proto='any', mode='tunnel'), dict(sel_saddr='10.0.0.7', sel_daddr='10.1.0.5', sport=4444, dport=80, proto=6)),
        (dict(my_subnet='10.0.0.0/16', peer_subnet='10.1.0.0/16', my_port=53, ip_proto='any', mode='tunnel'),
         dict(my_subnet='10.1.0.0/16', peer_subnet='10.0.0.0/24', ip_proto='any', mode='tunnel'), dict(sel_saddr='10.0.0.9', sel_daddr='10.1.2.3', sport=53, dport=40000, proto=17)),
    ]
    for a_opts, b_opts, acq in cases:
        for starter in ('acquire', 'acquire+second'):
            w = wd.World(seed=common.SEED, opts_by_ep={'A': a_opts, 'B': b_opts})
            try:
                s = session.Session(w)
                kinds = s.acquire('A', **acq)
                if starter == 'acquire+second':
                    kinds += s.acquire('A', **acq)
                s.judge()
                n += 1
                if not w.kernel['A'].sad or not w.kernel['B'].sad:
                    v.violation(f'incomparable policies: nothing was installed ({kinds})', {'A': a_opts, 'B': b_opts}, signature={'component': 'policies:nothing'})
            except OracleError as ex:
                v.violation(f'incomparable policies (the answer is a mixed selector pair): {ex}', {'A': a_opts, 'B': b_opts, 'acquire': acq},
                            signature={'component': 'policies:' + ex.kind})
            except wd.Escape as ex:
                v.violation(f'incomparable policies: {ex}', {}, signature={'component': 'policies:escape'})
            finally:
                w.close()
    v.coverage['incomparable_policy_sessions'] = n


def run(tier, replay=None):
    v = common.Verdict('C01', tier, 'model_checking')
    if replay:
        return ikeprop.replay_file(v, replay)
    scen = ['estab_rekey_ke', 'estab_pfs', 'estab_pfs_same'] if tier == 'quick' else ['estab_loss', 'estab_rekey_ke', 'estab_pfs', 'estab_pfs_same', 'init_ke', 'init_cookie', 'init3']
    ikeprop.run(v, scen, limit=2500 if tier == 'quick' else None)
    c01matrix.run(v, tier)
    incomparable_policies(v)
    return v.finish()
