"""C13 - retransmission, dead-peer detection and lifetimes are bounded and faithful (spec/IkeTimers.tla)."""
import common
import timersreplay as T
import wire_ref as W
import world as wd
from world import IkeSa

INV_ALWAYS = ('Budget', 'Deleted')
PROPS = ('NoRetxAfterAnswer', 'TimersFire', 'HardLimitFixed')


def timer_models(v, tier):
    base = dict(Dpd=3, Life=8, MaxLoss=1 if tier == 'quick' else 2, StartKinds=T.ALL_KINDS, Horizon=45, MaxBusy=0, MaxProbes=0, MaxNoise=0, **T.code_constants())
    quick_kinds = ('idle', 'newchild', 'delchild', 'rekchild', 'newchild_ke', 'rekeyike_ke', 'init_cookie', 'auth')
    configs = [
        # schedule class (i): the loop sweeps at least once per second -> two-sided spacing, crash bound
        ('fine', dict(base, Ticks=(1,), SingleSweep=False, StartKinds=quick_kinds if tier == 'quick' else T.ALL_KINDS, **({} if tier == 'quick' else dict(MaxBusy=1, MaxProbes=1, MaxNoise=1))),
         INV_ALWAYS + ('SpacingFine', 'CrashBound'), 1200 if tier == 'quick' else None, None),
        # ... with what the peer may do in between: refuse the rekey (busy), probe, and unauthenticated noise (quick tier: from the two commonest starts)
        ('fine_peer', dict(base, Ticks=(1,), SingleSweep=False, MaxBusy=1, MaxProbes=1, MaxNoise=1, StartKinds=('idle', 'newchild') if tier == 'quick' else ('idle', 'newchild', 'rekchild')),
         INV_ALWAYS + ('SpacingFine', 'CrashBound'), 900 if tier == 'quick' else None, None),
        # (ii) uniform coarse tick, one sweep per tick -> gaps never shrink
        ('uniform7', dict(base, Ticks=(7,), SingleSweep=True), INV_ALWAYS + ('SpacingUniform',), 600 if tier == 'quick' else None, None),
        ('uniform3', dict(base, Ticks=(3,), SingleSweep=True, MaxBusy=1, MaxProbes=1), INV_ALWAYS + ('SpacingUniform',), 600 if tier == 'quick' else None, None),
        # (iii) mixed schedules (stalls followed by fine sweeps): budget, byte identity, give-up only (observation O-9)
        # (too large to dump: exhaustive TLC run for the invariants, simulation-mode behaviours for the replay)
        ('mixed', dict(base, Ticks=(1, 7) if tier == 'quick' else (1, 7, 40), SingleSweep=False, MaxLoss=1), INV_ALWAYS, None, (600, 45) if tier == 'quick' else (20000, 60)),
    ]
    cov = {'states': 0, 'transitions': 0, 'traces_validated_against_impl': 0, 'steps_compared': 0, 'configs': {}, 'samples': []}
    for name, c, inv, limit, sim in configs:
        res, g, tot = T.run_config(name, c, inv, PROPS, limit=limit, seed=common.SEED, simulate=sim)
        common.tlc_must_pass(res, f'IkeTimers.tla configuration {name}')
        cov['states'] += res.distinct
        cov['transitions'] += res.generated
        cov['traces_validated_against_impl'] += tot['behaviours']
        cov['steps_compared'] += tot['steps']
        cov['configs'][name] = {'constants': {k: (list(x) if isinstance(x, tuple) else x) for k, x in c.items()}, 'invariants': list(inv),
                                'distinct_states': res.distinct, 'graph_edges': len(g.edges) if g else None, 'mode': 'simulation' if sim else 'edge cover', 'behaviours': tot['behaviours'], 'steps': tot['steps'],
                                'actions': dict(tot['actions']), 'mismatches': len(tot['mismatches'])}
        seen = set()
        for mm in tot['mismatches']:
            key = (mm['component'], mm['kind'])
            if key in seen:
                continue
            seen.add(key)
            if len(cov['samples']) < 2:
                pass
            v.violation(f"timers ({name}, start={mm['kind']}): {mm['component']}: {mm['msg']}", mm,
                        signature={'component': 'timers:' + mm['component'], 'start': mm['kind'], 'config': name},
                        replay={'kind': 'timers', 'config': c, 'path': mm['path'], 'name': name, 'behaviour': mm.get('behaviour')})
        if g is not None and g.edges and len(cov['samples']) < 2:
            p = max(T.behaviours_multi_root(g)[:300], key=len)
            cov['samples'].append({'config': name, 'start': g.states[g.edges[p[0]][0]]['kind'], 'behaviour': [g.edges[i][1] for i in p][:40]})
    v.coverage.update(cov)


def shared_proposal(v):
    """Two IKE_SAs of one connection (simultaneous initiation) with requests outstanding at the same time: each retransmission
    must be byte-identical to the first transmission of *its own* request."""
    n = 0
    for variant in ('rekey_ike', 'new_child'):
        w = wd.World(seed=common.SEED, opts={'dpd': 1000, 'lifetime': 1000})
        try:
            ra, rb = w.acquire('A', sport=0, dport=0), w.acquire('B', sport=0, dport=0)
            # both handshakes complete: two IKE_SAs per endpoint
            for first, e in ((ra, 'A'), (rb, 'B')):
                m, cur = first, e
                while m is not None:
                    nxt = w.peer_of(cur)
                    m = w.dispatch(nxt, m, cur)
                    cur = nxt
            sas = [s for s in w.sas('A') if s.state == IkeSa.State.ESTABLISHED]
            if len(sas) < 2:
                raise common.MachineryError('simultaneous initiation did not give two established IKE_SAs')
            first_tx = {}
            for sa in sas[:2]:
                if variant == 'rekey_ike':
                    sa.rekey_ike_sa_at = w.now - 1
                    first_tx[id(sa)] = bytes(w.timer('A', sa, 'check_rekey_ike_sa_timer'))
                    sa.rekey_ike_sa_at = w.now + 1e9
                else:
                    first_tx[id(sa)] = bytes(sa.process_acquire(*_acquire_args(w, sa))) if False else None
            if variant == 'new_child':
                # two acquires are both routed to the first IKE_SA (second is queued): use expire on each IKE_SA's own CHILD_SA instead
                for sa in sas[:2]:
                    if sa.child_sas:
                        first_tx[id(sa)] = bytes(w.expire('A', bytes(sa.child_sas[0].inbound_spi), False))
            w.now += 3
            swept = {id(s_): d for k, s_, d in w.sweep('A') if k == 'retransmit'}       # both retransmissions are due: one visit of the loop's timer section
            for sa in sas[:2]:
                if first_tx.get(id(sa)) is None:
                    continue
                again = swept.get(id(sa))
                n += 1
                if again is None or bytes(again) != first_tx[id(sa)]:
                    v.violation(f'{variant}: with two IKE_SAs of one connection the retransmission differs from the request first sent',
                                {'first': first_tx[id(sa)].hex()[:200], 'again': again and bytes(again).hex()[:200]},
                                signature={'component': 'timers:shared-proposal', 'variant': variant})
        finally:
            w.close()
    v.coverage['shared_proposal_retransmissions'] = n


def _acquire_args(w, sa):
    return ()


def jitter_and_real_values(v):
    """Lifetime jitter is bounded (rekey within [lifetime, lifetime + 5 s] + one sweep), hard delete 30 s after the soft limit;
    with the built-in constants a dead peer costs exactly the documented budget."""
    for jitter in (0.0, 1.0):
        w = wd.World(seed=common.SEED, opts={'dpd': 7, 'lifetime': 20}, jitter=jitter)
        try:
            w.establish('A', sport=0, dport=0)
            sa = w.sas('A')[0]
            t0 = w.now
            born = sa.rekey_ike_sa_at - 20
            if not (0 <= sa.rekey_ike_sa_at - t0 - 20 <= 5.0001):
                v.violation(f'rekey deadline {sa.rekey_ike_sa_at - t0} s after creation for lifetime 20', {}, signature={'component': 'timers:jitter'})
            if abs(sa.delete_ike_sa_at - sa.rekey_ike_sa_at - 30) > 1e-6:
                v.violation('hard lifetime is not 30 s after the soft one', {}, signature={'component': 'timers:hard'})
            # dead peer: B never answers.  0.5 s sweeps.
            sent, first_probe, gone_at = [], None, None
            while w.now - t0 < 80 and gone_at is None:
                w.now += 0.5
                for k, s, d in w.sweep('A'):
                    if d is not None:
                        sent.append((round(w.now - t0, 1), k, bytes(d)))
                if not w.ctl['A'].ike_sas:
                    gone_at = w.now - t0
            delay, budget = IkeSa.RETRANSMISSION_DELAY, IkeSa.MAX_RETRANSMISSIONS
            bound = 7 + delay * budget * (budget + 1) / 2 + 0.5 * (budget + 2)
            probes_ = [x for x in sent if x[1] == 'dpd']
            if not probes_ or not (7 < probes_[0][0] <= 7.5):
                v.violation(f'liveness probe at {probes_ and probes_[0][0]} s for a DPD interval of 7 s (0.5 s sweeps)', {'sent': [(t, k) for t, k, _ in sent]},
                            signature={'component': 'timers:dpd-real'})
            elif gone_at is None or gone_at > bound or w.kernel['A'].sad:
                v.violation(f'dead peer: IKE_SA / kernel SAs still there after {bound} s (gone at {gone_at})', {'sent': [(t, k) for t, k, _ in sent]},
                            signature={'component': 'timers:crashbound-real'})
            else:
                retx = [x for x in sent if x[1] == 'retransmit']
                if len(retx) != budget - 1 or any(x[2] != probes_[0][2] for x in retx):
                    v.violation(f'{len(retx)} retransmissions of the probe (budget {budget}), identical={all(x[2] == probes_[0][2] for x in retx)}',
                                {'sent': [(t, k) for t, k, _ in sent]}, signature={'component': 'timers:budget-real'})
            v.coverage.setdefault('dead_peer_runs', []).append({'jitter': jitter, 'transmissions': [(t, k) for t, k, _ in sent], 'gone_at': gone_at, 'bound': bound})
        finally:
            w.close()


def liveness_is_per_ike_sa(v):
    """Liveness belongs to the IKE_SA, not to the peer's address: two IKE_SAs with one peer (simultaneous initiation), the peer loses ONE of them (it restarted
    and that IKE_SA is gone there) while the other one stays busy (its own liveness probes every few seconds, all answered).  The orphaned IKE_SA is probed
    after its own DPD interval and is gone - with its kernel SAs - within DPD interval + retransmission budget, whatever happens on the other one."""
    dpd = 10
    w = wd.World(seed=common.SEED, opts={'dpd': dpd, 'lifetime': 100000}, jitter=0.0)
    try:
        ra, rb = w.acquire('A', sport=0, dport=0), w.acquire('B', sport=0, dport=0)
        for first, e in ((ra, 'A'), (rb, 'B')):
            m, cur = first, e
            while m is not None:
                nxt = w.peer_of(cur)
                m, cur = w.dispatch(nxt, m, cur), nxt
        if len(w.sas('A')) != 2 or len(w.sas('B')) != 2 or any(x.state.name != 'ESTABLISHED' for x in w.sas('A') + w.sas('B')):
            raise common.MachineryError('simultaneous initiation did not give two established IKE_SAs per endpoint')
        orphan = w.sas('A')[0]
        gone_at_b = next(x for x in w.sas('B') if bytes(x.my_spi) == bytes(orphan.peer_spi))
        w.ctl['B'].ike_sas.remove(gone_at_b)                 # the peer has lost this IKE_SA; the other one lives on
        live_b = w.sas('B')[0]
        t0, probes = w.now, 0
        budget = dpd + T.code_constants()['RetxDelay'] * sum(range(1, T.code_constants()['MaxRetx'] + 1)) + T.code_constants()['MaxRetx'] + 3
        for tick in range(budget + 10):
            w.now += 1.0
            if tick % 4 == 0:                                # traffic on the live IKE_SA: the peer probes, we answer
                live_b.start_dpd_at = w.now - 1
                q = w.timer('B', live_b, 'check_dead_peer_detection_timer')
                if q is not None:
                    r = w.dispatch('A', q, 'B')
                    if r is not None:
                        w.dispatch('B', r, 'A')
            for kind, sa, d in w.sweep('A'):
                if d is not None and sa is orphan:
                    probes += 1
                    w.dispatch('B', d, 'A')                  # unknown SPI at the peer: never answered
                elif d is not None:
                    r = w.dispatch('B', d, 'A')
                    if r is not None:
                        w.dispatch('A', r, 'B')
            if orphan not in w.ctl['A'].ike_sas:
                break
        elapsed = w.now - t0
        still = orphan in w.ctl['A'].ike_sas
        v.coverage['liveness_per_ike_sa'] = {'dpd': dpd, 'bound_s': budget, 'transmissions_on_the_orphaned_ike_sa': probes, 'removed_after_s': None if still else elapsed}
        if still or probes == 0 or elapsed > budget:
            v.violation(f'two IKE_SAs with one peer, one of them lost by the peer: after {elapsed:.0f} s the orphaned IKE_SA is {"still listed" if still else "gone"} '
                        f'({probes} transmissions on it; DPD interval {dpd} s, bound {budget} s) - traffic on the OTHER IKE_SA must not stand in for its liveness',
                        {'probes': probes}, signature={'component': 'liveness:per-ike-sa'})
    except wd.Escape as ex:
        v.violation(f'liveness per IKE_SA: {ex}', {}, signature={'component': 'liveness:escape'})
    finally:
        w.close()


def crash_after_ike_rekey(v):
    """The crash bound holds for an IKE_SA whatever created it: the IKE_SA is rekeyed (by either endpoint), the old one is deleted, and the peer dies BEFORE any
    message has travelled on the successor.  The successor is probed after its own DPD interval and it is gone, with every kernel SA, within DPD interval +
    retransmission budget (IkeTimers.tla CrashBound, started from an IKE_SA that never received anything)."""
    dpd = 10
    cc = T.code_constants()
    budget = dpd + cc['RetxDelay'] * sum(range(1, cc['MaxRetx'] + 1)) + cc['MaxRetx'] + 3
    out = {}
    for starter in ('A', 'B'):
        w = wd.World(seed=common.SEED, opts={'dpd': dpd, 'lifetime': 100000}, jitter=0.0)
        try:
            w.establish('A')
            old = w.sas(starter)[0]
            keep, old.rekey_ike_sa_at = old.rekey_ike_sa_at, w.now - 1
            m, cur = w.timer(starter, old, 'check_rekey_ike_sa_timer'), starter
            old.rekey_ike_sa_at = keep
            while m is not None:
                nxt = w.peer_of(cur)
                m, cur = w.dispatch(nxt, m, cur), nxt
            if [x.state.name for x in w.sas('A')] != ['ESTABLISHED'] or [x.state.name for x in w.sas('B')] != ['ESTABLISHED'] or w.sas('A')[0] is old or not w.kernel['A'].sad:
                raise common.MachineryError(f'the IKE_SA rekey started by {starter} did not leave one established successor per endpoint: '
                                            f'{[x.state.name for x in w.sas("A")]} / {[x.state.name for x in w.sas("B")]}')
            succ = w.sas('A')[0]
            t0, probes = w.now, 0                           # the peer dies now
            for tick in range(budget + 10):
                w.now += 1.0
                for kind, sa, d in w.sweep('A'):
                    if d is not None:
                        probes += 1
                if succ not in w.ctl['A'].ike_sas:
                    break
            elapsed, still, kern = w.now - t0, succ in w.ctl['A'].ike_sas, len(w.kernel['A'].sad)
            out[starter] = {'transmissions': probes, 'removed_after_s': None if still else elapsed}
            if still or kern or probes == 0 or elapsed > budget:
                v.violation(f'IKE_SA rekey started by {starter}, then the peer dies before anything travels on the successor: after {elapsed:.0f} s the successor is '
                            f'{"still listed" if still else "gone"}, {kern} kernel SAs left, {probes} transmissions (DPD interval {dpd} s, bound {budget} s)',
                            {'starter': starter, 'probes': probes}, signature={'component': 'liveness:successor', 'starter': starter})
        except wd.Escape as ex:
            v.violation(f'crash after IKE_SA rekey ({starter}): {ex}', {}, signature={'component': 'liveness:escape'})
        finally:
            w.close()
    v.coverage['crash_after_ike_rekey'] = {'dpd': dpd, 'bound_s': budget, 'by_starter': out}


def run(tier, replay=None):
    v = common.Verdict('C13', tier, 'model_checking')
    if replay:
        import json
        body = json.load(open(replay))
        rp = body.get('replay') or {}
        if rp.get('kind') == 'timers':
            c = {k: (tuple(x) if isinstance(x, list) else x) for k, x in rp['config'].items()}
            g = __import__('tlcgraph').dump('IkeTimers.tla', T.cfg_text(c, dump=True), rp['name'], c, lambda st: True)
            kind0 = g.states[g.edges[rp['path'][0]][0]]['kind']
            steps = [(dict(g.edges[i][1], kind0=kind0), g.states[g.edges[i][3]]) for i in rp['path']]
            done, mm = T.replay(c, steps)
            for s in steps[:done + 1]:
                print('  ', {k: x for k, x in s[0].items() if k != 'kind0'})
            print('start:', kind0, '->', f'MISMATCH {mm.component}: {mm.msg} expected={mm.expected} observed={mm.observed}' if mm else 'conforms')
            if mm:
                v.violation(f'replayed: {mm.component}: {mm.msg}', {'expected': mm.expected, 'observed': mm.observed}, signature=body.get('signature'))
        return v.finish()
    timer_models(v, tier)
    shared_proposal(v)
    liveness_is_per_ike_sa(v)
    crash_after_ike_rekey(v)
    jitter_and_real_values(v)
    v.assumptions += ['spacing is asserted per schedule class (fine sweeps: two-sided; uniform tick with one sweep per tick: non-decreasing; '
                      'mixed schedules: budget, identity and give-up only - observation O-9)',
                      'DPD interval / lifetime scaled down through the configuration (3 / 8 ticks); retransmission constants read from the code']
    return v.finish()
