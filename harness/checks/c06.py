"""C06 - parsing any byte string terminates and fails only with a protocol error (Wire.tla mutation families + corpora)."""
import random
import struct

import common
import wire_ref as W
import wirevec as V
import world as wd


def judge(v, data, kind, val, lines, family, ctx, spec_verdict=None):
    if kind == 'budget':
        v.violation(f'{family}: parsing does not finish within a budget linear in the input length ({len(data)} octets, > {lines} lines)',
                    {'data': data.hex(), 'context': ctx}, signature={'component': 'parse:hang', 'family': family})
        return False
    if kind == 'other':
        v.violation(f'{family}: parsing raises {type(val).__name__}: {val}', {'data': data.hex(), 'context': ctx},
                    signature={'component': 'parse:exception', 'exception': type(val).__name__})
        return False
    if spec_verdict in ('syntax', 'critical') and kind == 'ok':
        v.violation(f'{family}: a chain the specification rejects ({spec_verdict}) is accepted', {'data': data.hex()},
                    signature={'component': 'parse:accepts', 'verdict': spec_verdict})
        return False
    return True


def authentic_messages():
    """One authentic datagram per exchange kind, with the keys that open it (from a real session)."""
    w = wd.World(seed=common.SEED, opts={'child_dh': ['ecp256']})
    out = []
    try:
        log = w.establish('A')
        a, b = w.sas('A')[0], w.sas('B')[0]
        import probes
        ka, kb = probes.keys_of(a.my_crypto), probes.keys_of(b.my_crypto)
        for (src, data), keys, cr in zip(log, (None, None, ka, kb), (None, None, a.my_crypto, b.my_crypto)):
            out.append((bytes(data), keys, cr, b.peer_crypto if src == 'A' else a.peer_crypto))
        req = w.acquire('A', sport=0, dport=0)
        res = w.dispatch('B', req, 'A')
        out += [(bytes(req), ka, a.my_crypto, b.peer_crypto), (bytes(res), kb, b.my_crypto, a.peer_crypto)]
        w.dispatch('A', res, 'B')
        req = w.expire('A', bytes(a.child_sas[0].inbound_spi), True)
        res = w.dispatch('B', req, 'A')
        out += [(bytes(req), ka, a.my_crypto, b.peer_crypto), (bytes(res), kb, b.my_crypto, a.peer_crypto)]
    finally:
        w.close()
    return out


LENV = (0, 1, 2, 3, 4, 5, 0xFFFF)


def run(tier, replay=None):
    v = common.Verdict('C06', tier, 'exploration')
    import logging
    logging.disable(logging.WARNING)                 # "Unrecognized payload" warnings of the parser are not what is judged here
    rnd = random.Random(common.SEED)
    stats = {'tla_mutations': 0, 'u16_sweeps': 0, 'truncations': 0, 'byte_mutations': 0, 'inner_resealed': 0, 'random': 0, 'structured_random': 0}
    outcomes = {}
    distinct = set()

    key_context = V.make_crypto(128, 2, seed=9)[0]

    def go(data, family, ctx=None, crypto=None, spec_verdict=None, both=True):
        ok = True
        for header_only in ((False, True) if both else (False,)):
            kind, val, lines = V.counted_parse(data, header_only=header_only, crypto=crypto)
            outcomes[kind] = outcomes.get(kind, 0) + 1
            ok = judge(v, data, kind, val, lines, family, ctx, None if header_only else spec_verdict) and ok
        if crypto is None:
            # the same octets arriving for an IKE_SA that HAS keys (the receiver's other context: what is allowed in the clear differs, totality does not)
            kind, val, lines = V.counted_parse(data, header_only=False, crypto=key_context)
            outcomes['keyed:' + kind] = outcomes.get('keyed:' + kind, 0) + 1
            ok = judge(v, data, kind, val, lines, family + ' [receiver has keys]', ctx, None) and ok
        distinct.add(hash(data))
        return ok

    # (1) the families enumerated by TLC: length field / next-payload octet of every generic payload header
    muts = V.vectors('mutations')['muts']
    for m in muts:
        chain = bytes(m['b'])
        data = W.enc_header(b'A' * 8, b'B' * 8, m['first'], 2, 0, 34, 0x08, 0, 28 + len(chain)) + chain
        stats['tla_mutations'] += 1
        go(data, 'tla:' + m['kind'], ctx={'at': m['at']}, spec_verdict=m['v'])
    # (1b) every header of the Wire.tla universe (version nibbles x exchange types x flags x Message IDs) with an empty chain and with one payload that a
    #      receiver skips: nothing at all behind the header is a message too
    for m in V.vectors('singles')['msgs']:
        if not m['ps']:
            data = bytes(m['b'])
            stats['tla_headers'] = stats.get('tla_headers', 0) + 2
            go(data, 'tla:header')
            skipped = data[:16] + bytes([99]) + data[17:24] + (len(data) + 8).to_bytes(4, 'big') + bytes([0, 0, 0, 8, 1, 2, 3, 4])
            go(skipped, 'tla:header+skipped')
    # (2) every 16-bit field / every octet of authentic messages of each exchange type
    auth = authentic_messages()
    cr_none = None
    for data, keys, my_cr, peer_cr in auth:
        # clear part: every position as a length field
        positions = range(16, len(data) - 1) if tier == 'thorough' else sorted(set(list(range(16, min(len(data) - 1, 120))) + rnd.sample(range(16, len(data) - 1), 40)))
        exact = None
        for pos in positions:
            cur = struct.unpack_from('>H', data, pos)[0]
            for val in LENV + (cur - 1 if cur else 0, cur + 1):
                d = bytearray(data)
                struct.pack_into('>H', d, pos, val & 0xFFFF)
                stats['u16_sweeps'] += 1
                go(bytes(d), 'u16', ctx={'pos': pos, 'val': val}, crypto=peer_cr if keys else None, both=False)
        for cut in range(0, len(data)):
            stats['truncations'] += 1
            go(data[:cut], 'truncation', ctx={'cut': cut}, crypto=peer_cr if keys else None, both=(cut < 40))
        for pos in (range(len(data)) if tier == 'thorough' else rnd.sample(range(len(data)), min(len(data), 120))):
            for f in (lambda x: x ^ 1, lambda x: x ^ 0x80, lambda x: 0, lambda x: 0xFF):
                d = bytearray(data)
                d[pos] = f(d[pos])
                stats['byte_mutations'] += 1
                go(bytes(d), 'byte', ctx={'pos': pos}, crypto=peer_cr if keys else None, both=False)
        # (3) correctly authenticated but malformed: mutate the inner chain, seal again with the right keys
        if keys:
            opened = W.dec_message(data, keys)
            h = W.dec_header(data)
            icv = W.INTEG[keys['integ']][1]
            body = data[28 + 4: len(data) - icv]
            plain = W.aes_cbc(keys['ke'], body[:16], body[16:], False)
            inner = plain[:len(plain) - 1 - plain[-1]]
            inner_first = data[28]
            variants = []
            for pos in range(0, max(0, len(inner) - 1)):
                cur = struct.unpack_from('>H', inner, pos)[0]
                for val in LENV + (cur + 1, max(cur - 1, 0)):
                    d = bytearray(inner)
                    struct.pack_into('>H', d, pos, val & 0xFFFF)
                    variants.append((inner_first, bytes(d)))
            for nf in (0, 33, 40, 41, 46, 99, 255):
                variants.append((nf, inner))
            for cut in range(0, len(inner)):
                variants.append((inner_first, inner[:cut]))
            if tier == 'quick':
                variants = rnd.sample(variants, min(len(variants), 500))
            for first, chain in variants:
                for ct_variant in ('ok', 'empty', 'short', 'odd'):
                    if ct_variant != 'ok' and rnd.random() > 0.02:
                        continue
                    pad = (16 - (len(chain) + 1) % 16) % 16
                    pt = chain + b'\0' * pad + bytes([pad])
                    ct = W.aes_cbc(keys['ke'], b'\x42' * 16, pt, True)
                    skbody = b'\x42' * 16 + ct
                    if ct_variant == 'empty':
                        skbody = b'\x42' * 16
                    elif ct_variant == 'short':
                        skbody = b'\x42' * 5
                    elif ct_variant == 'odd':
                        skbody = b'\x42' * 16 + ct[:-3]
                    total = 28 + 4 + len(skbody) + icv
                    head = W.enc_header(h['spi_i'], h['spi_r'], W.SK, 2, 0, h['xchg'], h['flags'], h['mid'], total)
                    pre = head + struct.pack('>BBH', first, 0, 4 + len(skbody) + icv) + skbody
                    sealed = pre + W.mac(keys['integ'], keys['ka'], pre)
                    stats['inner_resealed'] += 1
                    go(sealed, 'inner:' + ct_variant, ctx={'first': first}, crypto=peer_cr, both=False)
                    if stats['inner_resealed'] % 50 == 0:
                        go(sealed, 'inner:wrongkeys', crypto=my_cr, both=False)
                        go(sealed, 'inner:nokeys', crypto=None, both=False)
    # (4) random strings: raw and structured (valid header, random chain)
    n_rand = 4000 if tier == 'quick' else 400000
    for i in range(n_rand):
        ln = rnd.choice((0, 1, 27, 28, 29, 32, 40, 64, 200, rnd.randrange(0, 4096 if i % 50 == 0 else 300)))
        data = bytes(rnd.getrandbits(8) for _ in range(ln))
        stats['random'] += 1
        go(data, 'random', both=(i % 4 == 0))
    for i in range(n_rand):
        chain = b''
        first = rnd.choice((0, 33, 34, 35, 39, 40, 41, 42, 43, 44, 45, 46, 99))
        t = first
        for _ in range(rnd.randrange(0, 4)):
            body = bytes(rnd.getrandbits(8) for _ in range(rnd.choice((0, 1, 3, 4, 8, 20, 40))))
            nxt = rnd.choice((0, 33, 34, 40, 41, 42, 43, 44, 46, 99, t))
            ln = rnd.choice((len(body) + 4,) * 6 + (0, 3, 4, len(body) + 3, len(body) + 5, 0xFFFF))
            chain += struct.pack('>BBH', nxt, rnd.choice((0, 0, 0x80)), ln) + body
            t = nxt
        data = W.enc_header(b'C' * 8, b'D' * 8, first, 2, 0, rnd.choice((34, 35, 36, 37)), rnd.choice((0, 8, 0x20, 0x28)), rnd.randrange(4), 28 + len(chain)) + chain
        stats['structured_random'] += 1
        go(data, 'structured', both=False)
    # (4b) text-like content (Vendor ID, FQDN / e-mail identity, notification data) of the shapes that make pattern matching blow up: a long run of one
    #      class of characters followed by one character of another class, repeated separators, nested-looking structure.  Work done inside a built-in
    #      (a regular expression, a codec) is invisible to the line budget: each parse runs under a wall-clock limit.
    import signal
    import time as _time

    class _Slow(Exception):
        pass

    def _alarm(signum, frame):
        raise _Slow()
    runs = {'a': b'a', '0': b'0', '.': b'.', '-': b'-', ' ': b' ', 'a.': b'a.', 'a-': b'a-', '\\': b'\\', '(': b'(', 'é': 'é'.encode()}
    tails = (b'', b'!', b'!-1.0', b'-1.0', b'@', b'\x00', b'\xff', b'.', b')')
    texts = [unit * (n // len(unit)) + tail for unit in runs.values() for n in (24, 64, 400) for tail in tails]
    base = [{'t': W.SA, 'proposals': [{'num': 1, 'proto': 1, 'spi': b'', 'transforms': [{'type': 1, 'id': 12, 'keylen': 256}, {'type': 3, 'id': 12, 'keylen': None},
                                                                                      {'type': 2, 'id': 5, 'keylen': None}, {'type': 4, 'id': 19, 'keylen': None}]}]},
            {'t': W.NONCE, 'data': b'\x33' * 32}]
    old_handler = signal.signal(signal.SIGALRM, _alarm)
    try:
        for text in texts:
            for carrier in ([{'t': W.VENDOR, 'data': text}], [{'t': W.IDI, 'id_type': 2, 'data': text}], [{'t': W.IDR, 'id_type': 3, 'data': text}],
                            [{'t': W.NOTIFY, 'proto': 0, 'spi': b'', 'ntype': 16390, 'data': text}]):
                data = W.enc_message({'spi_i': b'E' * 8, 'spi_r': b'\0' * 8, 'xchg': 34, 'response': False, 'initiator': True, 'mid': 0}, base + carrier)
                stats['text_content'] = stats.get('text_content', 0) + 1
                t0 = _time.perf_counter()
                signal.setitimer(signal.ITIMER_REAL, 1.5)
                try:
                    try:
                        V.M.Message.parse(data)
                    finally:
                        signal.setitimer(signal.ITIMER_REAL, 0)
                except _Slow:
                    v.violation(f'text content: parsing a {len(data)}-octet IKE_SA_INIT datagram (payload type {carrier[0]["t"]}, {len(text)} octets of text) does not finish within 1.5 s',
                                {'data': data.hex()}, signature={'component': 'parse:slow-text', 'payload': carrier[0]['t']})
                    break
                except Exception:      # noqa: B902 - outcome classes are judged by the other families; here only the time
                    pass
                if _time.perf_counter() - t0 > 0.5:
                    v.violation(f'text content: parsing a {len(data)}-octet datagram took {_time.perf_counter() - t0:.2f} s', {'data': data.hex()},
                                signature={'component': 'parse:slow-text', 'payload': carrier[0]['t']})
                    break
    finally:
        signal.setitimer(signal.ITIMER_REAL, 0)
        signal.signal(signal.SIGALRM, old_handler)
    # (5) "in time linear in the input length" where the executed-line budget cannot see it (work done inside built-in operations): well-formed, correctly
    #     sealed messages whose repeated elements are all different, at size n and 8n - the parse time may grow 8-fold, not 64-fold
    import time
    import wirevec
    cr, keys = wirevec.make_crypto(256, 12)

    def sealed(inner):
        return W.enc_message({'spi_i': b'A' * 8, 'spi_r': b'B' * 8, 'xchg': 37, 'response': False, 'initiator': True, 'mid': 1}, [],
                             sk={'ke': keys['ke'], 'ka': keys['ka'], 'integ': keys['integ'], 'iv': b'\x34' * 16, 'inner': inner})

    def best(data, crypto):
        t = []
        for _ in range(3):
            t0 = time.perf_counter()
            try:
                V.M.Message.parse(data, crypto=crypto)
                kind = 'ok'
            except Exception as ex:      # noqa: B902 - only the time matters here; outcome classes are judged by the other families
                kind = type(ex).__name__
            t.append(time.perf_counter() - t0)
        return min(t), kind
    shapes = {
        'DELETE with n distinct SPIs': lambda n: [{'t': W.DELETE, 'proto': 3, 'spis': [i.to_bytes(4, 'big') for i in range(1, n + 1)]}],
        'n VENDOR payloads': lambda n: [{'t': W.VENDOR, 'data': i.to_bytes(4, 'big')} for i in range(n)],
        'n NOTIFY payloads': lambda n: [{'t': W.NOTIFY, 'proto': 0, 'spi': b'', 'ntype': 40000 + (i % 20000), 'data': i.to_bytes(4, 'big')} for i in range(n)],
    }
    scaling = {}
    for name, mk in shapes.items():
        n0 = 1500 if 'DELETE' in name else 500
        small, big = sealed(mk(n0)), sealed(mk(8 * n0))
        if len(big) > 65000:
            raise common.MachineryError('scaling input exceeds a datagram')
        (t1, k1), (t8, k8) = best(small, cr), best(big, cr)
        stats['scaling'] = stats.get('scaling', 0) + 2
        scaling[name] = {'octets': [len(small), len(big)], 'seconds': [round(t1, 4), round(t8, 4)], 'outcome': [k1, k8]}
        if t8 > 0.25 and t8 > 24 * max(t1, 1e-4):
            v.violation(f'parse time is not linear in the input length: {name}: {len(small)} octets in {t1 * 1000:.1f} ms, {len(big)} octets in {t8 * 1000:.1f} ms '
                        f'({t8 / max(t1, 1e-4):.0f} times for 8 times the input)', {'shape': name}, signature={'component': 'parse:superlinear', 'shape': name.split()[0]})
    v.coverage['scaling'] = scaling
    v.coverage.update({'evaluations': sum(outcomes.values()), 'distinct_nontrivial': len(distinct), 'families': stats, 'outcomes': outcomes,
                       'rule': 'text content of pattern-hostile shapes (runs of one character class + a tail of another, in VENDOR / ID / NOTIFY) under a wall-clock limit; Wire.tla LenMut/NextMut families (chain verdict from ParseChain), every header of the universe with an empty / skipped-only chain - all cleartext inputs both without keys and as received by an IKE_SA that has keys + every 16-bit field position of authentic datagrams of each '
                               'exchange set to {0..5, cur-1, cur+1, 0xFFFF} + every truncation + octet mutations {^01, ^80, =00, =FF} + inner chains mutated and '
                               're-sealed with the right keys (and malformed ciphertext lengths) under right / wrong / no keys + raw and structured random strings; '
                               'distinct = distinct byte strings; each judged on outcome class and executed-line budget 4000 + 600*len',
                       'samples': [{'family': 'tla:len', 'mutant': bytes(muts[0]['b']).hex(), 'spec_verdict': muts[0]['v']}]})
    v.assumptions += ['totality of code can only be sampled: the families are chosen to reach every loop and every unpack of message.py']
    return v.finish()
