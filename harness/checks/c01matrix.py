"""Configuration matrix for C01 / C04: real handshakes and negotiation histories judged by the wire oracle."""
import itertools
import random
import warnings

import common
import session
import world
from keysched import OracleError

warnings.filterwarnings('ignore')

ENCR = ['aes128', 'aes256']
INTEG = ['sha1', 'sha256', 'sha512']
PRF = ['sha1', 'sha256', 'sha512']
DH = ['modp2048', 'modp3072', 'modp4096', 'modp6144', 'modp8192', 'ecp256', 'ecp384', 'ecp521']
KDF = None          # set by the check: plan_eval.PlanKdf driven by spec/KeySchedule.tla
# ... and then the IKE_SA is closed and a second one is negotiated on the SAME configuration objects: nothing of the first session may leak into it
HISTORY = ['add_A', 'rekey_child_B', 'rekey_ike_B', 'rekey_child_A', 'rekey_ike_A', 'add_B', 'rekey_child_B', 'delete_ike_A', 'add_B', 'add_A', 'rekey_child_A']


def ike_suites():
    return [dict(ike_encr=[e], ike_integ=[i], ike_prf=[p], ike_dh=[d]) for e, i, p, d in itertools.product(ENCR, INTEG, PRF, DH)]


def history_configs(rnd, n):
    """Seeded sample over {child protocol, child suites, PFS, mode, address family, auth method, preference orders}."""
    out = []
    fast_dh = ['ecp256', 'ecp384', 'ecp521', 'modp2048']
    for k in range(n):
        proto = rnd.choice(['esp', 'esp', 'ah'])
        ce = rnd.sample(ENCR, rnd.choice([1, 2]))
        ci = rnd.sample(INTEG, rnd.choice([1, 2]))
        pfs = rnd.choice([[], [], rnd.sample(fast_dh, rnd.choice([1, 2]))])
        ike_dh = rnd.sample(fast_dh, rnd.choice([1, 2]))
        order = rnd.choice(['same', 'reversed', 'subset'])
        base = dict(v6=rnd.random() < 0.4, auth=rnd.choice(['psk', 'psk', 'rsa']), mode=rnd.choice(['transport', 'tunnel']),
                    proto=proto, ip_proto=rnd.choice(['tcp', 'udp', 'any']),
                    ike_encr=rnd.sample(ENCR, rnd.choice([1, 2])), ike_integ=rnd.sample(INTEG, rnd.choice([1, 2])),
                    ike_prf=rnd.sample(PRF, rnd.choice([1, 2])), peer_port=rnd.choice([0, 0, 23]))
        a = dict(base, ike_dh=ike_dh, child_encr=ce, child_integ=ci, child_dh=pfs)
        b = dict(a)
        if order == 'reversed':
            for key in ('ike_dh', 'child_encr', 'child_integ', 'child_dh', 'ike_encr', 'ike_integ', 'ike_prf'):
                b[key] = list(reversed(a[key]))
        elif order == 'subset':
            # the requester offers only what the responder likes LEAST: the negotiated algorithm is not the first of the responder's own lists
            for key in ('child_encr', 'child_integ', 'ike_encr', 'ike_integ', 'ike_prf'):
                b[key] = list(a[key])
                a[key] = [a[key][-1]]
            b['ike_dh'], b['child_dh'] = list(a['ike_dh']), list(a['child_dh'])
        # ports mirror: A's peer_port is B's my_port
        b['peer_port'], b['my_port'] = 0, a['peer_port']
        out.append({'A': a, 'B': b})
    return out


def run_history(cfg, ops, seed, kdf=None):
    w = world.World(opts_by_ep=cfg, opts={'v6': cfg['A']['v6']}, seed=seed, nonce_len=16 + seed % 200)
    s = session.Session(w, kdf=kdf or KDF)
    done = []
    try:
        port = cfg['A'].get('peer_port', 0)
        kinds = s.acquire('A', sport=0, dport=port, proto={'tcp': 6, 'udp': 17, 'any': 0}[cfg['A']['ip_proto']])
        done.append(('acquire_A', kinds))
        n = s.judge()
        for op in ops:
            if op == 'add_A':
                k = s.acquire('A', sport=0, dport=port, proto={'tcp': 6, 'udp': 17, 'any': 0}[cfg['A']['ip_proto']])
            elif op == 'add_B':
                k = s.acquire('B', sport=port, dport=0, proto={'tcp': 6, 'udp': 17, 'any': 0}[cfg['A']['ip_proto']])
            elif op.startswith('rekey_child_'):
                k = s.rekey_child(op[-1], which=len(done))
            elif op.startswith('rekey_ike_'):
                k = s.rekey_ike(op[-1])
            elif op.startswith('delete_ike_'):
                k = s.delete_ike(op[-1])
            done.append((op, k))
            n = s.judge()
        if w.escapes or w.internal_errors:
            raise OracleError('internal', f'internal errors during a plain negotiation history: {w.escapes} {w.internal_errors[:1]}')
        return done, s.oracle.checks, n, None
    except OracleError as ex:
        return done, s.oracle.checks, None, ex
    except world.Escape as ex:
        return done, s.oracle.checks, None, OracleError('escape', str(ex))
    finally:
        w.close()


def run(v, tier, for_c04=False):
    global KDF
    import plan_eval
    plans, res = plan_eval.generate_plans()
    KDF = plan_eval.PlanKdf(plans)
    v.coverage['keyschedule_tla'] = {'ike_plans': len(plans['ike']), 'child_plans': len(plans['child'])}
    rnd = random.Random(common.SEED)
    suites = ike_suites()
    if tier == 'quick':
        # every DH group and every (encr, integ, prf) combination at least once, the big MODP groups only once each
        suites = [s for s in suites if s['ike_dh'][0] in ('ecp256', 'ecp384', 'ecp521', 'modp2048')
                  or (s['ike_encr'], s['ike_integ'], s['ike_prf']) == (['aes256'], ['sha256'], ['sha256'])]
    evals, nontrivial, samples = 0, set(), []
    totals = {'ike_keys': 0, 'child_keys': 0, 'auth': 0, 'dh': 0, 'opened': 0}
    for i, s in enumerate(suites):
        cfg = {'A': dict(s), 'B': dict(s)}
        for e in cfg:
            cfg[e].update(v6=False, ip_proto='tcp', peer_port=0)
        done, checks, n, err = run_history(cfg, ['rekey_ike_B'] if for_c04 or i % 6 == 0 else [], common.SEED + i)
        evals += 1
        for k in totals:
            totals[k] += checks[k]
        nontrivial.add(('suite', s['ike_encr'][0], s['ike_integ'][0], s['ike_prf'][0], s['ike_dh'][0]))
        if err is not None:
            v.violation(f'IKE suite {s}: {err}', {'config': cfg, 'done': done}, signature={'component': 'matrix:' + err.kind, 'class': 'suite'},
                        replay={'kind': 'matrix', 'config': cfg, 'ops': [], 'seed': common.SEED + i})
    hist = history_configs(rnd, 40 if tier == 'quick' else 500)
    for i, cfg in enumerate(hist):
        ops = HISTORY if tier == 'thorough' or i % 2 == 0 else HISTORY[:3] + HISTORY[7:10]
        done, checks, n, err = run_history(cfg, ops, common.SEED + 1000 + i)
        evals += 1
        for k in totals:
            totals[k] += checks[k]
        nontrivial.add(('hist', repr(sorted((k, str(x)) for k, x in cfg['A'].items())), repr(cfg['B']['ike_dh']), len(ops)))
        if i < 2:
            samples.append({'config_A': cfg['A'], 'config_B': cfg['B'], 'history': [(op, k) for op, k in done], 'kernel_and_ike_checked': n})
        if err is not None:
            v.violation(f'negotiation history {[d[0] for d in done]} + next: {err}', {'config': cfg, 'done': done},
                        signature={'component': 'matrix:' + err.kind, 'class': 'history'},
                        replay={'kind': 'matrix', 'config': cfg, 'ops': ops, 'seed': common.SEED + 1000 + i})
    # the same endpoint requests several PFS exchanges in a row on ONE IKE_SA, for a group of each class (MODP / ECP), with the PFS group equal to and different
    # from the IKE_SA's group: every exchange has its own g^ir (nothing of the previous one - key pair, secret - may stand in for it)
    for gi, (ike_g, pfs_g) in enumerate((('modp2048', 'modp2048'), ('ecp256', 'modp2048'), ('ecp256', 'ecp256'), ('modp2048', 'ecp384'))):
        cfg = {e: dict(v6=False, auth='psk', mode='tunnel', proto='esp', ip_proto='tcp', peer_port=0, ike_encr=['aes256'], ike_integ=['sha256'], ike_prf=['sha256'],
                       ike_dh=[ike_g], child_encr=['aes128'], child_integ=['sha1'], child_dh=[pfs_g]) for e in 'AB'}
        ops = ['add_A', 'add_A', 'rekey_child_A', 'add_B', 'add_B', 'rekey_child_B', 'add_A']
        done, checks, n, err = run_history(cfg, ops, common.SEED + 5000 + gi)
        evals += 1
        for k in totals:
            totals[k] += checks[k]
        if err is not None:
            v.violation(f'PFS exchanges in a row (IKE group {ike_g}, PFS group {pfs_g}) {[d[0] for d in done]} + next: {err}', {'config': cfg, 'done': done},
                        signature={'component': 'matrix:' + err.kind, 'class': 'pfs-in-a-row'}, replay={'kind': 'matrix', 'config': cfg, 'ops': ops, 'seed': common.SEED + 5000 + gi})
    v.coverage['matrix'] = {'plan_evaluations': KDF.evaluations, 'sessions': evals, 'distinct_configurations': len(nontrivial), 'oracle_checks': totals,
                            'rule': 'every supported IKE suite once (quick: big MODP groups with one suite each) + seeded configurations over '
                                    '{ESP/AH, child suites, PFS group, mode, IPv4/IPv6, PSK/RSA, equal/reversed preference orders}, each '
                                    'followed by the history add / rekey-child / rekey-IKE from either side; judged by the wire oracle',
                            'samples': samples}
    v.coverage.setdefault('samples', [])
    v.coverage['samples'] = list(v.coverage['samples']) + samples[:1]
    return evals, len(nontrivial)
