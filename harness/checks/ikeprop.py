"""Shared driver of the properties decided with spec/Ike.tla: exhaustive TLC run of each scenario (all invariants and
action properties), then every transition of the dumped graph replayed into the real code (binding A)."""
import collections
import time

import common
import ikemodel

# which compared component belongs to which property (a behaviour that diverges in a component of another property is
# not judged by this check: the check of that property reports it)
OWNER = {
    'window': 'C08', 'header': 'C08', 'bytes': 'C08', 'sa.myMid': 'C08', 'sa.peerMid': 'C08', 'sa.req': 'C08', 'sa.lastResp': 'C08',
    'escape': 'C09', 'reply': 'C09', 'sa.st': 'C09', 'sa.pending': 'C09', 'sa.kids': 'C09', 'sa.creating': 'C09',
    'sa.rekeying': 'C09', 'sa.deleting': 'C09', 'sa.newSa': 'C09', 'net': 'C09', 'sa.init': 'C09', 'sa.peer': 'C09',
    'kernel_invariant': 'C10', 'kern': 'C10',
    'table': 'C16', 'routing': 'C16',
    'keyslot': 'C01', 'ikekeys': 'C01', 'sa.haskeys': 'C01',
    'dh': 'C18', 'sa.cookie': 'C18',
    'clear': 'C07', 'seal': 'C07', 'auth': 'C02',
}


def owner_of(mm):
    if mm['at'] == 'Deliver:unprotected':
        return 'C03'
    if mm['component'] == 'reply' and mm['at'].endswith(':replay'):
        return 'C08'
    return OWNER.get(mm['component'], '?')


def run(verdict, scenarios, limit=None, extra_owned=(), owns=None):
    """scenarios: list of scenario names (ikemodel.SCENARIOS). Fills verdict.coverage; reports violations of verdict.prop."""
    prop = verdict.prop
    cov = {'states': 0, 'transitions': 0, 'traces_validated_against_impl': 0, 'steps_compared': 0, 'scenarios': {},
           'samples': [], 'diverged_elsewhere': collections.Counter(), 'edges_replayed': 0, 'edges_total': 0}
    for sc in scenarios:
        t0 = time.time()
        res = ikemodel.model_check(sc)
        common.tlc_must_pass(res, f'Ike.tla scenario {sc}')
        g = ikemodel.dump_graph(sc)
        paths = g.behaviours()
        r = ikemodel.replay_graph(g, paths=paths, limit=limit, seed=common.SEED)
        cov['states'] += res.distinct
        cov['transitions'] += res.generated
        cov['traces_validated_against_impl'] += r['behaviours']
        cov['steps_compared'] += r['steps']
        cov['edges_replayed'] += len(r['edges'])
        cov['edges_total'] += len(g.edges)
        cov['scenarios'][sc] = {'constants': {k: (list(v) if isinstance(v, tuple) else v) for k, v in g.sc.items()},
                                'distinct_states': res.distinct, 'states_generated': res.generated, 'depth': res.depth,
                                'graph_edges': len(g.edges), 'behaviours': r['behaviours'], 'steps': r['steps'],
                                'edges_replayed': len(r['edges']), 'actions': dict(r['actions']),
                                'mismatches': len(r['mismatches']), 'wall_s': round(time.time() - t0, 1)}
        if paths and len(cov['samples']) < 3:
            p = max(paths[:200], key=len)
            cov['samples'].append({'scenario': sc, 'behaviour': [ikemodel.describe(g.edges[i][1]) for i in p]})
        seen = set()
        for mm in r['mismatches']:
            own = owner_of(mm)
            if own == prop or mm['component'] in extra_owned or (owns is not None and owns(mm)):
                sig = {'component': mm['component'], 'at': mm['at'], 'scenario': sc}
                key = (mm['component'], mm['at'])
                if key in seen:
                    continue
                seen.add(key)
                verdict.violation(f"{mm['component']} after {mm['at']} in scenario {sc}: {mm['msg']}",
                                  {'expected': mm['expected'], 'observed': mm['observed'], 'behaviour': mm['actions']},
                                  signature=sig, replay={'scenario': sc, 'path': mm['path']})
            else:
                cov['diverged_elsewhere'][f'{own}:{mm["component"]}'] += 1
    cov['diverged_elsewhere'] = dict(cov['diverged_elsewhere'])
    verdict.coverage.update(cov)
    return cov


def _record_one(args):
    import tracegen
    import ikereplay
    import world as wd
    seed, depth = args
    try:
        return seed, tracegen.record(tracegen.TRACE_SC, seed, depth), None
    except wd.Escape as ex:
        return seed, None, ('escape', str(ex))
    except ikereplay.Mismatch as mm:
        return seed, None, (mm.component, mm.msg)
    except Exception as ex:        # noqa: B902 - (a StopIteration leaving a pool worker would silently turn the record into None)
        return seed, None, ('harness', f'{type(ex).__name__}: {ex}')


def _describe_event(ev):
    a = {k: v for k, v in ev.items() if k not in ('post', 'out')}
    if a.get('a') == 'Deliver':
        m = a['m']
        return f"Deliver {m['x']} {'response' if m['resp'] else 'request'} mid={m['mid']} to {m['dst']} ({m['body'].get('kind')}){' keep' if a.get('keep') else ''}"
    return ' '.join(str(v) for v in a.values())


def run_traces(verdict, n, depth):
    """Binding B: n seeded random schedules of the two real controllers (not chosen by TLC) are recorded, one event per public call, and validated
    by TLC against IkeTrace.tla (every invariant of Ike.tla after every event).  A rejected trace is diagnosed down to the clause of the trace
    specification that fails and attributed to the property that owns that clause.  One deliberately corrupted trace must be rejected."""
    import copy
    import multiprocessing
    import tracegen
    prop = verdict.prop
    seeds = [common.SEED * 100003 + 7 * i + 1 for i in range(n)]
    with multiprocessing.Pool(min(common.NCPU, max(1, n))) as pool:
        recs = pool.map(_record_one, [(s, depth) for s in seeds])
    cov = {'recorded': 0, 'events': 0, 'accepted': 0, 'rejected': 0, 'rejected_elsewhere': {}, 'actions': collections.Counter()}
    traces, tseeds = [], []
    for seed, tr, err in recs:
        if tr is None:
            if err[0] == 'harness':
                raise common.MachineryError(f'recording a random schedule (seed {seed}) failed in the harness: {err[1]}')
            own = OWNER.get(err[0], 'C09')
            if own == prop:
                verdict.violation(f'recording a random schedule (seed {seed}): {err[0]}: {err[1]}', {'seed': seed}, signature={'component': 'trace:' + err[0]},
                                  replay={'kind': 'trace', 'seed': seed, 'depth': depth})
            continue
        traces.append(tr)
        tseeds.append(seed)
        cov['recorded'] += 1
        cov['events'] += len(tr)
        for e in tr:
            cov['actions'][e['a']] += 1
    if traces:
        acc, prog, res = tracegen.validate(traces)
        if res.violated:
            raise common.MachineryError(f'an invariant of Ike.tla fails on a recorded trace (the trace specification should have rejected the step): {res.violated}')
        for i, (got, ln) in enumerate(prog):
            if got == ln:
                cov['accepted'] += 1
                continue
            cov['rejected'] += 1
            clause = tracegen.diagnose(traces[i], got)
            own = tracegen.CLAUSE_OWNER[clause]
            ev = traces[i][got]
            what = {k: v for k, v in ev.items() if k not in ('post', 'out')}
            if own == prop:
                verdict.violation(f'recorded execution (seed {tseeds[i]}) is not a behaviour of Ike.tla: event {got + 1}/{ln} {_describe_event(ev)} '
                                  f'fails clause "{clause}" of the trace specification', {'event': what, 'reply': ev['out'], 'post': ev['post'], 'clause': clause},
                                  signature={'component': 'trace:' + clause, 'action': ev['a']}, replay={'kind': 'trace', 'seed': tseeds[i], 'depth': depth})
            else:
                cov['rejected_elsewhere'][f'{own}:{clause}'] = cov['rejected_elsewhere'].get(f'{own}:{clause}', 0) + 1
        # the binding is not vacuous: corrupting one logged field must be rejected
        bad = copy.deepcopy(traces[0])
        ev = next((e for e in bad if e['post']['sas']), None)
        if ev is not None:
            ev['post']['sas'][0]['myMid'] += 1
            acc2, prog2, _ = tracegen.validate([bad])
            if acc2:
                raise common.MachineryError('IkeTrace.tla accepted a trace with a corrupted Message ID: the trace specification does not bind')
            cov['corrupted_trace_rejected'] = True
    cov['actions'] = dict(cov['actions'])
    verdict.coverage['recorded_traces'] = cov
    return cov


def replay_file(verdict, path):
    """./check Cxx --replay <file>: re-execute exactly the recorded behaviour prefix and print what differs."""
    import json
    import ikereplay
    body = json.load(open(path))
    rp = body.get('replay') or {}
    if rp.get('kind') == 'matrix':
        from checks import c01matrix
        done, checks, n, err = c01matrix.run_history(rp['config'], rp['ops'], rp['seed'])
        print('history:', done)
        print('result:', err or 'conforms')
        if err is not None:
            verdict.violation(f'replayed: {err}', {'done': done}, signature=body.get('signature'))
        return verdict.finish()
    if rp.get('kind') == 'trace':
        import tracegen
        tr = tracegen.record(tracegen.TRACE_SC, rp['seed'], rp['depth'])
        acc, prog, res = tracegen.validate([tr])
        print(f'trace seed={rp["seed"]}: matched {prog[0][0]} of {prog[0][1]} events')
        if not acc:
            clause = tracegen.diagnose(tr, prog[0][0])
            ev = tr[prog[0][0]]
            print('rejected at', {k: v for k, v in ev.items() if k not in ('post',)}, 'clause', clause)
            verdict.violation(f'replayed: recorded execution rejected at event {prog[0][0] + 1}, clause {clause}', {'clause': clause}, signature=body.get('signature'))
        else:
            print('conforms')
        return verdict.finish()
    if 'scenario' not in rp:
        raise common.MachineryError('this replay file does not describe a behaviour of spec/Ike.tla')
    g = ikemodel.dump_graph(rp['scenario'])
    steps = [(g.edges[i][1], g.edges[i][2], g.states[g.edges[i][3]]) for i in rp['path']]
    if 'refuse_at' in rp:
        done, bad, hit = ikereplay.fault_replay(g.sc, steps, rp['refuse_at'])
        for s in steps[:done + 1]:
            print('  ', ikemodel.describe(s[0]))
        print('refused:', hit, '->', bad or 'invariant holds')
        if bad:
            verdict.violation(f'replayed: {bad["kind"]} after refusing {hit}', bad, signature=body.get('signature'))
        return verdict.finish()
    done, mm, w = ikereplay.replay_behaviour(g.sc, steps)
    for s in steps[:done + 1]:
        print('  ', ikemodel.describe(s[0]))
    if mm is None:
        print('conforms')
    else:
        print(f'MISMATCH {mm.component}: {mm.msg}\n  expected: {mm.expected}\n  observed: {mm.observed}')
        verdict.violation(f'replayed: {mm.component}: {mm.msg}', {'expected': mm.expected, 'observed': mm.observed}, signature=body.get('signature'))
    return verdict.finish()
