"""Shared driver of the properties decided with spec/Ike.tla: exhaustive TLC run of each scenario (all invariants and
action properties), then every transition of the dumped graph replayed into the real code (binding A)."""
import collections
import time

import common
import ikemodel

# which compared component belongs to which property (a behaviour that diverges in a component of another property is
# not judged by this check: the check of that property reports it)
OWNER = {
    'window': 'C08', 'header': 'C08', 'bytes': 'C08', 'sa.myMid': 'C08', 'sa.peerMid': 'C08', 'sa.req': 'C08', 'sa.lastResp': 'C08',
    'escape': 'C09', 'reply': 'C09', 'sa.st': 'C09', 'sa.pending': 'C09', 'sa.kids': 'C09', 'sa.creating': 'C09',
    'sa.rekeying': 'C09', 'sa.deleting': 'C09', 'sa.newSa': 'C09', 'net': 'C09', 'sa.init': 'C09', 'sa.peer': 'C09',
    'kernel_invariant': 'C10', 'kern': 'C10',
    'table': 'C16', 'routing': 'C16',
    'keyslot': 'C01', 'ikekeys': 'C01', 'sa.haskeys': 'C01',
    'dh': 'C18', 'sa.cookie': 'C18',
    'clear': 'C07', 'seal': 'C07', 'auth': 'C02',
}


def owner_of(mm):
    if mm['at'] == 'Deliver:unprotected':
        return 'C03'
    if mm['component'] == 'reply' and mm['at'].endswith(':replay'):
        return 'C08'
    return OWNER.get(mm['component'], '?')


def run(verdict, scenarios, limit=None, extra_owned=()):
    """scenarios: list of scenario names (ikemodel.SCENARIOS). Fills verdict.coverage; reports violations of verdict.prop."""
    prop = verdict.prop
    cov = {'states': 0, 'transitions': 0, 'traces_validated_against_impl': 0, 'steps_compared': 0, 'scenarios': {},
           'samples': [], 'diverged_elsewhere': collections.Counter(), 'edges_replayed': 0, 'edges_total': 0}
    for sc in scenarios:
        t0 = time.time()
        res = ikemodel.model_check(sc)
        common.tlc_must_pass(res, f'Ike.tla scenario {sc}')
        g = ikemodel.dump_graph(sc)
        paths = g.behaviours()
        r = ikemodel.replay_graph(g, paths=paths, limit=limit, seed=common.SEED)
        cov['states'] += res.distinct
        cov['transitions'] += res.generated
        cov['traces_validated_against_impl'] += r['behaviours']
        cov['steps_compared'] += r['steps']
        cov['edges_replayed'] += len(r['edges'])
        cov['edges_total'] += len(g.edges)
        cov['scenarios'][sc] = {'constants': {k: (list(v) if isinstance(v, tuple) else v) for k, v in g.sc.items()},
                                'distinct_states': res.distinct, 'states_generated': res.generated, 'depth': res.depth,
                                'graph_edges': len(g.edges), 'behaviours': r['behaviours'], 'steps': r['steps'],
                                'edges_replayed': len(r['edges']), 'actions': dict(r['actions']),
                                'mismatches': len(r['mismatches']), 'wall_s': round(time.time() - t0, 1)}
        if paths and len(cov['samples']) < 3:
            p = max(paths[:200], key=len)
            cov['samples'].append({'scenario': sc, 'behaviour': [ikemodel.describe(g.edges[i][1]) for i in p]})
        seen = set()
        for mm in r['mismatches']:
            own = owner_of(mm)
            if own == prop or mm['component'] in extra_owned:
                sig = {'component': mm['component'], 'at': mm['at'], 'scenario': sc}
                key = (mm['component'], mm['at'])
                if key in seen:
                    continue
                seen.add(key)
                verdict.violation(f"{mm['component']} after {mm['at']} in scenario {sc}: {mm['msg']}",
                                  {'expected': mm['expected'], 'observed': mm['observed'], 'behaviour': mm['actions']},
                                  signature=sig, replay={'scenario': sc, 'path': mm['path']})
            else:
                cov['diverged_elsewhere'][f'{own}:{mm["component"]}'] += 1
    cov['diverged_elsewhere'] = dict(cov['diverged_elsewhere'])
    verdict.coverage.update(cov)
    return cov


def replay_file(verdict, path):
    """./check Cxx --replay <file>: re-execute exactly the recorded behaviour prefix and print what differs."""
    import json
    import ikereplay
    body = json.load(open(path))
    rp = body.get('replay') or {}
    if rp.get('kind') == 'matrix':
        from checks import c01matrix
        done, checks, n, err = c01matrix.run_history(rp['config'], rp['ops'], rp['seed'])
        print('history:', done)
        print('result:', err or 'conforms')
        if err is not None:
            verdict.violation(f'replayed: {err}', {'done': done}, signature=body.get('signature'))
        return verdict.finish()
    if 'scenario' not in rp:
        raise common.MachineryError('this replay file does not describe a behaviour of spec/Ike.tla')
    g = ikemodel.dump_graph(rp['scenario'])
    steps = [(g.edges[i][1], g.edges[i][2], g.states[g.edges[i][3]]) for i in rp['path']]
    if 'refuse_at' in rp:
        done, bad, hit = ikereplay.fault_replay(g.sc, steps, rp['refuse_at'])
        for s in steps[:done + 1]:
            print('  ', ikemodel.describe(s[0]))
        print('refused:', hit, '->', bad or 'invariant holds')
        if bad:
            verdict.violation(f'replayed: {bad["kind"]} after refusing {hit}', bad, signature=body.get('signature'))
        return verdict.finish()
    done, mm, w = ikereplay.replay_behaviour(g.sc, steps)
    for s in steps[:done + 1]:
        print('  ', ikemodel.describe(s[0]))
    if mm is None:
        print('conforms')
    else:
        print(f'MISMATCH {mm.component}: {mm.msg}\n  expected: {mm.expected}\n  observed: {mm.observed}')
        verdict.violation(f'replayed: {mm.component}: {mm.msg}', {'expected': mm.expected, 'observed': mm.observed}, signature=body.get('signature'))
    return verdict.finish()
