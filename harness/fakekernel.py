"""In-process model of the kernel side of NETLINK_XFRM.

The model receives the *real netlink bytes* that /repo/netlink.py + /repo/xfrm.py write to their socket, decodes them at the
offsets of the kernel's own UAPI structures (native/layout.json, printed by a C program compiled against <linux/xfrm.h> -
nothing is shared with the ctypes mirrors in /repo/xfrm.py) and keeps a SAD keyed like the kernel (daddr, proto, spi) and an
SPD keyed (selector, dir).  Replies are kernel-encoded NLMSG_ERROR messages (error 0 = ACK).

Fault semantics (DESIGN.md C10): a refused NEWSA installs nothing; a refused DELSA reports an error *and the SA is absent
afterwards* (the realistic cause: the kernel already removed it).
"""
import errno
import ipaddress
import json
import os
import struct
import subprocess

from common import VERIF, MachineryError

_LAYOUT = None


def layout():
    global _LAYOUT
    if _LAYOUT is None:
        path = os.path.join(VERIF, 'native', 'layout.json')
        if not os.path.exists(path):
            build_native()
        _LAYOUT = json.load(open(path))
    return _LAYOUT


def build_native():
    nat = os.path.join(VERIF, 'native')
    exe = os.path.join(nat, 'xfrmcodec')
    p = subprocess.run(['gcc', '-O1', '-o', exe, os.path.join(nat, 'xfrmcodec.c')], stdout=subprocess.PIPE, stderr=subprocess.STDOUT)
    if p.returncode != 0:
        raise MachineryError('cannot build native/xfrmcodec: ' + p.stdout.decode())
    out = subprocess.run([exe, 'layout'], stdout=subprocess.PIPE, check=True).stdout
    with open(os.path.join(nat, 'layout.json'), 'wb') as fh:
        fh.write(out)


def C(name):
    return layout()['const'][name]


def _field(buf, base, st, f):
    off, size = layout()[f'{st}.{f}']
    return bytes(buf[base + off: base + off + size])


def _u(buf, base, st, f, be=False):
    b = _field(buf, base, st, f)
    return int.from_bytes(b, 'big' if be else 'little')


def _addr(raw16, family):
    if family == C('AF_INET'):
        return str(ipaddress.IPv4Address(raw16[:4]))
    if family == C('AF_INET6'):
        return str(ipaddress.IPv6Address(raw16))
    return 'family%d:%s' % (family, raw16.hex())


def dec_selector(buf, base):
    fam = _u(buf, base, 'xfrm_selector', 'family')
    return {
        'family': fam,
        'daddr': _addr(_field(buf, base, 'xfrm_selector', 'daddr'), fam),
        'saddr': _addr(_field(buf, base, 'xfrm_selector', 'saddr'), fam),
        'dport': _u(buf, base, 'xfrm_selector', 'dport', be=True),
        'dport_mask': _u(buf, base, 'xfrm_selector', 'dport_mask', be=True),
        'sport': _u(buf, base, 'xfrm_selector', 'sport', be=True),
        'sport_mask': _u(buf, base, 'xfrm_selector', 'sport_mask', be=True),
        'prefixlen_d': _u(buf, base, 'xfrm_selector', 'prefixlen_d'),
        'prefixlen_s': _u(buf, base, 'xfrm_selector', 'prefixlen_s'),
        'proto': _u(buf, base, 'xfrm_selector', 'proto'),
        'ifindex': _u(buf, base, 'xfrm_selector', 'ifindex'),
        'user': _u(buf, base, 'xfrm_selector', 'user'),
    }


def dec_lft(buf, base):
    names = ['soft_byte_limit', 'hard_byte_limit', 'soft_packet_limit', 'hard_packet_limit', 'soft_add_expires_seconds',
             'hard_add_expires_seconds', 'soft_use_expires_seconds', 'hard_use_expires_seconds']
    return {n: _u(buf, base, 'xfrm_lifetime_cfg', n) for n in names}


def nla_align(n):
    a = C('NLA_ALIGNTO')
    return (n + a - 1) & ~(a - 1)


def dec_attrs(buf, start, end):
    """Returns (list of attrs, framing_ok)."""
    out, ok = [], True
    p = start
    hdr = layout()['nlattr'][1]
    while end - p >= hdr:
        ln = _u(buf, p, 'nlattr', 'nla_len')
        ty = _u(buf, p, 'nlattr', 'nla_type')
        if ln < hdr or p + ln > end:
            ok = False
            break
        data = bytes(buf[p + hdr: p + ln])
        a = {'type': ty, 'len': ln, 'raw': data}
        if ty in (C('XFRMA_ALG_AUTH'), C('XFRMA_ALG_CRYPT')) and len(data) >= layout()['xfrm_algo'][1]:
            name = _field(data, 0, 'xfrm_algo', 'alg_name')
            klen = _u(data, 0, 'xfrm_algo', 'alg_key_len')
            koff = layout()['xfrm_algo.alg_key'][0]
            kb = (klen + 7) // 8
            a.update(alg_name=name.split(b'\0')[0].decode('latin1'), alg_name_raw=name, alg_key_len=klen,
                     key=data[koff:koff + kb], key_fits=koff + kb <= len(data), trailing=data[koff + kb:])
        elif ty == C('XFRMA_TMPL') and len(data) >= layout()['xfrm_user_tmpl'][1]:
            fam = _u(data, 0, 'xfrm_user_tmpl', 'family')
            ido = layout()['xfrm_user_tmpl.id'][0]
            a['tmpl'] = {
                'family': fam,
                'daddr': _addr(_field(data, ido, 'xfrm_id', 'daddr'), fam),
                'spi': _field(data, ido, 'xfrm_id', 'spi').hex(),
                'proto': _u(data, ido, 'xfrm_id', 'proto'),
                'saddr': _addr(_field(data, 0, 'xfrm_user_tmpl', 'saddr'), fam),
                'reqid': _u(data, 0, 'xfrm_user_tmpl', 'reqid'),
                'mode': _u(data, 0, 'xfrm_user_tmpl', 'mode'),
                'share': _u(data, 0, 'xfrm_user_tmpl', 'share'),
                'optional': _u(data, 0, 'xfrm_user_tmpl', 'optional'),
                'aalgos': _u(data, 0, 'xfrm_user_tmpl', 'aalgos'),
                'ealgos': _u(data, 0, 'xfrm_user_tmpl', 'ealgos'),
                'calgos': _u(data, 0, 'xfrm_user_tmpl', 'calgos'),
                'count': len(data) // layout()['xfrm_user_tmpl'][1],
            }
        out.append(a)
        p += nla_align(ln)
    if p < end and any(buf[p:end]):
        ok = False
    return out, ok


def decode_request(data):
    """Decode one netlink request written by the daemon. Returns a dict with 'kind' and the decoded *intent*."""
    data = bytes(data)
    L = layout()
    hl = L['nlmsghdr'][1]
    if len(data) < hl:
        return {'kind': 'SHORT', 'framing_ok': False, 'raw': data}
    r = {
        'nlmsg_len': _u(data, 0, 'nlmsghdr', 'nlmsg_len'), 'actual_len': len(data),
        'type': _u(data, 0, 'nlmsghdr', 'nlmsg_type'), 'flags': _u(data, 0, 'nlmsghdr', 'nlmsg_flags'),
        'seq': _u(data, 0, 'nlmsghdr', 'nlmsg_seq'), 'pid': _u(data, 0, 'nlmsghdr', 'nlmsg_pid'), 'raw': data,
    }
    ok = r['nlmsg_len'] == len(data)
    p = hl
    t = r['type']
    if t == C('XFRM_MSG_NEWSA') and len(data) - p >= L['xfrm_usersa_info'][1]:
        fam = _u(data, p, 'xfrm_usersa_info', 'family')
        ido = p + L['xfrm_usersa_info.id'][0]
        r.update(kind='NEWSA', sel=dec_selector(data, p + L['xfrm_usersa_info.sel'][0]), family=fam,
                 daddr=_addr(_field(data, ido, 'xfrm_id', 'daddr'), fam), spi=_field(data, ido, 'xfrm_id', 'spi'),
                 proto=_u(data, ido, 'xfrm_id', 'proto'), saddr=_addr(_field(data, p, 'xfrm_usersa_info', 'saddr'), fam),
                 lft=dec_lft(data, p + L['xfrm_usersa_info.lft'][0]), seq_sa=_u(data, p, 'xfrm_usersa_info', 'seq'),
                 reqid=_u(data, p, 'xfrm_usersa_info', 'reqid'), mode=_u(data, p, 'xfrm_usersa_info', 'mode'),
                 replay_window=_u(data, p, 'xfrm_usersa_info', 'replay_window'), sa_flags=_u(data, p, 'xfrm_usersa_info', 'flags'))
        r['attrs'], aok = dec_attrs(data, p + nla_align(L['xfrm_usersa_info'][1]), len(data))
        ok = ok and aok
    elif t == C('XFRM_MSG_DELSA') and len(data) - p >= L['xfrm_usersa_id'][1]:
        fam = _u(data, p, 'xfrm_usersa_id', 'family')
        r.update(kind='DELSA', family=fam, daddr=_addr(_field(data, p, 'xfrm_usersa_id', 'daddr'), fam),
                 spi=_field(data, p, 'xfrm_usersa_id', 'spi'), proto=_u(data, p, 'xfrm_usersa_id', 'proto'))
        r['attrs'], aok = dec_attrs(data, p + nla_align(L['xfrm_usersa_id'][1]), len(data))
        ok = ok and aok
    elif t == C('XFRM_MSG_NEWPOLICY') and len(data) - p >= L['xfrm_userpolicy_info'][1]:
        r.update(kind='NEWPOLICY', sel=dec_selector(data, p + L['xfrm_userpolicy_info.sel'][0]),
                 lft=dec_lft(data, p + L['xfrm_userpolicy_info.lft'][0]),
                 priority=_u(data, p, 'xfrm_userpolicy_info', 'priority'), index=_u(data, p, 'xfrm_userpolicy_info', 'index'),
                 dir=_u(data, p, 'xfrm_userpolicy_info', 'dir'), action=_u(data, p, 'xfrm_userpolicy_info', 'action'),
                 pol_flags=_u(data, p, 'xfrm_userpolicy_info', 'flags'), share=_u(data, p, 'xfrm_userpolicy_info', 'share'))
        r['attrs'], aok = dec_attrs(data, p + nla_align(L['xfrm_userpolicy_info'][1]), len(data))
        ok = ok and aok
    elif t in (C('XFRM_MSG_FLUSHSA'), C('XFRM_MSG_FLUSHPOLICY')):
        r.update(kind='FLUSHSA' if t == C('XFRM_MSG_FLUSHSA') else 'FLUSHPOLICY', payload_len=len(data) - p)
        if len(data) - p >= L['xfrm_usersa_flush'][1]:
            r['proto'] = _u(data, p, 'xfrm_usersa_flush', 'proto')
        else:
            ok = False
    else:
        r['kind'] = 'OTHER'
    r['framing_ok'] = ok
    return r


def encode_error(err, req):
    """Kernel-side NLMSG_ERROR (err = 0: ACK). Layout from the kernel headers."""
    L = layout()
    hl = L['nlmsghdr'][1]
    total = hl + L['nlmsgerr'][1]
    buf = bytearray(total)

    def put(base, st, f, val, signed=False):
        off, size = L[f'{st}.{f}']
        buf[base + off: base + off + size] = int(val).to_bytes(size, 'little', signed=signed)
    put(0, 'nlmsghdr', 'nlmsg_len', total)
    put(0, 'nlmsghdr', 'nlmsg_type', C('NLMSG_ERROR'))
    put(0, 'nlmsghdr', 'nlmsg_seq', req.get('seq', 0))
    put(0, 'nlmsghdr', 'nlmsg_pid', req.get('pid', 0))
    put(hl, 'nlmsgerr', 'error', -err, signed=True)
    mo = hl + L['nlmsgerr.msg'][0]
    buf[mo:mo + hl] = bytes(req.get('raw', b''))[:hl].ljust(hl, b'\0')
    return bytes(buf)


class Kernel:
    """SAD / SPD of one host. Survives daemon incarnations."""

    def __init__(self, name):
        self.name = name
        self.sad = {}        # (daddr, proto, spi bytes) -> decoded NEWSA request
        self.spd = {}        # (selector tuple, dir) -> decoded NEWPOLICY request
        self.requests = []   # every decoded request, in order (with 'result')
        self.refuse = None   # callable(index, decoded) -> errno or 0
        self.bad_framing = []

    def handle(self, data):
        req = decode_request(data)
        idx = len(self.requests)
        self.requests.append(req)
        if not req.get('framing_ok'):
            self.bad_framing.append(idx)
        err = 0
        forced = self.refuse(idx, req) if self.refuse else 0
        k = req['kind']
        if k == 'NEWSA':
            key = (req['daddr'], req['proto'], req['spi'])
            if forced:
                err = forced
            elif key in self.sad:
                err = errno.EEXIST
            else:
                self.sad[key] = req
        elif k == 'DELSA':
            key = (req['daddr'], req['proto'], req['spi'])
            if forced:
                err = forced
                self.sad.pop(key, None)
            elif key not in self.sad:
                err = errno.ESRCH
            else:
                del self.sad[key]
        elif k == 'NEWPOLICY':
            s = req['sel']
            key = (tuple(sorted(s.items())), req['dir'])
            if forced:
                err = forced
            elif key in self.spd:
                err = errno.EEXIST
            else:
                self.spd[key] = req
        elif k == 'FLUSHSA':
            if forced:
                err = forced
            else:
                # xfrm_usersa_flush.proto: 0 (IPSEC_PROTO_ANY) flushes every state, any other value only the states of that protocol
                proto = req.get('proto', 0)
                for key in [x for x in self.sad if proto in (0, x[1])]:
                    del self.sad[key]
        elif k == 'FLUSHPOLICY':
            if forced:
                err = forced
            else:
                self.spd.clear()
        else:
            err = errno.EOPNOTSUPP
        req['result'] = err
        return encode_error(err, req)


class FakeNetlinkSocket:
    def __init__(self, kernel):
        self.kernel = kernel
        self.replies = []
        self.closed = False

    def bind(self, addr):
        self.bound = addr

    def send(self, data):
        self.replies.append(self.kernel.handle(bytes(data)))
        return len(data)

    def recv(self, n):
        if self.replies:
            return self.replies.pop(0)
        return b''

    def close(self):
        self.closed = True

    def fileno(self):
        return -1


# ------------------------------------------------------------------------------------------------ kernel -> daemon events
def _put(buf, base, st, f, val, be=False, signed=False):
    off, size = layout()[f'{st}.{f}']
    if isinstance(val, (bytes, bytearray)):
        buf[base + off: base + off + len(val)] = val
    else:
        buf[base + off: base + off + size] = int(val).to_bytes(size, 'big' if be else 'little', signed=signed)


def _packed(addr):
    return ipaddress.ip_address(addr).packed


def _fam(addr):
    return C('AF_INET') if ipaddress.ip_address(addr).version == 4 else C('AF_INET6')


def enc_selector(buf, base, saddr, daddr, sport, dport, proto, pfxs=None, pfxd=None, family=None):
    fam = family if family is not None else _fam(saddr)
    full = 32 if fam == C('AF_INET') else 128
    _put(buf, base, 'xfrm_selector', 'family', fam)
    _put(buf, base, 'xfrm_selector', 'saddr', _packed(saddr))
    _put(buf, base, 'xfrm_selector', 'daddr', _packed(daddr))
    _put(buf, base, 'xfrm_selector', 'sport', sport, be=True)
    _put(buf, base, 'xfrm_selector', 'dport', dport, be=True)
    _put(buf, base, 'xfrm_selector', 'sport_mask', 0xffff if sport else 0, be=True)
    _put(buf, base, 'xfrm_selector', 'dport_mask', 0xffff if dport else 0, be=True)
    _put(buf, base, 'xfrm_selector', 'prefixlen_s', full if pfxs is None else pfxs)
    _put(buf, base, 'xfrm_selector', 'prefixlen_d', full if pfxd is None else pfxd)
    _put(buf, base, 'xfrm_selector', 'proto', proto)


def enc_acquire(saddr, daddr, sel_saddr, sel_daddr, sport, dport, proto, index, ipsec_proto=50, mode=0, seq=0,
                pfxs=None, pfxd=None):
    """XFRM_MSG_ACQUIRE as the kernel lays it out: nlmsghdr | xfrm_user_acquire | XFRMA_TMPL(xfrm_user_tmpl)."""
    L = layout()
    hl = L['nlmsghdr'][1]
    acq = L['xfrm_user_acquire'][1]
    nah = L['nlattr'][1]
    tl = L['xfrm_user_tmpl'][1]
    total = hl + nla_align(acq) + nla_align(nah + tl)
    buf = bytearray(total)
    _put(buf, 0, 'nlmsghdr', 'nlmsg_len', total)
    _put(buf, 0, 'nlmsghdr', 'nlmsg_type', C('XFRM_MSG_ACQUIRE'))
    _put(buf, 0, 'nlmsghdr', 'nlmsg_seq', seq)
    p = hl
    fam = _fam(saddr)
    ido = p + L['xfrm_user_acquire.id'][0]
    _put(buf, ido, 'xfrm_id', 'daddr', _packed(daddr))
    _put(buf, ido, 'xfrm_id', 'proto', ipsec_proto)
    _put(buf, p, 'xfrm_user_acquire', 'saddr', _packed(saddr))
    enc_selector(buf, p + L['xfrm_user_acquire.sel'][0], sel_saddr, sel_daddr, sport, dport, proto, pfxs, pfxd)
    po = p + L['xfrm_user_acquire.policy'][0]
    enc_selector(buf, po + L['xfrm_userpolicy_info.sel'][0], sel_saddr, sel_daddr, sport, dport, proto, pfxs, pfxd)
    _put(buf, po, 'xfrm_userpolicy_info', 'index', index)
    _put(buf, po, 'xfrm_userpolicy_info', 'dir', C('XFRM_POLICY_OUT'))
    for f in ('aalgos', 'ealgos', 'calgos'):
        _put(buf, p, 'xfrm_user_acquire', f, 0xffffffff)
    _put(buf, p, 'xfrm_user_acquire', 'seq', seq)
    a = hl + nla_align(acq)
    _put(buf, a, 'nlattr', 'nla_len', nah + tl)
    _put(buf, a, 'nlattr', 'nla_type', C('XFRMA_TMPL'))
    t = a + nah
    _put(buf, t, 'xfrm_user_tmpl', 'family', fam)
    _put(buf, t, 'xfrm_user_tmpl', 'saddr', _packed(saddr))
    _put(buf, t + L['xfrm_user_tmpl.id'][0], 'xfrm_id', 'daddr', _packed(daddr))
    _put(buf, t + L['xfrm_user_tmpl.id'][0], 'xfrm_id', 'proto', ipsec_proto)
    _put(buf, t, 'xfrm_user_tmpl', 'mode', mode)
    for f in ('aalgos', 'ealgos', 'calgos'):
        _put(buf, t, 'xfrm_user_tmpl', f, 0xffffffff)
    return bytes(buf)


def enc_expire(daddr, spi, proto, hard, seq=0):
    """XFRM_MSG_EXPIRE: nlmsghdr | xfrm_user_expire (state.id.{daddr,spi,proto}, hard)."""
    L = layout()
    hl = L['nlmsghdr'][1]
    total = hl + nla_align(L['xfrm_user_expire'][1])
    buf = bytearray(total)
    _put(buf, 0, 'nlmsghdr', 'nlmsg_len', total)
    _put(buf, 0, 'nlmsghdr', 'nlmsg_type', C('XFRM_MSG_EXPIRE'))
    _put(buf, 0, 'nlmsghdr', 'nlmsg_seq', seq)
    st = hl + L['xfrm_user_expire.state'][0]
    ido = st + L['xfrm_usersa_info.id'][0]
    _put(buf, ido, 'xfrm_id', 'daddr', _packed(daddr))
    _put(buf, ido, 'xfrm_id', 'spi', bytes(spi))
    _put(buf, ido, 'xfrm_id', 'proto', proto)
    _put(buf, st, 'xfrm_usersa_info', 'family', _fam(daddr))
    _put(buf, hl, 'xfrm_user_expire', 'hard', 1 if hard else 0)
    return bytes(buf)
