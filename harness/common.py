"""Shared infrastructure of the /verif checks: paths, verdict/evidence plumbing, TLC runner, known findings.

Exit codes of every check (DESIGN.md section 5):
  0  the property held on everything explored (possibly with KNOWN-FINDING lines)
  1  at least one violation not listed in known_findings.json (one VIOLATION line each)
  2  the machinery itself failed (TLC crashed, attribute vanished, ...) - never a verdict on the property
"""
import hashlib
import json
import os
import re
import shutil
import subprocess
import sys
import tempfile
import time

VERIF = os.path.dirname(os.path.dirname(os.path.abspath(__file__)))
REPO = os.environ.get('VERIF_REPO', '/repo')
SPEC = os.path.join(VERIF, 'spec')
# VERIF_OUT redirects what a run writes (used when the checks are pointed at a seeded tree, so that the committed evidence stays that of /repo)
OUT = os.environ.get('VERIF_OUT') or VERIF
EVIDENCE = os.path.join(OUT, 'evidence')
REPLAYS = os.path.join(OUT, 'replays')
SEED = int(os.environ.get('VERIF_SEED', '0') or 0)
NCPU = min(16, os.cpu_count() or 1)
TLC_JARS = '/opt/veriftools/tla/tla2tools.jar:/opt/veriftools/tla/CommunityModules-deps.jar'


class MachineryError(Exception):
    """The check could not be carried out (exit 2)."""


# ---------------------------------------------------------------------------------------------- verdicts
class Verdict:
    """Collects violations / known findings for one property run and writes the evidence file."""

    def __init__(self, prop, tier, level):
        self.prop = prop
        self.tier = tier
        self.level = level
        self.t0 = time.time()
        self.violations = []          # (signature dict, replay path)
        self.known = []               # strings
        self.coverage = {}
        self.assumptions = []
        self.findings = load_known_findings().get(prop, [])
        self._seen = set()

    def violation(self, what, detail, signature=None, replay=None):
        """Report a violation. `signature` (dict of str) is matched against known_findings.json."""
        signature = dict(signature or {})
        for f in self.findings:
            if f.get('status') == 'open' and _sig_matches(f.get('signature', {}), signature):
                line = f"KNOWN-FINDING: property={self.prop} {f['id']}: {f['what']}"
                if line not in self.known:
                    self.known.append(line)
                    print(line, flush=True)
                return False
        key = json.dumps(signature if signature else what, sort_keys=True, default=str)
        if key in self._seen:
            return True
        self._seen.add(key)
        os.makedirs(REPLAYS, exist_ok=True)
        body = {'property': self.prop, 'what': what, 'signature': signature, 'detail': detail, 'replay': replay,
                'seed': SEED, 'tier': self.tier, 'repo': REPO}
        h = hashlib.sha1(json.dumps(body, sort_keys=True, default=str).encode()).hexdigest()[:12]
        path = os.path.join(REPLAYS, f'{self.prop}-{h}.json')
        with open(path, 'w') as fh:
            json.dump(body, fh, indent=1, default=str)
        self.violations.append((signature, path))
        if len(self.violations) <= 25:
            print(f'VIOLATION property={self.prop} replay={path}', flush=True)
            print(f'  {what}', flush=True)
        return True

    def finish(self):
        cov = dict(self.coverage)
        ev = {'property_id': self.prop, 'tier': self.tier, 'seed': SEED, 'level': self.level, 'coverage': cov,
              'assumptions': self.assumptions, 'wall_s': round(time.time() - self.t0, 2),
              'violations': len(self.violations), 'known_findings_hit': self.known, 'repo': REPO}
        os.makedirs(EVIDENCE, exist_ok=True)
        with open(os.path.join(EVIDENCE, f'{self.prop}.json'), 'w') as fh:
            json.dump(ev, fh, indent=1, default=str)
        n = len(self.violations)
        print(f'[{self.prop}] tier={self.tier} violations={n} known={len(self.known)} wall={ev["wall_s"]}s', flush=True)
        return 1 if n else 0


def _sig_matches(pattern, sig):
    """Every key of the pattern must be present in the signature and match (string equality or regex with 're:' prefix)."""
    for k, v in pattern.items():
        if k not in sig:
            return False
        s = str(sig[k])
        if isinstance(v, str) and v.startswith('re:'):
            if not re.fullmatch(v[3:], s):
                return False
        elif str(v) != s:
            return False
    return True


_KF = None


def load_known_findings():
    global _KF
    if _KF is None:
        _KF = {}
        path = os.path.join(VERIF, 'known_findings.json')
        if os.path.exists(path):
            for f in json.load(open(path)).get('findings', []):
                _KF.setdefault(f['property'], []).append(f)
    return _KF


# ---------------------------------------------------------------------------------------------- TLC
class TlcResult:
    def __init__(self, out, rc, wall):
        self.out = out
        self.rc = rc
        self.wall = wall
        m = re.search(r'(\d+) states generated, (\d+) distinct states found', out)
        self.generated = int(m.group(1)) if m else 0
        self.distinct = int(m.group(2)) if m else 0
        m = re.search(r'The depth of the complete state graph search is (\d+)', out)
        self.depth = int(m.group(1)) if m else 0
        self.violated = re.findall(r'Invariant (\S+) is violated', out) + \
            re.findall(r'Action property (\S+) is violated', out) + \
            (['Temporal'] if 'Temporal properties were violated' in out else []) + \
            (['Deadlock'] if 'Deadlock reached' in out else [])
        self.ok = ('Model checking completed. No error has been found' in out) or \
                  ('finished computing' in out.lower() and not self.violated)
        self.error = None
        if not self.ok and not self.violated:
            m = re.search(r'(Error: .*|\*\*\* Errors: .*|Parsing or semantic analysis failed.*)', out)
            self.error = m.group(1) if m else f'TLC exit {rc}'

    def coverage_counts(self):
        """action name -> (distinct, generated) from '-coverage' output of the final report."""
        cov = {}
        for m in re.finditer(r'<(\w+) line \d+, col \d+ to line \d+, col \d+ of module (\w+)>: (\d+):(\d+)', self.out):
            cov[m.group(1)] = (int(m.group(3)), int(m.group(4)))
        return cov


def run_tlc(module, cfg=None, workers=None, timeout=1200, extra=(), env=None, cwd=None, simulate=None, heap='8g',
            coverage=False, deadlock=True, seed=None, depth_first=False):
    """Run TLC on spec/<module>.tla with spec/<cfg>. A private metadir is created and removed."""
    cwd = cwd or SPEC
    meta = tempfile.mkdtemp(prefix='verif-tlc-')
    cmd = ['java', '-XX:+UseParallelGC', f'-Xmx{heap}']
    if depth_first:
        cmd.append('-Dtlc2.tool.queue.IStateQueue=StateDeque')
    cmd += ['-cp', TLC_JARS, 'tlc2.TLC', '-metadir', meta, '-noGenerateSpecTE', '-workers', str(workers or NCPU)]
    if cfg:
        cmd += ['-config', cfg]
    if simulate:
        cmd += ['-simulate', simulate]
    if coverage:
        cmd += ['-coverage', '1']
    if seed is not None:
        cmd += ['-seed', str(seed)]
    if not deadlock:
        cmd += ['-deadlock']
    cmd += list(extra) + [module]
    e = dict(os.environ)
    e.update(env or {})
    t0 = time.time()
    try:
        p = subprocess.run(cmd, cwd=cwd, env=e, stdout=subprocess.PIPE, stderr=subprocess.STDOUT, timeout=timeout)
        out, rc = p.stdout.decode(errors='replace'), p.returncode
    except subprocess.TimeoutExpired as ex:
        out = (ex.stdout or b'').decode(errors='replace') + '\nTLC TIMEOUT'
        rc = 124
    finally:
        shutil.rmtree(meta, ignore_errors=True)
    return TlcResult(out, rc, time.time() - t0)


def tlc_must_pass(res, what):
    if res.violated or not res.ok:
        tail = '\n'.join(res.out.splitlines()[-60:])
        raise MachineryError(f'TLC did not verify {what}: violated={res.violated} error={res.error}\n{tail}')
    return res


def parse_printT_json(out, tag):
    """Yield the JSON payloads of PrintT(<<tag, ToJson(x)>>) lines."""
    prefix = f'<<"{tag}", "'
    for line in out.splitlines():
        if line.startswith(prefix) and line.endswith('">>'):
            s = line[len(prefix) - 1:-2]
            yield json.loads(json.loads(s))


def scratch_dir():
    return tempfile.mkdtemp(prefix='verif-')


def repo_import_guard():
    """Put REPO first on sys.path (fresh interpreter per check => edits to /repo are always picked up)."""
    if sys.path[0] != REPO:
        sys.path.insert(0, REPO)
    for name in ('ikesa', 'ikesacontroller', 'message', 'crypto', 'xfrm', 'netlink', 'configuration'):
        if not os.path.exists(os.path.join(REPO, name + '.py')):
            raise MachineryError(f'{REPO}/{name}.py is missing')
