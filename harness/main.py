"""./check entry point.  ./check <Cxx> [--tier quick|thorough] [--replay <path>] | ./check selftest [...]"""
import argparse
import importlib
import os
import sys
import traceback

sys.path.insert(0, os.path.dirname(os.path.abspath(__file__)))
import common  # noqa: E402


def line_coverage(path):
    """VERIF_COV=<file>: append 'module:line' for every line of the implementation executed by this run (and its worker processes) - a
    development aid to see which code of /repo no check ever executes."""
    mon = sys.monitoring
    tool = mon.COVERAGE_ID
    fd = os.open(path, os.O_WRONLY | os.O_APPEND | os.O_CREAT, 0o644)
    root = os.path.realpath(common.REPO) + os.sep

    def on_line(code, line):
        fn = code.co_filename
        if fn.startswith(root):
            os.write(fd, f'{fn[len(root):]}:{line}\n'.encode())
        return mon.DISABLE
    mon.use_tool_id(tool, 'verif-cov')
    mon.register_callback(tool, mon.events.LINE, on_line)
    mon.set_events(tool, mon.events.LINE)


def main():
    if os.environ.get('VERIF_COV'):
        line_coverage(os.environ['VERIF_COV'])
    ap = argparse.ArgumentParser()
    ap.add_argument('target', help='property id (C01..C20), "selftest" or "all"')
    ap.add_argument('--tier', default=os.environ.get('VERIF_TIER') or 'quick', choices=['quick', 'thorough'])
    ap.add_argument('--replay', default=None)
    ap.add_argument('rest', nargs='*')
    args = ap.parse_args()
    target = args.target
    try:
        if target == 'selftest':
            mod = importlib.import_module('selftest')
            return mod.run(args.rest)
        if target == 'all':
            rc = 0
            for i in range(1, 21):
                pid = f'C{i:02d}'
                try:
                    mod = importlib.import_module(f'checks.{pid.lower()}')
                except ImportError:
                    continue
                rc = max(rc, os.system(f'{common.VERIF}/check {pid} --tier {args.tier}') >> 8)
            return rc
        mod = importlib.import_module(f'checks.{target.lower()}')
        return mod.run(args.tier, args.replay)
    except common.MachineryError as ex:
        print(f'MACHINERY-ERROR target={target}: {ex}', file=sys.stderr, flush=True)
        return 2
    except Exception:
        traceback.print_exc()
        print(f'MACHINERY-ERROR target={target}: unexpected exception in the harness', file=sys.stderr, flush=True)
        return 2


if __name__ == '__main__':
    sys.exit(main())
