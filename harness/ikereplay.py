"""Replaying behaviours of spec/Ike.tla into the real code (binding A) and comparing after every step.

The only place that reads implementation internals is `project`; it reads what the properties' anchors name.
Datagrams are summarised by the independent decoder (wire_ref) after opening them with the sender's keys.
"""
import json
import struct

import common
import fakekernel
import kdf_ref
import wire_ref as W
import world as wd
from world import tok, IkeSa

GROUP_ABS = {19: 1, 20: 2, 14: 3, 21: 4}
GROUP_NAME = {1: 'ecp256', 2: 'ecp384', 3: 'modp2048', 4: 'ecp521'}
CLEAR = [[], 'c']
WAITING = {'NEW_CHILD_REQ_SENT', 'REK_CHILD_REQ_SENT', 'REK_IKE_SA_REQ_SENT', 'DEL_CHILD_REQ_SENT', 'DEL_IKE_SA_REQ_SENT',
           'DEL_AFTER_REKEY_IKE_SA_REQ_SENT', 'DPD_REQ_SENT', 'INIT_REQ_SENT', 'AUTH_REQ_SENT'}


class Mismatch(Exception):
    """The implementation left the behaviour the specification prescribes."""

    def __init__(self, component, msg, expected=None, observed=None):
        super().__init__(f'{component}: {msg}')
        self.component = component
        self.msg = msg
        self.expected = expected
        self.observed = observed


def jkey(x):
    return json.dumps(x, sort_keys=True)


def transform_ids(prop, ttype):
    return [t['id'] for t in prop['transforms'] if t['type'] == ttype]


class IkeWorld(wd.World):
    """World + everything the Ike.tla binding needs: emitted-datagram registry, exchange tracker, observers."""

    def __init__(self, sc, seed=0, **kw):
        import ikemodel
        dhl = ikemodel.DH_LISTS
        opts_by_ep = {e: {'ike_dh': [GROUP_NAME[g] for g in dhl[sc['IkeDh']][e]],
                          'child_dh': [GROUP_NAME[g] for g in dhl[sc['ChildDh']][e]]} for e in 'AB'}
        opts = dict(kw.pop('opts', {}))
        super().__init__(opts=opts, opts_by_ep=opts_by_ep, seed=seed, cookie_threshold=sc['CookieThreshold'], **kw)
        self.sc = sc
        self.net = {}            # abstract message key -> bytes
        self.emitted = {}        # bytes -> summary (every datagram the code ever produced)
        self.init_versions = {}  # tok(spi_i) key -> list of (ke_data) seen, for the DH generation number
        self.resp_gen = {}       # tok key of responder IKE_SA -> gen of the request it answered
        self.ike_info = {}       # (spi_i, spi_r) bytes -> dict(prf, ni, nr)   for KEYMAT of IKE_AUTH
        self.exchanges = {}      # child spi bytes -> dict(keys ei/ai/er/ar, km)
        self.handler_runs = []   # names of IkeSa handlers executed in the current step
        self.routed = []         # IkeSa objects whose process_message ran in the current step
        self.exec_count = {}     # (id(sa), mid) -> executions of a request
        self.auth_checks = 0
        install_observers()
        if sc['StartEstablished']:
            retry = 0 if dhl[sc['IkeDh']]['B'][0] == dhl[sc['IkeDh']]['A'][0] else 1
            log = self.establish('A', sport=0, dport=0)
            if len(log) != 4 + 2 * retry:
                raise common.MachineryError(f'initial exchanges took {len(log)} datagrams')
            a, b = self.sas('A')[0], self.sas('B')[0]
            if (tok(a.my_spi), tok(b.my_spi), self.draws) != (['A', 1], ['B', 1 + retry], {'A': 2, 'B': 2 + retry}):
                raise common.MachineryError('SPI tokens of the established start state are not as the specification assumes')
            prev = None
            for src, data in log:
                prev = self.note_emitted(src, data, ctx=prev)
            self.resp_gen[jkey(['B', 1 + retry])] = retry
            a._verif_gen_at_keys = a._verif_peer_gen = retry
            self.net.clear()

    # ------------------------------------------------------------------ summaries
    def sender_sa(self, hdr):
        my = hdr['spi_i'] if hdr['initiator'] else hdr['spi_r']
        for sa in reversed(wd.REGISTRY):
            if sa.my_spi == my:
                return sa
        return None

    @staticmethod
    def keys_of(sa):
        c = sa.my_crypto
        if c is None:
            return None
        integ = {('sha1', 12): 2, ('sha256', 16): 12, ('sha512', 32): 14}[(c.integrity.hasher().name, c.integrity.hash_size)]
        return {'ke': c.sk_e, 'ka': c.sk_a, 'integ': integ}

    def key_id(self, sa):
        """Identifier of an IKE_SA's keys in the vocabulary of the specification: <<SPIi, SPIr, gen_i, gen_r>>."""
        if sa.ike_sa_keyring is None:
            return []
        gi = gr = 0
        if sa.is_initiator:
            gi = getattr(sa, '_verif_gen_at_keys', 0)
            gr = getattr(sa, '_verif_peer_gen', 0)
        else:
            gi = gr = self.resp_gen.get(jkey(tok(sa.my_spi)), 0)
        return [tok(sa.spi_i), tok(sa.spi_r), gi, gr]

    def summarize(self, sender, data, ctx=None):
        """Abstract message (the Msg record of Ike.tla) of a datagram emitted by endpoint `sender`."""
        data = bytes(data)
        hdr = W.dec_header(data)
        x = W.XNAME.get(hdr['xchg'], f'X{hdr["xchg"]}')
        sa = self.sender_sa(hdr)
        m = None
        prot = CLEAR
        if x == 'INIT' or sa is None or sa.my_crypto is None:
            m = W.dec_message(data)
            pl = m['payloads']
        else:
            m = W.dec_message(data, self.keys_of(sa))
            if not m['protected']:
                pl = m['payloads']
            else:
                pl = m['inner']
                prot = [self.key_id(sa), 'i' if sa.is_initiator else 'r']
                if m['payloads']:
                    raise Mismatch('clear', f'{x} datagram carries payloads outside the encrypted payload: {[p["t"] for p in m["payloads"]]}')
        if (hdr['major'], hdr['minor']) != (2, 0) or hdr['version'] or hdr['length'] != len(data):
            raise Mismatch('header', f'version {hdr["major"]}.{hdr["minor"]} flags {hdr["flags"]:#x} length {hdr["length"]}/{len(data)}')
        if hdr['flags'] & ~0x38:
            raise Mismatch('header', f'reserved flag bits set: {hdr["flags"]:#x}')
        body = self.body_of(x, hdr, pl, sa, ctx, data)
        return {'dst': self.peer_of(sender), 'si': tok(hdr['spi_i']), 'sr': tok(hdr['spi_r']), 'x': x, 'resp': hdr['response'],
                'fi': hdr['initiator'], 'mid': hdr['mid'], 'prot': prot, 'body': body}

    def body_of(self, x, hdr, pl, sa, ctx, data):
        notifies = [p for p in pl if p['t'] == W.NOTIFY]
        errs = [p for p in notifies if p['ntype'] < 16384]
        cookies = [p for p in notifies if p['ntype'] == 16390]
        sas_ = [p for p in pl if p['t'] == W.SA]
        kes = [p for p in pl if p['t'] == W.KE]
        dels = [p for p in pl if p['t'] == W.DELETE]
        rek = [p for p in notifies if p['ntype'] == 16393]

        def notify(p):
            n = W.notify_name(p['ntype'])
            if n == 'INVALID_KE_PAYLOAD':
                return {'kind': 'notify', 'n': n, 'group': GROUP_ABS.get(struct.unpack('>H', p['data'])[0], 99)}
            return {'kind': 'notify', 'n': n}

        def offer(prop):
            return [GROUP_ABS.get(g, 99) for g in transform_ids(prop, 4)]
        if x == 'INIT':
            if not hdr['response']:
                vers = self.init_versions.setdefault(jkey(tok(hdr['spi_i'])), [])
                if kes[0]['data'] not in vers:
                    vers.append(kes[0]['data'])
                return {'kind': 'init_req', 'cookies': len(cookies), 'gen': vers.index(kes[0]['data']),
                        'group': GROUP_ABS.get(kes[0]['group'], 99), 'offer': offer(sas_[0]['proposals'][0])}
            if errs:
                return notify(errs[0])
            if cookies:
                return {'kind': 'notify', 'n': 'COOKIE'}
            gen = ctx['body']['gen'] if ctx else 0
            return {'kind': 'init_ok', 'group': GROUP_ABS.get(kes[0]['group'], 99), 'gen': gen}
        if x == 'AUTH':
            if not hdr['response']:
                return {'kind': 'auth_req', 'child': tok(sas_[0]['proposals'][0]['spi']), 'iv': self.signed_version(sa, pl, hdr)}
            if sas_:
                return {'kind': 'auth_ok', 'child': tok(sas_[0]['proposals'][0]['spi'])}
            return notify(errs[0]) if errs else {'kind': 'auth_nochild'}
        if errs:
            return notify(errs[0])
        if x == 'CCSA':
            prop = sas_[0]['proposals'][0]
            g = GROUP_ABS.get(kes[0]['group'], 99) if kes else 0
            if not hdr['response']:
                if prop['proto'] == 1:
                    return {'kind': 'rekey_ike', 'new': tok(prop['spi']), 'group': g, 'offer': offer(prop)}
                if rek:
                    return {'kind': 'rekey_child', 'spi': tok(rek[0]['spi']), 'new': tok(prop['spi']), 'group': g, 'offer': offer(prop)}
                return {'kind': 'new_child', 'new': tok(prop['spi']), 'group': g, 'offer': offer(prop)}
            if prop['proto'] == 1:
                return {'kind': 'rekey_ike_ok', 'new': tok(prop['spi']), 'group': g}
            return {'kind': 'child_ok', 'spi': tok(prop['spi']), 'group': g}
        if x == 'INFO':
            if dels and dels[0]['proto'] == 1:
                return {'kind': 'del_ike'}
            if dels:
                return {'kind': 'del_child', 'spi': tok(dels[0]['spis'][0]) if dels[0]['spis'] else []}
            return {'kind': 'empty'} if hdr['response'] else {'kind': 'dpd'}
        return {'kind': 'unknown_exchange'}

    def signed_version(self, sa, pl, hdr):
        """Which version <<#cookies, gen>> of its IKE_SA_INIT request did the initiator sign?  Decided by recomputing AUTH
        (PSK) / verifying the signature (RSA) over every version this initiator put on the wire (independent of the code)."""
        auth = next(p for p in pl if p['t'] == W.AUTH)
        idp = next(p for p in pl if p['t'] == W.IDI)
        spi_key = jkey(tok(hdr['spi_i']))
        cands = [(d, s) for d, s in self.emitted.items() if s['x'] == 'INIT' and not s['resp'] and jkey(s['si']) == spi_key]
        resps = [d for d, s in self.emitted.items() if s['x'] == 'INIT' and s['resp'] and jkey(s['si']) == spi_key
                 and jkey(s['sr']) == jkey(tok(hdr['spi_r'])) and s['body']['kind'] == 'init_ok']
        prf_id = None
        for rd in resps:
            rm = W.dec_message(rd)
            prf_id = transform_ids(next(p for p in rm['payloads'] if p['t'] == W.SA)['proposals'][0], 2)[0]
            nr = next(p for p in rm['payloads'] if p['t'] == W.NONCE)['data']
            for d, s in cands:
                octets = kdf_ref.signed_octets(prf_id, d, nr, sa.my_crypto.sk_p, idp['id_type'], idp['data'])
                self.auth_checks += 1
                if self.auth_ok(sa, auth, prf_id, octets):
                    return [s['body']['cookies'], s['body']['gen']]
        raise Mismatch('auth', 'AUTH payload of the IKE_AUTH request verifies over none of the IKE_SA_INIT requests this '
                       'initiator put on the wire (RFC 7296 2.15)')

    def auth_ok(self, sa, auth, prf_id, octets):
        conf = sa.configuration.my_auth
        if auth['method'] == 2:
            return conf.psk is not None and kdf_ref.psk_auth(prf_id, conf.psk, octets) == auth['data']
        if auth['method'] == 1 and conf.privkey is not None:
            from cryptography.hazmat.primitives import hashes
            from cryptography.hazmat.primitives.asymmetric import padding
            from cryptography.exceptions import InvalidSignature
            try:
                conf.privkey.key.public_key().verify(auth['data'], octets, padding.PKCS1v15(), hashes.SHA256())
                return True
            except InvalidSignature:
                return False
        return False

    def note_emitted(self, sender, data, ctx):
        data = bytes(data)
        prev = self.emitted.get(data)
        s = prev or self.summarize(sender, data, ctx)
        self.emitted[data] = s
        k = jkey(s)
        old = self.net.get(k)
        if old is not None and old != data:
            raise Mismatch('bytes', 'a retransmitted / replayed datagram is not byte-identical to the one sent before',
                           expected=old.hex(), observed=data.hex())
        self.net[k] = data
        try:
            self.track(sender, data, s, ctx)
        except (StopIteration, KeyError, IndexError, TypeError) as ex:
            # the tracker reads a response next to the request it answers: payloads that the exchange always carries are missing, i.e. what the endpoint
            # emitted as "the answer" does not belong to that request
            raise Mismatch('reply', f'{ctx}: the emitted datagram does not have the shape of the exchange it is said to answer ({type(ex).__name__})')
        return s

    # ------------------------------------------------------------------ exchange tracker (C01: which KEYMAT half where)
    def track(self, sender, data, s, ctx):
        """Record nonces / algorithms / DH secret of completed negotiations from the *wire* so that the key bytes the
        kernel receives can be attributed to a KEYMAT half by an independent key schedule."""
        if not s['resp'] or ctx is None:
            return
        kind = s['body']['kind']
        if kind not in ('init_ok', 'auth_ok', 'child_ok', 'rekey_ike_ok'):
            return
        req_data = self.net.get(jkey(ctx)) or next((d for d, x in self.emitted.items() if x == ctx), None)
        if req_data is None:
            return
        hdr = W.dec_header(data)
        rsa_ = self.sender_sa(hdr)

        def payloads(d, sa_keys):
            m = W.dec_message(d, sa_keys)
            return m['inner'] if m['protected'] else m['payloads']
        if kind == 'init_ok':
            rq, rs = payloads(req_data, None), payloads(data, None)
            prop = next(p for p in rs if p['t'] == W.SA)['proposals'][0]
            self.ike_info[(hdr['spi_i'], hdr['spi_r'])] = {
                'prf': transform_ids(prop, 2)[0],
                'ni': next(p for p in rq if p['t'] == W.NONCE)['data'], 'nr': next(p for p in rs if p['t'] == W.NONCE)['data']}
            return
        if rsa_ is None or rsa_.peer_crypto is None:
            return
        pc = rsa_.peer_crypto
        integ = {('sha1', 12): 2, ('sha256', 16): 12, ('sha512', 32): 14}[(pc.integrity.hasher().name, pc.integrity.hash_size)]
        rq = payloads(req_data, {'ke': pc.sk_e, 'ka': pc.sk_a, 'integ': integ})
        rs = payloads(data, self.keys_of(rsa_))
        if not any(p['t'] == W.SA for p in rq) or not any(p['t'] == W.SA for p in rs):
            # what the endpoint emitted as the answer to this request is the answer to ANOTHER exchange (a cached response handed out for the wrong request)
            raise Mismatch('window', f'{ctx}: the datagram emitted in answer to a request is the response of another exchange (no SA payload where the exchange negotiates one)')
        if kind == 'rekey_ike_ok':
            prop = next(p for p in rs if p['t'] == W.SA)['proposals'][0]
            rprop = next(p for p in rq if p['t'] == W.SA)['proposals'][0]
            self.ike_info[(rprop['spi'], prop['spi'])] = {'prf': transform_ids(prop, 2)[0], 'ni': None, 'nr': None}
            return
        info = self.ike_info.get((hdr['spi_i'], hdr['spi_r']))
        prf_name = rsa_.my_crypto.prf.hasher().name
        prf_id = {'sha1': 2, 'sha256': 5, 'sha512': 7}[prf_name]
        prop = next(p for p in rs if p['t'] == W.SA)['proposals'][0]
        rprop = next(p for p in rq if p['t'] == W.SA)['proposals'][0]
        if kind == 'auth_ok':
            if info is None or info['ni'] is None:
                return
            ni, nr, secret = info['ni'], info['nr'], None
        else:
            ni = next(p for p in rq if p['t'] == W.NONCE)['data']
            nr = next(p for p in rs if p['t'] == W.NONCE)['data']
            secret = None
            kes = [p for p in rq if p['t'] == W.KE]
            if transform_ids(prop, 4) and kes:
                secret = next((sec for (obj, pub, sec) in reversed(self.dh_secrets) if pub == kes[0]['data']), None)
        encr = [t for t in prop['transforms'] if t['type'] == 1]
        encr_bits = (encr[0]['keylen'] or 0) if (encr and prop['proto'] == 3) else 0
        integ_id = transform_ids(prop, 3)[0]
        keys = kdf_ref.child_keys(prf_id, rsa_.ike_sa_keyring.sk_d, integ_id, encr_bits, ni, nr, secret)
        km = [tok(rprop['spi']), tok(prop['spi'])]
        rec = {'keys': keys, 'km': km}
        self.exchanges[bytes(rprop['spi'])] = rec
        self.exchanges[bytes(prop['spi'])] = rec

    # ------------------------------------------------------------------ projection (real world -> variables of Ike.tla)
    def ep_of_addr(self, addr):
        for e in self.endpoints:
            if wd.addr_of(e, self.v6) == addr:
                return e
        return '?'

    def project_kern(self, e):
        out = []
        for (daddr, proto, spi), req in self.kernel[e].sad.items():
            ex = self.exchanges.get(bytes(spi))
            slot, km = '?', []
            if ex is not None:
                km = ex['km']
                auth = next((a for a in req['attrs'] if a['type'] == fakekernel.C('XFRMA_ALG_AUTH')), None)
                crypt = next((a for a in req['attrs'] if a['type'] == fakekernel.C('XFRMA_ALG_CRYPT')), None)
                ak = auth['key'] if auth else b''
                ek = crypt['key'] if crypt else b''
                for sl in ('i', 'r'):
                    if ak == ex['keys']['a' + sl] and ek == ex['keys']['e' + sl]:
                        slot = sl
            out.append({'dst': self.ep_of_addr(daddr), 'spi': tok(spi), 'km': km, 'slot': slot})
        return sorted(out, key=jkey)

    def tracked_kernel_keys(self, e):
        """(daddr, spi) of the SAs the daemon tracks: computed from the real objects (C10's own predicate)."""
        out = set()
        for sa in self.ctl[e].ike_sas:
            for c in sa.child_sas:
                out.add((str(sa.my_addr), bytes(c.inbound_spi)))
                out.add((str(sa.peer_addr), bytes(c.outbound_spi)))
        return out

    def project_sa(self, sa):
        st = sa.state.name
        d = {'id': tok(sa.my_spi), 'st': st, 'init': bool(sa.is_initiator), 'peer': tok(sa.peer_spi),
             'myMid': sa.my_msg_id, 'peerMid': sa.peer_msg_id,
             'kids': sorted(([tok(c.inbound_spi), tok(c.outbound_spi)] for c in sa.child_sas), key=jkey),
             'pending': [self.event_of(ev) for ev in sa.pending_events],
             'haskeys': sa.ike_sa_keyring is not None}
        if st in WAITING:
            rb = bytes(sa.request.to_bytes())
            s = self.emitted.get(rb)
            d['req'] = [s['x'], s['mid'], s['body']] if s else ['?', rb.hex()[:80]]
        if not sa.is_initiator or st not in ('INITIAL', 'INIT_REQ_SENT'):
            lr = getattr(sa, 'last_sent_response_data', None)
            if lr is not None:
                s = self.emitted.get(bytes(lr))
                d['lastResp'] = [s['x'], s['mid'], s['body']] if s else ['?', bytes(lr).hex()[:80]]
            else:
                d['lastResp'] = []
        if st in ('INIT_REQ_SENT', 'AUTH_REQ_SENT', 'NEW_CHILD_REQ_SENT', 'REK_CHILD_REQ_SENT'):
            d['creating'] = tok(sa.creating_child_sa.inbound_spi) if sa.creating_child_sa is not None else []
        if st == 'REK_CHILD_REQ_SENT':
            d['rekeying'] = tok(sa.rekeying_child_sa.inbound_spi)
        if st == 'DEL_CHILD_REQ_SENT':
            d['deleting'] = tok(sa.deleting_child_sa.inbound_spi)
        if st in ('REK_IKE_SA_REQ_SENT', 'REKEYED', 'DEL_AFTER_REKEY_IKE_SA_REQ_SENT'):
            d['newSa'] = tok(sa.new_ike_sa.my_spi) if sa.new_ike_sa is not None else []
        if not sa.is_initiator:
            d['cookie'] = sa.cookie_secret is not None
        return d

    @staticmethod
    def event_of(ev):
        fn, args = ev[0], ev[1:]
        if fn.__name__ == 'process_acquire':
            return {'ev': 'acquire'}
        return {'ev': 'expire', 'spi': tok(args[0]), 'hard': bool(args[1])}

    def project(self):
        out = {'table': {}, 'sas': {}, 'kern': {}, 'nspi': {}}
        for e in 'AB':
            out['table'][e] = [tok(s.my_spi) for s in self.ctl[e].ike_sas]
            out['kern'][e] = self.project_kern(e)
            out['nspi'][e] = self.draws[e] + 1
            for s in self.ctl[e].ike_sas:
                out['sas'][jkey(tok(s.my_spi))] = self.project_sa(s)
        return out


def spec_project(st):
    """The same shape from a state printed by MC.tla (sets arrive as lists in arbitrary order)."""
    out = {'table': {e: st['table'][e] for e in 'AB'}, 'sas': {}, 'kern': {}, 'nspi': dict(st['nspi'])}
    for e in 'AB':
        out['kern'][e] = sorted(st['kern'][e], key=jkey)
    listed = {jkey(x) for e in 'AB' for x in st['table'][e]}
    for s in st['sas']:
        key = jkey(s['id'])
        if key not in listed:
            continue
        stn = s['st']
        d = {'id': s['id'], 'st': stn, 'init': s['init'], 'peer': s['peer'], 'myMid': s['myMid'], 'peerMid': s['peerMid'],
             'kids': sorted(([k['in'], k['out']] for k in s['kids']), key=jkey), 'pending': s['pending'],
             'haskeys': s['keys'] != []}
        if stn in WAITING:
            d['req'] = s['req']
        if not s['init'] or stn not in ('INITIAL', 'INIT_REQ_SENT'):
            d['lastResp'] = s['lastResp']
        if stn in ('INIT_REQ_SENT', 'AUTH_REQ_SENT', 'NEW_CHILD_REQ_SENT', 'REK_CHILD_REQ_SENT'):
            d['creating'] = s['creating']
        if stn == 'REK_CHILD_REQ_SENT':
            d['rekeying'] = s['rekeying']['in']
        if stn == 'DEL_CHILD_REQ_SENT':
            d['deleting'] = s['deleting']['in']
        if stn in ('REK_IKE_SA_REQ_SENT', 'REKEYED', 'DEL_AFTER_REKEY_IKE_SA_REQ_SENT'):
            d['newSa'] = s['newSa']
        if not s['init']:
            d['cookie'] = s['cookie']
        out['sas'][key] = d
    return out


_OBS = False


def install_observers():
    """Wrappers (attribute replacement) that record which handler / which IKE_SA ran during a step."""
    global _OBS
    if _OBS:
        return
    _OBS = True
    for name in ('process_ike_sa_init_request', 'process_ike_auth_request', 'process_informational_request',
                 'process_create_child_sa_request', 'process_ike_sa_init_response', 'process_ike_auth_response',
                 'process_create_child_sa_response', 'process_informational_response'):
        orig = getattr(IkeSa, name)

        def make(orig=orig, name=name):
            def wrapper(self, message):
                w = wd._CUR
                if w is not None and hasattr(w, 'handler_runs'):
                    w.handler_runs.append(name)
                    if name.endswith('_request'):
                        k = (id(self), message.message_id)
                        w.exec_count[k] = w.exec_count.get(k, 0) + 1
                return orig(self, message)
            return wrapper
        setattr(IkeSa, name, make())
    orig_pm = IkeSa.process_message

    def process_message(self, data):
        w = wd._CUR
        if w is not None and hasattr(w, 'routed'):
            w.routed.append(self)
        return orig_pm(self, data)
    IkeSa.process_message = process_message


XNUM = {'INIT': 34, 'AUTH': 35, 'CCSA': 36, 'INFO': 37}


def forge_datagram(w, sa, m):
    """Concrete datagram for an adversary message of the specification (C03): correct SPIs / exchange / flags / Message ID,
    but cleartext, sealed with foreign keys, or sealed in the target's own direction (reflection)."""
    import hashlib
    import probes
    hdr = {'spi_i': wd.untok(m['si'], 8), 'spi_r': wd.untok(m['sr'], 8), 'xchg': XNUM[m['x']], 'response': m['resp'],
           'initiator': m['fi'], 'mid': m['mid']}
    variant = hashlib.sha1(jkey(m).encode()).digest()[0] % 3
    payloads = [[], [{'t': W.DELETE, 'proto': 1, 'spis': []}], [{'t': W.NONCE, 'data': b'\x07' * 20}]][variant]
    prot = m['prot']
    if prot == CLEAR:
        return W.enc_message(hdr, payloads)
    integ = probes.integ_id(sa.my_crypto)
    if prot[0] == ['garbage']:
        return W.enc_message(hdr, [], sk={'ke': b'\x5a' * len(sa.my_crypto.sk_e), 'ka': b'\xa5' * len(sa.my_crypto.sk_a), 'integ': integ,
                                          'iv': b'\x33' * 16, 'inner': payloads})
    # the target's own direction: what it would have sent itself
    return W.enc_message(hdr, [], sk={'ke': sa.my_crypto.sk_e, 'ka': sa.my_crypto.sk_a, 'integ': integ, 'iv': b'\x44' * 16, 'inner': payloads})


# ------------------------------------------------------------------------------------------------ one step
def find_sa(w, t):
    e = t[0]
    for s in w.ctl[e].ike_sas:
        if tok(s.my_spi) == t:
            return s
    return None


def perform(w, a):
    """Carry out specification action `a` on the real world. Returns (reply bytes or None, sender endpoint, ctx)."""
    name = a['a']
    w.handler_runs.clear()
    w.routed.clear()
    ctx = None
    if name == 'Deliver':
        m = a['m']
        e = m['dst']
        k = jkey(m)
        if k not in w.net:
            raise Mismatch('net', 'the specification delivers a datagram the code never emitted', expected=m)
        data = w.net[k]
        if not a['keep']:
            del w.net[k]
        ctx = m
        out = w.dispatch(e, data, w.peer_of(e))
    elif name == 'AdvForge':
        m = a['m']
        sa = find_sa(w, a['s'])
        if sa is None:
            raise Mismatch('table', f'IKE_SA {a["s"]} is not listed')
        w.net[jkey(m)] = forge_datagram(w, sa, m)
        return None, None, None
    elif name == 'NetDrop':
        k = jkey(a['m'])
        if k not in w.net:
            raise Mismatch('net', 'the specification loses a datagram the code never emitted', expected=a['m'])
        del w.net[k]
        return None, None, None
    elif name == 'CtlAcquire':
        e = a['e']
        out = w.acquire(e, sport=0, dport=0)
    elif name == 'CtlExpire':
        e = a['e']
        out = w.expire(e, wd.untok(a['spi'], 4), a['hard'])
    else:
        s_t = a['s']
        e = s_t[0]
        sa = find_sa(w, s_t)
        if sa is None:
            raise Mismatch('table', f'IKE_SA {s_t} is not listed at {e}')
        if name == 'TrigRekeyIke':
            sa.rekey_ike_sa_at = w.now - 1
            out = w.timer(e, sa, 'check_rekey_ike_sa_timer')
            sa.rekey_ike_sa_at = w.now + 1e9
        elif name == 'TrigDeleteIke':
            sa.delete_ike_sa_at = w.now - 1
            out = w.timer(e, sa, 'check_rekey_ike_sa_timer')
            sa.delete_ike_sa_at = w.now + 1e9
        elif name == 'TrigDpd':
            sa.start_dpd_at = w.now - 1
            out = w.timer(e, sa, 'check_dead_peer_detection_timer')
        elif name == 'TimerIdle':
            field, method = {'rekeyike': ('rekey_ike_sa_at', 'check_rekey_ike_sa_timer'), 'delike': ('delete_ike_sa_at', 'check_rekey_ike_sa_timer'),
                             'dpd': ('start_dpd_at', 'check_dead_peer_detection_timer')}[a['which']]
            keep = getattr(sa, field)
            setattr(sa, field, w.now - 1)
            try:
                out = w.timer(e, sa, method)
            finally:
                if getattr(sa, field, None) == w.now - 1:
                    setattr(sa, field, keep)
        elif name == 'Retransmit':
            sa.retransmit_at = w.now - 1
            sa.retransmissions = 1
            out = w.timer(e, sa, 'check_retransmission_timer')
        elif name == 'GiveUp':
            sa.retransmit_at = w.now - 1
            sa.retransmissions = IkeSa.MAX_RETRANSMISSIONS
            out = w.timer(e, sa, 'check_retransmission_timer')
        else:
            raise common.MachineryError('unknown action ' + name)
    return (bytes(out) if out else None), e, ctx


def compare_step(w, a, dd, tgt, out, sender, ctx, dh_before):
    """Compare the outcome of one step with the specification. Raises Mismatch(component, ...)."""
    name = a['a']
    exp_out = a.get('out', {'x': 'none'})
    summ = None
    if out is not None:
        summ = w.note_emitted(sender, out, ctx)
    if exp_out == {'x': 'none'}:
        if summ is not None:
            raise Mismatch('reply', f'{name}: the code answered where the specification is silent', expected=None, observed=summ)
    else:
        if summ is None:
            raise Mismatch('reply', f'{name}: no datagram where the specification sends one', expected=exp_out, observed=None)
        if summ != exp_out:
            comp = 'header' if {k: v for k, v in summ.items() if k != 'body'} != {k: v for k, v in exp_out.items() if k != 'body'} else 'reply'
            raise Mismatch(comp, f'{name}: datagram differs', expected=exp_out, observed=summ)
    if name == 'Deliver':
        how = a['how']
        ran = bool(w.handler_runs)
        if ran != (how in ('exec', 'resp')):
            raise Mismatch('window', f'delivery classified "{how}" by the specification but handlers run = {w.handler_runs}',
                           expected=how, observed=list(w.handler_runs))
        exp_to = a.get('to') or None
        got_to = tok(w.routed[0].my_spi) if w.routed else None
        if how != 'exec' or a['m']['x'] != 'INIT':
            if exp_to != got_to and not (how == 'flag' and a['m']['x'] == 'INIT'):
                raise Mismatch('routing', 'datagram handed to another IKE_SA', expected=exp_to, observed=got_to)
        if how == 'replay' and out is not None:
            pass   # byte identity with the stored response is enforced by note_emitted (same abstract key => same bytes)
    over = [k for k, v in w.exec_count.items() if v > 1]
    if over:
        raise Mismatch('window', 'a request was executed more than once', observed=str(over))
    # DH work of this step
    got = {e: sum(1 for x in w.dh_log[dh_before:] if x[1] == e) for e in 'AB'}
    if got != {e: dd[e] for e in 'AB'}:
        raise Mismatch('dh', f'{name}: Diffie-Hellman operations', expected=dd, observed=got)
    real, spec = w.project(), spec_project(tgt)
    if real['nspi'] != spec['nspi']:
        raise Mismatch('nspi', 'SPI draw counters', expected=spec['nspi'], observed=real['nspi'])
    if real['table'] != spec['table']:
        raise Mismatch('table', f'{name}: IKE_SA table', expected=spec['table'], observed=real['table'])
    for e in 'AB':
        kk = {(r['daddr'], bytes(r['spi'])) for r in w.kernel[e].sad.values()}
        tr = w.tracked_kernel_keys(e)
        if kk != tr:
            raise Mismatch('kernel_invariant', f'{name}: kernel SAD of {e} differs from the CHILD_SAs it tracks',
                           expected=sorted((a_, s.hex()) for a_, s in tr), observed=sorted((a_, s.hex()) for a_, s in kk))
    if real['kern'] != spec['kern']:
        ra = [{k: v for k, v in x.items() if k in ('dst', 'spi')} for e in 'AB' for x in real['kern'][e]]
        sa_ = [{k: v for k, v in x.items() if k in ('dst', 'spi')} for e in 'AB' for x in spec['kern'][e]]
        raise Mismatch('kern' if ra != sa_ else 'keyslot', f'{name}: kernel SAD', expected=spec['kern'], observed=real['kern'])
    if set(real['sas']) != set(spec['sas']):
        raise Mismatch('table', 'listed IKE_SAs', expected=sorted(spec['sas']), observed=sorted(real['sas']))
    for k in spec['sas']:
        r, s = real['sas'][k], spec['sas'][k]
        if r != s:
            diff = [f for f in s if r.get(f) != s[f]]
            raise Mismatch('sa.' + diff[0], f'{name}: IKE_SA {k} field(s) {diff}', expected={f: s[f] for f in diff},
                           observed={f: r.get(f) for f in diff})
    spec_net = {jkey(m) for m in tgt['net']}
    if set(w.net) != spec_net:
        raise Mismatch('net', f'{name}: datagrams in flight', expected=sorted(spec_net - set(w.net)), observed=sorted(set(w.net) - spec_net))
    check_keys(w, tgt)


def check_keys(w, tgt):
    """SameIkeKeys, concretely: two IKE_SAs carry the same key identifier in the specification iff their key rings are equal."""
    ids = {jkey(s['id']): jkey(s['keys']) for s in tgt['sas'] if s['keys'] != []}
    real = {}
    for e in 'AB':
        for sa in w.ctl[e].ike_sas:
            if sa.ike_sa_keyring is not None:
                real[jkey(tok(sa.my_spi))] = tuple(sa.ike_sa_keyring)
    ks = [k for k in ids if k in real]
    for i, a in enumerate(ks):
        for b in ks[i + 1:]:
            if (ids[a] == ids[b]) != (real[a] == real[b]):
                raise Mismatch('ikekeys', f'IKE_SAs {a} and {b}: key rings {"differ" if ids[a] == ids[b] else "coincide"} '
                               f'where the specification says they {"coincide" if ids[a] == ids[b] else "differ"}')


def note_gens(w, a, tgt):
    """Bookkeeping of DH generations for key identifiers (which IKE_SA_INIT version a responder answered / an initiator used)."""
    if a['a'] != 'Deliver' or a['m']['x'] != 'INIT':
        return
    m = a['m']
    if not m['resp'] and a['how'] == 'exec' and a['out'] != {'x': 'none'} and a['out']['body']['kind'] == 'init_ok':
        w.resp_gen[jkey(a['out']['sr'])] = m['body']['gen']
    if m['resp'] and a['how'] == 'resp' and m['body']['kind'] == 'init_ok':
        sa = find_sa(w, m['si'])
        if sa is not None:
            vers = w.init_versions.get(jkey(m['si']), [])
            sa._verif_gen_at_keys = max(0, len(vers) - 1)
            sa._verif_peer_gen = m['body']['gen']


def replay_behaviour(sc, steps, seed=0, stop_on=None):
    """steps: list of (action, dh delta, target state). Returns (steps done, Mismatch or None, world)."""
    w = IkeWorld(sc, seed=seed)
    done = 0
    try:
        for a, dd, tgt in steps:
            dh_before = len(w.dh_log)
            try:
                # generation bookkeeping must precede the summary of the reply (key identifiers)
                if a['a'] == 'Deliver' and a['m']['x'] == 'INIT' and not a['m']['resp'] and a.get('how') == 'exec':
                    pass
                out, sender, ctx = perform(w, a)
                note_gens(w, a, tgt)
                compare_step(w, a, dd, tgt, out, sender, ctx, dh_before)
            except wd.Escape as ex:
                raise Mismatch('escape', str(ex), observed={'entry': ex.entry, 'exception': type(ex.ex).__name__, 'site': ex.site})
            except W.WireError as ex:
                # a datagram of the implementation that the independent codec / primitives cannot open under the SA's own keys
                raise Mismatch('seal', f'a datagram emitted in this step is not a well-formed (protected) message under the keys of its IKE_SA: {ex}')
            done += 1
    except Mismatch as mm:
        return done, mm, w
    finally:
        w.close()
    return done, None, w


# ------------------------------------------------------------------------------------------------ fault enumeration (C10)
def kernel_invariant(w):
    """C10's own predicate on the real objects: kernel SAD == SAs of the CHILD_SAs of the listed IKE_SAs."""
    for e in 'AB':
        kk = {(r['daddr'], bytes(r['spi'])) for r in w.kernel[e].sad.values()}
        tr = w.tracked_kernel_keys(e)
        if kk != tr:
            return e, sorted((a, s.hex()) for a, s in tr), sorted((a, s.hex()) for a, s in kk)
    return None


def count_kernel_requests(w):
    return sum(1 for e in 'AB' for r in w.kernel[e].requests if r['kind'] in ('NEWSA', 'DELSA'))


def fault_replay(sc, steps, refuse_at, err=17, seed=0):
    """Replay the action sequence with the refuse_at-th NEWSA/DELSA request (counted over both endpoints, after start-up)
    answered with an error.  Only the invariant is judged after the fault (the property does not fix how an endpoint
    recovers); the behaviour is followed as far as its datagrams still exist.
    Returns (steps done, violation dict or None, refused request description or None)."""
    w = IkeWorld(sc, seed=seed)
    base = count_kernel_requests(w)
    state = {'n': 0, 'hit': None}

    def refuse(idx, req):
        if req['kind'] not in ('NEWSA', 'DELSA'):
            return 0
        state['n'] += 1
        if state['n'] == refuse_at:
            state['hit'] = f"{req['kind']} spi={bytes(req['spi']).hex()} dst={req['daddr']}"
            return err
        return 0
    for e in 'AB':
        w.kernel[e].refuse = refuse
    done = 0
    try:
        for a, dd, tgt in steps:
            try:
                out, sender, ctx = perform(w, a)
                note_gens(w, a, tgt)
                if out is not None:
                    w.note_emitted(sender, out, ctx)
            except (Mismatch, W.WireError) as ex:
                if state['hit'] is None:
                    raise ex if isinstance(ex, Mismatch) else Mismatch('seal', str(ex))
                break                       # diverged after the fault: the datagram the spec wants does not exist
            except wd.Escape as ex:
                return done, {'kind': 'escape', 'what': str(ex), 'refused': state['hit']}, state['hit']
            bad = kernel_invariant(w)
            if bad is not None:
                return done, {'kind': 'kernel_invariant', 'endpoint': bad[0], 'tracked': bad[1], 'installed': bad[2],
                              'refused': state['hit'], 'after': a['a']}, state['hit']
            done += 1
    finally:
        w.close()
    return done, None, state['hit']
