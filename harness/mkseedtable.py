"""Regenerate section 0.7 of DESIGN.md (seeded changes: which check catches which change) from /verif/seeded/*/meta.json."""
import glob
import json
import os

VERIF = os.path.dirname(os.path.dirname(os.path.abspath(__file__)))

# what was added to the machinery when a seeded change was missed (or anticipated)
STRENGTH = {
    'C02': '`Auth.tla` rewrite menu gained `empty` / `prefix` / `extend`; the DH man-in-the-middle paths with one rewrite always run (both PSK and RSA)',
    'C04': 'directed peer values forcing a leading zero octet for every group; whole sessions with responder keys redrawn until g^ir starts with 0x00',
    'C05': '`Wire.tla` universe: the same suite under two proposal numbers, a transform listed twice',
    'C06': '`Wire.tla` family `AttrMutations` (raw transform attributes: TV / TLV, every length, with / without value octets)',
    'C07': '(was detected, then the harness crashed) a datagram the independent codec cannot open becomes a `seal` mismatch owned by C07',
    'C15': 'protect entries whose networks are of the other address family than the tunnel',
    'C17': 'third, silent configured peer; wrong-SPI datagrams sealed / clear / to a half-open initiator IKE_SA',
    'C19': '`Config.tla` `MultiCases`: ordered pairs of protect entries and two connections (order independence)',
    'C01b': 'scenario `estab_pfs_same` (crossing CREATE_CHILD_SA exchanges that both carry KE)',
    'C02b': 'rewrites `pskempty` / `pskid` (shared-key AUTH under a secret anybody knows, over the right octets)',
    'C05b': 'clear payloads in front of the encrypted payload (`mixed` comparison)',
    'C08b': 'binding B (`IkeTrace.tla`) in the quick tier - the trace validation reported it (clause `mid` / `out`)',
    'C09b': 'binding B in the quick tier - the recorded schedules reached it, the replayed part of the graph did not (clause `enabled`)',
    'C11b': '`Negotiate.tla` `RetryGroupOk` vectors: every group number 0..31 against offers whose other transform types use the same numbers',
    'C13b': '`IkeTimers.tla` action `AnswerBusy` (TEMPORARY_FAILURE to the IKE_SA rekey) and property `HardLimitFixed`',
    'C15b': 'ACQUIRE while each kind of request is outstanding; divergences right after `CtlAcquire` in the `Ike.tla` replay belong to C15',
    'C16b': 'adversary scenarios (`adv_init`, `adv`) in C16; table / routing mismatches belong to C16 whatever datagram caused them',
    'C17b': 'kernel refusals (`netlink_fail_delsa` / `_newsa`) as events; the legitimate session ends with DELETE(IKE) so that the controller-level teardown runs',
    'C19b': 'reload of the same objects after an edit compared with a fresh load',
    'C20b': 'failure scenarios with traffic selectors that no protect entry covers (subnet / port / protocol)',
    'C02c': '`Auth.tla` actions `ImpMsg2` / `ImpMsg4` (the attacker answers message 1 itself and forges the responder\'s AUTH: 8 forgeries, positive control with the real '
            'secret); both kinds of wrong credential (identity / secret) always run',
    'C03c': 'forgery menu: cleartext chains with an unknown critical payload, with only unknown (skipped) payloads, and DELETE followed by a critical unknown',
    'C04c': 'C04 owns key mismatches (`keyslot`, `ikekeys`) of the replayed `estab_pfs_same` behaviours (crossing PFS exchanges)',
    'C05c': 'every `Wire.tla` length mutant that `ParseChain` rejects must be rejected (clear), overstated last inner payload (inside SK)',
    'C08c': 'scenario `estab_rekey_ke` (IKE_SA rekey with INVALID_KE_PAYLOAD retry) in the quick tier of C08',
    'C11c': 'CHILD_SA policies end to end: IKE_AUTH, then CREATE_CHILD_SA twice against the full configured policy (suite and KE payload vs `SelectBest`)',
    'C13c': '(anticipated) `IkeTimers.tla` action `PeerProbe`: authentic requests of the peer while our request is outstanding',
    'C14c': '`XfrmWire.tla` `CrossPairs`: NEWSA / NEWPOLICY whose selector family differs from the endpoint family',
    'C17c': 'every datagram kind also delivered twice (`_x2`); unknown exchange types sealed by the peer and in the clear to a half-open initiator IKE_SA',
    'C18c': '(anticipated) `Cookie.tla` `Cut`: the right cookie cut to 0 / 1 / 16 octets or extended by one',
    'C19c': '`Config.tla` `Addrs` gained an address of the other family',
    'C02d': '`Auth.tla` `ImpIMsg1` / `ImpIMsg3`: the attacker starts the exchange itself and forges the initiator\'s AUTH - or sends CREATE_CHILD_SA / INFORMATIONAL instead of IKE_AUTH',
    'C03d': 'every 5th forgery of the menu also from an address that is not the peer\'s; the snapshot includes the addresses of the IKE_SA',
    'C05d': '`Wire.tla`: Nonce payloads of 255 and 256 octets (both ends of the range of 3.9)',
    'C09d': '(anticipated) `Ike.tla` action `TimerIdle`: DPD / rekey / lifetime deadlines coming due while the IKE_SA is not established; scenario `estab_idle`; also in recorded traces',
    'C11d': '`Negotiate.tla` `InitiatorAccepts` vectors: the requester installs an answer iff it covers every type its policy requires',
    'C13d': '`IkeTimers.tla` action `Noise`: unauthenticated datagrams with the IKE_SA\'s SPIs move no deadline',
    'C15d': 'ACQUIRE mapping with an IKE_SA lifetime far below the entries\' lifetimes',
    'C16d': '(anticipated) divergences right after `CtlExpire` in the `Ike.tla` replay belong to C16',
    'C17d': 'hostile kind `acquire_legit_peer` (a kernel ACQUIRE towards the legitimate peer at any moment); time passes in the closing phase of a schedule',
    'C18d': '(anticipated) `Cookie.tla` `Fills`: the half-open IKE_SAs come from distinct initiators, one replayed request, or one SPI with fresh nonces',
    'C19d': '`Config.tla`: identities that a resolver can turn into an address (a resolvable name, `10.1`, `1234`) are FQDN identities',
    'C01e': 'negotiation matrix with asymmetric lists: the requester offers only what the responder likes least',
    'C02e': '`Auth.tla` `Msg1` with `replay`: the genuine request is delivered after the rewritten one was answered',
    'C05e': '`Wire.tla`: critical payloads of types the RFC defines but the implementation cannot parse (CERT, CERTREQ, CP, EAP)',
    'C06e': 'time-scaling family: correctly sealed messages with n and 8n distinct elements (SPIs, payloads) - parse time may grow 8-fold, not 64-fold',
    'C07e': 'modified copies of answered and of fresh protected requests handed to the real receiver: no reply, no change',
    'C08e': 'scenario `estab_pfs` (CHILD_SA INVALID_KE_PAYLOAD retry with retransmission) in the quick tier of C08',
    'C11e': '`Negotiate.tla` peer offers with two DH groups; the KE rule (`KeRule`) checked on CREATE_CHILD_SA: INVALID_KE_PAYLOAD naming the chosen group, then the retry',
    'C16e': 'kernel-SAD divergences (`kern`) of the replayed behaviours also belong to C16 (an IKE_SA that ends is removed together with its kernel SAs)',
    'C17e': 'hostile kind `wire_mutant`: bursts of members of the `Wire.tla` mutation families (the C06 generators) through the real `main_loop`',
    'C18e': 'initiator side with a second, different COOKIE (the responder\'s secret changes before the retry arrives)',
    'C20e': 'identities that are format templates / conversions (`{0.my_auth.psk}`, `%(psk)s`) on both sides',
    'C02f': 'the "other secret" of `Auth.tla` is instantiated at every distance from the right one: a long secret that agrees with it on a prefix / a suffix, is one octet longer / shorter, or has a trailing blank',
    'C03f': 'forgery family `processed-copy`: authentic messages the endpoint has ALREADY processed with the header (Message ID, exchange type, flags) rewritten and ciphertext + checksum untouched',
    'C04f': '(was detected, then the harness crashed: a history found no CHILD_SA to rekey) a missing CHILD_SA / IKE_SA in a negotiation history is an oracle verdict (`child_missing`, `ike_missing`)',
    'C05f': '`Wire.tla` `FieldProducts`: the fields of NOTIFY / DELETE / KE / ID / AUTH / TS payloads vary independently (also the combinations nobody sends itself)',
    'C06f': 'every cleartext input is parsed twice: without keys and as received by an IKE_SA that has keys; every header of the universe with an empty / skipped-only chain',
    'C08f': 'the role of an IKE_SA (`sa.init`: who started the exchange that created it) belongs to C08 - it decides the Initiator flag and the SPI positions',
    'C09f': 'scenarios `estab3_soft` / `estab3_rekey`: three triggers of few kinds, so that what a refused exchange leaves behind shows in a later one',
    'C11f': '`Negotiate.tla`: AES-CBC offered without Key Length (`E0`), an integrity transform offered with one (`I256k`) - the attribute is part of the identity in both directions',
    'C13f': '`IkeTimers.tla` action `AnswerFollowUp`: the answer to a rekey makes the requester send the DELETE of what was replaced (`delold`, `deloldchild`) - a request with a schedule and a budget of its own',
    'C14f': '`XfrmWire.tla` `EntryLists`: `create_policies` over ordered lists of 1-3 protect entries (ESP after AH, transport after tunnel), every request byte-compared with the intent of ITS entry',
    'C15f': 'two ACQUIREs (different traffic) while each kind of request is outstanding: both wait, both are negotiated in order',
    'C17f': 'the legitimate session of `MainLoop.tla` also rekeys the IKE_SA (the daemon\'s old IKE_SA waits in REKEYED while the timer section runs); `LegitSteps = 7`',
    'C06g': 'text content of pattern-hostile shapes (a run of one character class and a tail of another, in VENDOR / ID / NOTIFY) parsed under a wall-clock limit - work inside a regular expression is invisible to the line budget',
    'C12g': 'a rekey request that asks for the other mode than the policy\'s (both policies), next to the rekey with other selectors',
    'C15g': 'an ACQUIRE for an unknown policy index in three situations (no IKE_SA, an idle established one, one with a request outstanding): ignored, and afterwards the IKE_SA still answers and is still re-used',
    'C16g': 'status queries through the real `main_loop` while the peer rekeys the IKE_SA (old IKE_SA in REKEYED) and after its DELETE',
    'C17g': 'hostile kinds `own_delete_then_expire` / `own_rekey_then_expire` / `expire_own_child`: the daemon\'s OWN lifetime deadlines come due and, while that request is outstanding, the kernel reports an EXPIRE for a CHILD_SA it holds',
    'C20g': 'failure scenarios with near-miss secrets on either side (the right secret with a blank / line end, one octet more / less, another letter case)',
    'C02h': 'message 1 of the attack paths is also the request repeated with a COOKIE (the responder under load): the rewrites that keep SPI and nonce, in both ways of writing the reduced offer',
    'C05h': 'the same Message object serialised, its header changed (Message ID, flags, exchange type, SPIr) and serialised again: the second result has the layout of the current content',
    'C07h': 'modifications of TWO octets at the endpoint (the header names another first payload and its generic header gets the critical bit) and a bare forgery with an unknown critical payload instead of SK',
    'C11h': '`Negotiate.tla` offers spanning three DH groups (the KE payload in one nobody else has, the local favourite not offered, the third one chosen): INVALID_KE_PAYLOAD names the CHOSEN group',
    'C12h': 'answers whose TSi / TSr hold two selectors with the wide one first (what is installed is the first one)',
    'C14h': '`XfrmWire.tla` `ChildPairs`: `create_child_sa` for both roles in the exchange x both roles in the IKE_SA - which half of KEYMAT goes into which NEWSA',
    'C15h': 'ACQUIRE mapping over an IKE_SA that the PEER started (the daemon is its responder and the initiator of the exchange): TSi is its own side all the same',
    'C16h': 'family `timeout_removal`: for every kind of request that can stay unanswered (the DELETE after an IKE_SA rekey included) 60 s of the real timers - the IKE_SA that sent it leaves the table with its kernel SAs',
    'C17h': 'hostile kinds `replay_last` (an authentic datagram of the peer once more) and `own_request_then_stale_answer` (the daemon\'s own rekey, its follow-up DELETE outstanding, the first answer delivered again, then the timers)',
    'C18h': '`Cookie.tla` requests carry what the negotiation would say about them (`ok` / `wrongke` / `noproposal`): without the right cookie the answer is COOKIE whatever the request is like',
    'C19h': '`Config.tla`: lists that name the same algorithm twice (the same name; a number and a name of one group)',
    'C01i': 'the same endpoint requests several PFS exchanges in a row on one IKE_SA, for a MODP and an ECP group, with the PFS group equal to / different from the IKE_SA\'s',
    'C02i': '(was detected by the positive control of the impersonation harness, which stopped with a machinery error) an AUTH computed by the independent implementation with the configured secret that is REFUSED is a violation',
    'C08i': '(was detected, then the harness crashed: a StopIteration in the exchange tracker left a pool worker) an answer that belongs to another exchange than the request is a `window` / `reply` mismatch',
    'C13i': 'scenario `liveness_is_per_ike_sa`: two IKE_SAs with one peer, the peer loses one of them, the other stays busy - the orphaned one is probed and removed within its own bound',
    'C14i': 'kernel events with IPv6 addresses whose upper 96 bits are zero (`::1`, `::192.168.0.1`) and the extreme ones',
    'C15i': 'the fake kernel honours `xfrm_usersa_flush.proto` (0 = every protocol); the state left behind by an earlier incarnation contains ESP and AH SAs',
    'C16i': 'an exception / a reply on the delivery of a datagram for an SPI that is not (or no longer) in the table belongs to C16',
    'C18i': '`Cookie.tla` fill `churn`: the half-open IKE_SAs are what remains after one more was created (the later ones with a cookie) and the first one went on to completion',
    'C20i': 'failure / follow-up scenarios with opposite preference orders on the two peers and the follow-up exchanges started by the original responder (an IKE_SA rekey then changes PRF, integrity and key length)',
    'C02j': 'scenario `forged_invalid_ke_downgrade`: the attacker answers message 1 with INVALID_KE_PAYLOAD naming the weaker common group and relays the rest; if both ends come up they must have agreed on the group of the attacker-free control run (three group lists, PSK and RSA)',
    'C13j': 'scenario `crash_after_ike_rekey` (`IkeTimers.tla` CrashBound from an IKE_SA that never received anything): IKE_SA rekey by either endpoint, the peer dies before anything travels on the successor, which must be probed and gone with its kernel SAs within DPD interval + budget; a timer that is never due is a reported mismatch of the timer replay, not a crash of it',
    'C14j': '`create_child_sa` is also driven with selectors negotiated as RANGES that are no networks (the two addresses around the middle of each network of `XfrmWire.tla` ChildPairs): the smallest covering network (`Selectors.tla` ToNetwork) is that network, so the request octets must be the same',
    'C15j': 'scenario `random_indices`: three protect entries without explicit index (two of them differing in protocol / IPsec protocol / mode only): pairwise different indices in the installed outbound policies, and the ACQUIRE with the second one\'s index is negotiated with the second entry; the harness no longer collapses the loader\'s index draws to one value',
    'C17j': 'hostile kind `auth_odd_child_spi` at every moment of the legitimate session: an in-window CREATE_CHILD_SA request sealed with the legitimate peer\'s keys, acceptable in every respect except a CHILD_SA SPI of 0 / 3 / 5 / 8 octets',
    'C18j': 'scenario `nonce_lengths`: nonces of 16, 17, 128, 255 and 256 octets over the threshold (COOKIE alone, not accepted with a nonce of another length, admitted with the right one)',
    'C20j': 'failure scenarios with three or four damaged copies (flipped ICV octets, truncation) in front of every protected datagram, follow-ups started by either peer',
    'C03k': 'situation `rekeyed_successor_gone`: the DELETE after an IKE_SA rekey is lost, the old IKE_SAs linger on both sides and the successor has meanwhile ended by an authentic DELETE exchange; the whole forgery menu against both lingering IKE_SAs',
    'C05k': '`Wire.tla` FieldProducts: TS payloads that mix IPv4 and IPv6 selectors in five orders (each selector has its own Selector Length, 3.13)',
    'C11k': 'raw offers with several proposals are also sent with the KE payload in the first group of each LATER proposal: the suite comes from the first acceptable proposal (`Negotiate.tla` SelectBest), INVALID_KE_PAYLOAD names its group',
    'C12k': 'network -> selector -> network for every prefix length at the lowest, the highest and ordinary addresses of both families (`::/0` ... `::/128`, `0.0.0.0/0` ...): the identity, and of the same family',
    'C02l': 'scenario `rejecting_responder_without_credential`: a responder with the wrong secret / key / identity whose IKE_AUTH answer turns the CHILD_SA down (NO_PROPOSAL_CHOSEN, TS_UNACCEPTABLE): failure at the initiator, with the genuine responder as control (PSK and RSA)',
    'C11l': 'scenario `policy_of_the_matched_entry`: a responder with two protect entries of different suites and a request whose selectors match one entry while its algorithms fit only the other (IKE_AUTH and CREATE_CHILD_SA): NO_PROPOSAL_CHOSEN, nothing installed',
    'C15l': 'scenario `index_edges`: protect entries with index 0 and 2**20 next to an ordinary one - the outbound policy carries index << 3 | OUT, the ACQUIRE maps back (written after reading the report, before the evaluation)',
    'C20l': 'scenario `cli_odd_secrets`: pyikev2.py at the default level on files whose PSK looks like another notation (0x / 0b / 0o literals with a slip, floats, base64, YAML tags, format templates), in either auth section (written after reading the report, before the evaluation)',
    'C19f': '`Config.tla`: secrets with blanks / tabs / line ends at either end and of the other letter case; float values (`.inf`, `.nan`, `1.5`); the cross-key rule "not all algorithm lists empty"',
}
ANTICIPATED = {'C13c', 'C18c', 'C09d', 'C16d', 'C18d'}
AFTER_REPORT = {'C01e', 'C15l', 'C20l'}       # strengthened after reading the agent's report, before the first evaluation: not counted as caught outright


def main():
    rows, counts = [], {1: [0, 0], 2: [0, 0], 3: [0, 0], 4: [0, 0], 5: [0, 0], 6: [0, 0], 7: [0, 0], 8: [0, 0], 9: [0, 0], 10: [0, 0], 11: [0, 0], 12: [0, 0]}
    for p in sorted(glob.glob(os.path.join(VERIF, 'seeded', '*', 'meta.json'))):
        m = json.load(open(p))
        k = m['name']
        if not m.get('caught_by'):
            raise SystemExit(f'{k} is not caught')
        outright = not m.get('history') and k not in ('C07', 'C04f', 'C08i', 'C02i') and k not in ANTICIPATED and k not in AFTER_REPORT
        r = m.get('round', 1)
        counts[r][1] += 1
        counts[r][0] += 1 if outright else 0
        rows.append((k, m['change'], m['needs_to_manifest'], 'yes' if outright else ('anticipated' if k in ANTICIPATED else 'no'), STRENGTH.get(k, '-') if not outright else '-'))
    total = sum(c[1] for c in counts.values())
    out = ['### 0.7 Seeded changes: which check catches which change\n',
           f'{total} changes were written by fresh sub-agents (one per property and round; rounds 10 and 11 covered ten properties each - those with a miss in round 9 plus C17, then the other ten - and round 12 the eleven with a miss in rounds 10 / 11) that saw **only the text of the property** and a scratch worktree of `/repo` -',
           'nothing from `/verif`; rounds 2 to 12 were additionally told which ideas the earlier rounds had used and to stay away from them.  Each change compiles, leaves the',
           'repository\'s test suite at 176 passed / 11 failed, comes with a demonstration (`demo_seed.py`: PASS on the original, FAIL on the change) and was confirmed by',
           '`harness/seedeval.py` in a fresh worktree before the check of its property was run on it (`VERIF_REPO=<worktree>`, quick tier).  Patch, demonstration and',
           '`meta.json` (what it needs to manifest, what was run, the outcome before and after strengthening) are in `/verif/seeded/<id>/`; none of them was ever applied to `/repo`.\n',
           'Caught outright (before any change to the machinery): ' + ', '.join(f'**round {r}: {c[0]} of {c[1]}**' for r, c in sorted(counts.items())) + '.',
           'Every miss was turned into an extension of a specification universe, a new action / property, a new scenario or a new family of the harness (last column) -',
           'never into a special case for the seeded input - and all of them are now reported by the quick tier of the check of their property (exit 1, `VIOLATION` line).',
           'Two detections of round 2 came from binding B alone.  Recurring themes of the misses: the less travelled role (initiator-side verification, responder-started',
           'exchanges), crossing exchanges, state leaking from one exchange or session into the next (shared configuration objects, cached values), mixed address',
           'families, and damaged *lengths* of otherwise right values (truncated AUTH data, cookies, payloads).\n',
           '| seed | change | needs | caught outright | what was added when it was missed |', '|---|---|---|---|---|']
    for r in rows:
        out.append('| ' + ' | '.join(x.replace('|', '/') for x in r) + ' |')
    out.append('\nSeveral times a seeded tree made the *harness* raise (exit 2) after or instead of reporting: an independent-codec error inside a replay (C07), a negotiation history that found no CHILD_SA to rekey (C04f), the exchange tracker meeting the answer of another exchange (C08i), the event')
    out.append('description of a rejected trace (C08b, C09b), a comparison of addresses of two families (C15).  Each was an unguarded assumption of the harness about the')
    out.append('implementation\'s output; they were turned into reported mismatches.  Exit 2 remains reserved for failures of the machinery itself.\n')
    txt = '\n'.join(out) + '\n'
    p = os.path.join(VERIF, 'DESIGN.md')
    s = open(p).read()
    marker = '---------------------------------------------------------------------------------------------------\n\n## 1. What is being verified'
    i, j = s.index('### 0.7 Seeded changes'), s.index(marker)
    open(p, 'w').write(s[:i] + txt + '\n' + s[j:])
    print(counts)


if __name__ == '__main__':
    main()
