"""Regenerates /verif/MANIFEST.json from the table below (run: /venv/bin/python harness/mkmanifest.py)."""
import json
import os
import subprocess

VERIF = os.path.dirname(os.path.dirname(os.path.abspath(__file__)))
IKE = ('TLC checks spec/Ike.tla (all invariants and action properties) exhaustively on the scenario bounds; every transition of the dumped '
       'state graph is replayed into two real IkeSaController objects and the projected state compared after every step')
CHECKS = {
    'C19': dict(level='exploration', ref='7 C19', technique='TLA+ operator Load over tagged YAML values (Config.tla: three-valued verdict, normal form; totality checked by TLC; cases via JsonSerialize) as oracle for Configuration(...)',
                text='TLC evaluates Load on a base dictionary, on ordered pairs of protect entries / two connections (order independence) and with every single perturbation of every documented key at connection, auth and protect-entry level (valid alternatives, missing, ill-typed, unknown, out of range) and top-level shapes; each case is loaded by the real Configuration: verdict ok => loads to exactly the normal form (algorithms in order, defaults, no ENCR for AH, NO_ESN, selectors, ports, protocol, mode, lifetimes, DPD, typed identities, credentials), err => ConfigurationError, either => one of both; pairs of perturbations are judged on the outcome class; any other exception is a violation.',
                note='getaddrinfo served by the harness; integers / booleans where an address or identity is expected are "either" (observation O-6).'),
    'C20': dict(level='exploration', ref='7 C20', technique='runtime monitor (NoLeak) over the histories generated from the TLA+ specifications: every transition of Ike.tla scenarios, failure scenarios, hostile schedules of MainLoop.tla',
                text='Every log record with level >= INFO and every traceback printed to stderr during the replayed histories (handshakes with retries, adversary injections, wrong credentials / identities / methods, refusals, kernel errors, hostile input through main_loop) is searched for every secret the harness knows (PSKs, private key, IKE key rings, SKEYSEED, CHILD_SA keys as seen by the kernel model, DH secrets) in raw, hex, base64 and repr form; a positive control proves the detector sees the material in a verbose run.',
                note='the specification contributes the coverage of histories; secrets are tracked by observers installed from outside.'),
    'C01': dict(level='model_checking', ref='7 C01', technique='TLA+ model (Ike.tla: SameIkeKeys, Mirror, KEYMAT halves) + TLC + replay of every transition; configuration matrix judged by an independent wire oracle',
                text=IKE + '; in addition a matrix of real negotiations (every IKE suite; ESP/AH, PFS, modes, IPv4/IPv6, PSK/RSA, preference orders; rekey histories) judged by an oracle that derives all keys from the wire values and DH private scalars and compares both kernels field by field.',
                note='AES/SHA/OpenSSL DH primitives trusted; kernel ABI taken from <linux/xfrm.h> of this image; bounds per scenario in the evidence.'),
    'C04': dict(level='exploration', ref='7 C04', technique='TLA+ derivation plans (KeySchedule.tla: structural theorems as ASSUME, plans via JsonSerialize) evaluated with stdlib HMAC; wire oracle over every suite',
                text='TLC checks the structural theorems of KeySchedule.tla (contiguous disjoint slices, prf+ counters 1..n <= 255, old SK_d keys the rekey SKEYSEED, initiator direction first) over all suites and writes the plans; the harness evaluates the plans on the wire values and DH private scalars of real sessions for every supported suite (plus IKE_SA rekey, ESP/AH, PFS) and compares every octet of both key rings and of the keys in the NEWSA requests; prf+ for all output lengths; DH primes from the RFC 3526 formula, RFC 5903 curves self-validated, fixed-width public values, shared secrets incl. leading zeros.',
                note='numeric evaluation outside TLC (32-bit integers); SHA/AES primitives trusted.'),
    'C05': dict(level='exploration', ref='7 C05', technique='TLA+ executable encoder / chain parser (Wire.tla, self-consistency theorems checked by TLC) as oracle; vectors via JsonSerialize compared with Message.to_bytes / parse',
                text='TLC checks ParseChain o EncChain = id and the header length theorem on Wire.tla over the enumerated universe and writes (abstract message, bytes) vectors; each is compared five ways with the library: to_bytes = RFC bytes, parse = content (unknown non-critical skipped, critical rejected), idempotence, the same list inside an encrypted payload (opened with independent AES/HMAC, and the independently sealed message parsed back), and the structured dump (payload names in order; every field value discriminated).',
                note='universe of representative payload instances, singles exhaustively, pairs exhaustively (quick: sampled); encoder written from RFC 7296 section 3.'),
    'C06': dict(level='exploration', ref='7 C06', technique='TLA+ mutation families and total chain parser (Wire.tla) as verdict oracle; line-counted Message.parse over families and corpora',
                text='TLC enumerates the LenMut / NextMut families over base chains with ParseChain delivering a verdict for each (totality by construction); the harness parses every mutant, every 16-bit field position / truncation / octet mutation of authentic datagrams of each exchange, inner chains mutated and re-sealed with the right keys, and random strings, under right / wrong / no keys and header-only, judging outcome class and an executed-line budget linear in the input length.',
                note='totality of code is sampled, not proved; budget 4000 + 600*len executed lines.'),
    'C07': dict(level='exploration', ref='7 C07', technique='TLA+ SK framing arithmetic (Wire.tla SkFraming, checked by TLC) + independent AES-CBC / HMAC; exhaustive tamper menu; ClearOnlyInInit monitored on Ike.tla replays',
                text='Every inner length modulo the block size x AES key length x integrity algorithm is sealed by the library and compared with the specification framing (pad, lengths, MAC coverage, truncation) and opened with independent primitives, and the independently sealed message is parsed back; every octet x bit of one protected message per exchange type (incl. empty payload lists), every truncation, extensions and other integrity keys must be rejected with a protocol error; all replays check that nothing but the SK payload travels in the clear after IKE_SA_INIT.',
                note='AES / HMAC primitives trusted; quick tier flips bits {0,7}, thorough all 8.'),
    'C08': dict(level='model_checking', ref='7 C08', technique='TLA+ model (Message-ID window of Ike.tla) + TLC + replay of every transition; replay storm on random schedules',
                text=IKE + '; beyond the bound, seeded random schedules in which every datagram already delivered is re-delivered after every step and authentic requests with future IDs are injected (oracle from the property statement).',
                note='authentic traffic only; two endpoints; budgets (triggers, duplicates, losses) per scenario.'),
    'C10': dict(level='model_checking', ref='7 C10', technique='TLA+ model (KernelMatches invariant) + TLC + replay with a kernel model fed by the real netlink bytes; fault enumeration of every NEWSA/DELSA',
                text=IKE + ' - the kernel side is a model SAD interpreting the real netlink requests; additionally every behaviour is re-run once per NEWSA/DELSA request with that request refused and the invariant re-evaluated after every step.',
                note='refused NEWSA installs nothing, refused DELSA leaves the SA absent; single fault per run.'),
    'C09': dict(level='model_checking', ref='7 C09', technique='TLA+ model (collision table, ConsistentAtRest, liveness under fairness) + TLC + replay of every transition; random walks with a lossless drain',
                text=IKE + '; ConsistentAtRest is checked by TLC with the KnownToBoth trigger guard, EventuallyQuiescent under weak/strong fairness on a small instance; seeded random walks (lossless and lossy) end with a drain and a liveness probe and compare the two endpoints at rest.',
                note='expire triggers restricted to CHILD_SAs known to both peers (carve-out of the property); internal IkeSaStateError teardowns (a request overtaking the IKE_AUTH response) are recorded as observations, not violations.'),
    'C02': dict(level='model_checking', ref='7 C02', technique='TLA+ model Auth.tla with a Dolev-Yao man in the middle (Agreement, ResponderAgreement, NoInstallWithoutAuth, NoKeyCompromise) + TLC + every attack path replayed by a concrete attacker; AUTH recomputed from wire octets',
                text='TLC checks on Auth.tla all combinations of field substitutions in messages 1 and 2 (nonces, KE values, SPIs, reduced offer, foreign / weaker chosen transform), re-sealing of IKE_AUTH with rewritten AUTH / ID when the attacker owns both key sets, for correct and wrong credentials on either side; a weakened AUTH must exhibit the downgrade attack (vacuity control). Every attack path of the model is executed against two real endpoints by a concrete attacker (own DH scalars, independent key schedule, re-sealing with the independent encoder) and final states / kernel installs are compared with the model; in unmodified handshakes every AUTH payload is recomputed from the wire octets for each PRF and both methods.',
                note='meaning-preserving rewrites (observation O-1) are outside the menu; KE substitution with ecp256.'),
    'C03': dict(level='model_checking', ref='7 C03', technique='TLA+ model (adversary action AdvForge, action property ForgeryHarmless) + TLC + replay with concrete forged datagrams; exhaustive forgery menu per keyed state',
                text=IKE + ' - the adversary injects cleartext, foreign-key and reflected datagrams that pass every header check; in addition, at every (role, state) pair with keys the full menu of the property (every exchange type, flag, Message ID, payload list; bit flips, truncations, extensions of the authentic datagram in flight) is delivered and a snapshot incl. the liveness timer compared.',
                note='a protocol error escaping dispatch_message counts as no reply here (whether the loop survives is C17); IKE_SA_INIT requests always create a new responder and are not messages for an existing IKE_SA.'),
    'C11': dict(level='model_checking', ref='7 C11', technique='TLA+ operators Negotiate.tla (Intersection, SelectBest, IsSubset, KeRule) with the property ChoiceOk / ResponseOk checked by TLC on every case; vectors compared with the implementation; end-to-end and scripted-peer sessions',
                text='TLC checks on Negotiate.tla, for all 12252 (local policy, peer SA payload) cases of the universe, that the choice has exactly one transform per required type, each (type, id, key length) in both, from the first acceptable peer proposal in local preference order, and None iff nothing is acceptable; every case is then compared with Proposal.intersection / is_subset / _select_best_sa_proposal. End to end: pairs of connection configurations (refusal with NO_PROPOSAL_CHOSEN and nothing installed, INVALID_KE_PAYLOAD naming the chosen group, retry, chosen suite = specification); a scripted peer holding the keys answers with extra / foreign transforms and never-offered DH groups.',
                note='order of transforms inside the answer not compared; universe of 2 ENCR key lengths + foreign ciphers, 3 INTEG, 1-2 PRF, 3 DH groups, ESN.'),
    'C12': dict(level='model_checking', ref='7 C12', technique='TLA+ Selectors.tla: packet-set semantics, SubsetTheorem / ConversionTheorem / NarrowOk checked by TLC over the finite universe; vectors compared with the implementation; random ranges; end-to-end',
                text='TLC proves on the finite universe that containment as implemented coincides with inclusion of the denoted packet sets (69696 pairs), that network/port conversions are exact, and that the narrowing decision stays inside proposal and policy and refuses only when nothing fits (62720 cases); the vectors are compared with TrafficSelector.is_subset / from_network / get_network / get_port and IkeSa._get_ipsec_configuration; random IPv4/IPv6 ranges beyond the universe; end to end: TS_UNACCEPTABLE for no policy / wrong mode, kernel selectors inside the entry, rekey selectors must equal, widened / mode-flipped responses never installed.',
                note='address universe 0..7, ports {any, 2 values, 1 range}; well-formed selectors (start <= end).'),
    'C13': dict(level='model_checking', ref='7 C13', technique='TLA+ timer model IkeTimers.tla (relative deadlines, sweep of main_loop, loss / crash at any step) + TLC + replay under a virtual clock',
                text='TLC checks Budget, SpacingFine / SpacingUniform (per schedule class), CrashBound, NoRetxAfterAnswer, TimersFire on IkeTimers.tla for every start kind (idle, each request kind, retries after INVALID_KE_PAYLOAD / COOKIE); every transition (fine and uniform schedules) resp. simulated behaviours (mixed schedules) are executed on the real code under a virtual clock through the timer part of main_loop: state, counters, all relative deadlines, transmission gaps and byte identity of every retransmission are compared. Plus: two IKE_SAs of one connection retransmitting concurrently; built-in constants with a dead peer; lifetime jitter bounds.',
                note='spacing asserted per schedule class (observation O-9); DPD / lifetime scaled down via the configuration; peer abstracted to answer / lose / crash.'),
    'C17': dict(level='model_checking', ref='7 C17', technique='TLA+ process model MainLoop.tla (NeverCrashed, BackToSelect, StillServes under fairness) + TLC; every schedule of the bounded model and simulated longer ones run through the real main_loop under scripted select / sockets',
                text='TLC checks the loop model (hostile event kinds at any moment of a legitimate session); every schedule with one (thorough: two) hostile event(s) and simulation-mode schedules with up to four are executed through the real IkeSaController.main_loop: scripted select, UDP / control / XFRM sockets, a legitimate peer driven in parallel, send failures injected; judged: the loop never raises, every event stays within an executed-line budget, the legitimate session completes, the status query is answered.',
                note='hostile kinds are instantiated by concrete datagrams / netlink messages built for the current state of the session; tampering with the legitimate peer\'s cleartext IKE_SA_INIT is an active attack (C02), not noise.'),
    'C18': dict(level='model_checking', ref='7 C18', technique='TLA+ operator specification Cookie.tla (properties as ASSUME over the universe, vectors via JsonSerialize) + Ike.tla cookie scenario (action property CookieFirst) + TLC + replay',
                text='TLC checks CookieFirst / Bound / RetryAccepted on Cookie.tla over all half-open counts around the threshold x (SPI, nonce, address) x cookie lists and writes the cases as vectors; each vector is built concretely (third endpoint for the address binding) and reply kind, DH operations and table growth are compared. ' + IKE + ' (scenario init_cookie: DH counters per step, duplicate COOKIE responses).',
                note='cookies are obtained black-box from an armed responder; a right cookie behind a wrong one is not constrained by the property; deterministic cookie secret in the closed world.'),
    'C14': dict(level='exploration', ref='7 C14', technique='TLA+ byte-layout specification XfrmWire.tla (framing theorems by TLC, layout table validated against <linux/xfrm.h> by a C program) as oracle for the emitted netlink bytes; kernel-struct decoder / encoder in C',
                text='The layout table of XfrmWire.tla is compared entry by entry with sizeof/offsetof printed by a C program compiled against the kernel headers; TLC checks length / attribute framing theorems and writes (intent, bytes) vectors; every request emitted by Xfrm.create_sa / delete_sa / create_policy / flush_* is compared byte for byte (seq / pid masked) and additionally decoded by the C program with the kernel structures and compared with the intent; ACQUIRE / EXPIRE / ack / error messages encoded by the C program are parsed by Xfrm.parse_message / send_recv.',
                note='kernel headers of this image; x86-64 little endian; universe of selectors / ports / protocols / algorithms / lifetimes / SPIs / indices as listed in the evidence.'),
    'C15': dict(level='model_checking', ref='7 C15', technique='TLA+ model Policies.tla (kernel SPD/SAD surviving start / crash / stop / leftovers; AfterStart, AfterStop, AcquireMaps) + TLC + replay of every transition against a persistent kernel model',
                text='TLC checks AfterStart / AfterStop / AcquireMaps over all interleavings of start, negotiate, crash, stop and leftovers for four configurations; every transition is replayed with the real Configuration / IkeSaController against a kernel model that survives incarnations, and the decoded SPD is compared with an independent reading of the configuration dictionary (out/in/fwd triple, index<<3|dir, selectors, protocol, mode, tunnel endpoints, masks); ACQUIREs for every entry (corner and interior selectors) are followed to the message that carries TS/SA and compared with the entry; unknown indices are ignored.',
                note='three protect entries over two connections (IPv4 ESP transport, IPv4 AH tunnel with ports, IPv6 ESP tunnel with index 2^20).'),
    'C16': dict(level='model_checking', ref='7 C16', technique='TLA+ model (table as a sequence: NoDupTable, HeldAreListed, routing) + TLC + replay of every transition',
                text=IKE + '; the IKE_SA table is compared as a sequence and the IKE_SA that processed each datagram is recorded.',
                note='two endpoints; simultaneous initiations and rekeys give several IKE_SAs per endpoint.'),
}
# what was added after the rounds of independently seeded changes (DESIGN.md 0.7)
EXTRA = {
    'C01': 'Scenario estab_pfs_same (crossing CREATE_CHILD_SA exchanges with PFS); histories end with DELETE(IKE) and a second IKE_SA negotiated on the same configuration objects; preference orders include a requester that offers only a subset (what the responder likes least).',
    'C02': 'Eleven re-sealing rewrites (truncated / extended AUTH data, shared-key AUTH under a public secret); impersonation of the responder and of the initiator by an attacker that completes Diffie-Hellman itself (forged AUTH payloads, CREATE_CHILD_SA or INFORMATIONAL instead of IKE_AUTH), with positive controls; both kinds of wrong credential, PSK and RSA; the genuine message 1 replayed after a rewritten one was answered.',
    'C03': 'The menu includes cleartext chains with unknown critical / skipped payloads and the same forgeries from an address that is not the peer\'s; the snapshot includes the addresses the IKE_SA sends to.',
    'C04': 'Directed peer values and steered sessions whose g^ir starts with a zero octet; key mismatches of the replayed crossing-PFS behaviours of Ike.tla.',
    'C05': 'Also: the same suite under two proposal numbers, repeated transforms, Nonce payloads of 255 / 256 octets, clear payloads in front of the encrypted payload, every length mutant ParseChain rejects must be rejected, a payload the RFC allows that cannot be built is a violation; critical payloads of types the RFC defines but the implementation does not parse.',
    'C06': 'Also the family AttrMutations (raw transform attributes, TV / TLV, every length) and a time-scaling family (correctly sealed messages with n and 8n elements: parse time must not grow quadratically).',
    'C07': 'Modified copies of answered and of fresh protected requests are also handed to the real receiving endpoint (no reply, no change).',
    'C08': 'Scenarios estab_rekey_ke and estab_pfs in the quick tier; recorded random schedules validated by TLC against IkeTrace.tla (binding B).',
    'C09': 'Action TimerIdle (timers due while the IKE_SA is not established, scenario estab_idle); recorded random schedules validated by TLC against IkeTrace.tla (binding B) with the failing clause named.',
    'C10': 'Thorough tier: recorded random schedules validated by TLC (binding B).',
    'C11': 'RetryGroupOk vectors (every group number suggested by INVALID_KE_PAYLOAD), InitiatorAccepts vectors (the requester\'s check of a CHILD_SA answer), CHILD_SA policies end to end through CREATE_CHILD_SA twice; peer offers with two DH groups and the KE rule (INVALID_KE_PAYLOAD naming the chosen group, then the retry) on CREATE_CHILD_SA.',
    'C13': 'Actions AnswerBusy (TEMPORARY_FAILURE to the rekey; property HardLimitFixed), PeerProbe (requests of the peer while ours is outstanding), Noise (unauthenticated datagrams move no deadline); the sweep is the timer section of the REAL main_loop, entered with scripted sockets.',
    'C14': 'Including tunnels whose selector family differs from the endpoint family.',
    'C15': 'Five protect entries incl. networks of the other family than the tunnel; ACQUIRE while each kind of request is outstanding; IKE_SA lifetime far below the entries\'; divergences right after CtlAcquire in the Ike.tla replay.',
    'C16': 'Including the adversary scenarios; table / routing / kernel-SAD divergences and divergences right after CtlExpire belong here whatever caused them; thorough tier: binding B.',
    'C17': '34 hostile kinds incl. duplicated datagrams, wrong-SPI and unknown-exchange datagrams (sealed / clear / to a half-open initiator IKE_SA), kernel refusals of NEWSA / DELSA, a kernel ACQUIRE towards the legitimate peer at any moment, bursts of Wire.tla mutants; the legitimate session ends with DELETE(IKE); time passes in the closing phase.',
    'C18': 'Including the right cookie cut to 0 / 1 / 16 octets or extended, and half-open IKE_SAs that stem from distinct initiators, one replayed request or one SPI with fresh nonces; the initiator side with a second, different COOKIE.',
    'C19': 'Also ordered pairs of protect entries and two connections (order independence), reload of the same objects after an edit, peers of the other address family, resolvable names as identities.',
    'C20': 'Also hostile identities (format templates), traffic-selector mismatches, kernel refusals at either end, unexpected exceptions; the command line entry point pyikev2.py is executed with and without --verbose (what the default level is); the evidence lists which INFO+ logging statements of the source were executed.',
}
REASON_TODO = 'check under construction in this round (not yet registered)'


def main():
    props = [json.loads(l) for l in open(os.path.join(VERIF, 'properties.jsonl'))]
    fixes = subprocess.run(['git', '-C', '/repo', 'log', '--format=%h %s', 'fd1e9ab..HEAD'], stdout=subprocess.PIPE).stdout.decode().splitlines()
    m = {
        'version': 1, 'setup_cmd': './setup.sh',
        'hooks': {'guard': 'PYIKEV2_VERIF',
                  'enable': 'no source hooks in /repo: pyikev2 is single-threaded, the linearization point of every action is the return of the public call; the harness instruments by attribute replacement at import time',
                  'baseline_off_cmd': 'cd /repo && /venv/bin/python -m pytest -ra -q -p no:cacheprovider --timeout=900 --continue-on-collection-errors',
                  'source_commits': [], 'add_only': True},
        'engines': [{'name': 'tla-mbv', 'path': '/verif/check', 'serves_properties': sorted(CHECKS),
                     'kind_free_text': 'explicit TLA+ specifications (spec/*.tla) checked with TLC; bound to the implementation by replaying TLC behaviours into the real code, validating recorded traces against the specification, and spec-generated vectors'}],
        'checks': [], 'not_applicable': [],
        'notes': 'Defects found and repaired in /repo (fix: commits): ' + '; '.join(fixes) + '. See DESIGN.md and known_findings.json.',
    }
    for p in props:
        pid = p['id']
        c = CHECKS.get(pid)
        if c is None:
            m['not_applicable'].append({'property_id': pid, 'reason': REASON_TODO})
            continue
        m['checks'].append({
            'property_id': pid, 'quick_cmd': f'./check {pid} --tier quick', 'thorough_cmd': f'./check {pid} --tier thorough',
            'evidence_file': f'/verif/evidence/{pid}.json', 'replay_cmd_template': f'./check {pid} --replay {{path}}', 'engine': 'tla-mbv',
            'level_claimed': {'category': c['level'], 'text': c['text'] + (' ' + EXTRA[pid] if pid in EXTRA else ''), 'design_ref': 'DESIGN.md section ' + c['ref']},
            'level_note': c['note'], 'technique': c['technique']})
    if not m['not_applicable']:
        del m['not_applicable']
    json.dump(m, open(os.path.join(VERIF, 'MANIFEST.json'), 'w'), indent=1)
    print('checks:', [c['property_id'] for c in m['checks']], 'not claimed:', [n['property_id'] for n in m.get('not_applicable', [])])


if __name__ == '__main__':
    main()
