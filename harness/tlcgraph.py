"""Labelled state graphs out of TLC: the specification's MC module defines an ACTION_CONSTRAINT EdgeDump that prints every
transition as JSON (source = ordinal of the source state in expansion order, see spec/MC.tla).  One worker, breadth first."""
import collections
import json
import os
import re
import shutil
import subprocess
import tempfile
import time

import common


class Graph:
    """The labelled state graph of one scenario as dumped by TLC."""

    def __init__(self, scname, sc):
        self.scname, self.sc = scname, sc
        self.states = []         # parsed state dicts in discovery order
        self.expanded = []       # indices of states satisfying the constraint, in expansion order
        self.edges = []          # (src index, action dict, dh delta, dst index)
        self.generated = self.distinct = 0

    def behaviours(self):
        """Path cover: BFS-tree path to the source of every not yet covered edge, extended greedily through uncovered edges."""
        out_edges = collections.defaultdict(list)
        for i, (f, a, dd, t) in enumerate(self.edges):
            out_edges[f].append(i)
        parent = {0: None}
        queue = collections.deque([0])
        while queue:
            u = queue.popleft()
            for i in out_edges.get(u, ()):
                v = self.edges[i][3]
                if v not in parent:
                    parent[v] = i
                    queue.append(v)

        def path_to(u):
            p = []
            while parent[u] is not None:
                i = parent[u]
                p.append(i)
                u = self.edges[i][0]
            return p[::-1]
        covered = set()
        paths = []
        for i, (f, a, dd, t) in enumerate(self.edges):
            if i in covered:
                continue
            p = path_to(f) + [i]
            covered.add(i)
            cur = t
            while True:
                nxt = [j for j in out_edges.get(cur, ()) if j not in covered]
                if not nxt:
                    break
                p.append(nxt[0])
                covered.add(nxt[0])
                cur = self.edges[nxt[0]][3]
            paths.append(p)
        return paths


def dump(module, cfg_body, scname, sc, expandable, timeout=900):
    """Run TLC on spec/<module> with the given configuration text (which names the EdgeDump action constraint) and parse the
    printed transitions.  expandable(state) tells whether TLC expands the state (i.e. it satisfies the state constraint)."""
    tmp = tempfile.mkdtemp(prefix='verif-dump-')
    g = Graph(scname, sc)
    try:
        cfg = os.path.join(tmp, f'{scname}.cfg')
        with open(cfg, 'w') as fh:
            fh.write(cfg_body)
        meta = os.path.join(tmp, 'meta')
        cmd = ['java', '-XX:+UseParallelGC', '-Xmx6g', '-cp', common.TLC_JARS, 'tlc2.TLC', '-metadir', meta,
               '-noGenerateSpecTE', '-workers', '1', '-config', cfg, module]
        p = subprocess.Popen(cmd, cwd=common.SPEC, stdout=subprocess.PIPE, stderr=subprocess.STDOUT)
        index = {}
        tail = collections.deque(maxlen=40)
        t0 = time.time()

        def disc(st, key):
            i = index.get(key)
            if i is None:
                i = index[key] = len(g.states)
                g.states.append(st)
                if expandable(st):
                    g.expanded.append(i)
            return i
        for raw in p.stdout:
            line = raw.decode(errors='replace')
            if line.startswith('<<"EDGE", "'):
                d = json.loads(json.loads(line[len('<<"EDGE", '):line.rindex('>>')]))
                tkey = json.dumps(d.get('tid', d['t']), sort_keys=True)
                if not g.states and 'ff' not in d:
                    raise common.MachineryError('edge before initial state')
                if 'ff' in d:                      # small models print the full source state
                    fi = disc(d['ff'], json.dumps(d.get('fid', d['ff']), sort_keys=True))
                    ti = disc(d['t'], tkey)
                else:
                    ti = disc(d['t'], tkey)
                    fi = g.expanded[d['f'] - 1]
                g.edges.append((fi, d['a'], d['dd'], ti))
            elif line.startswith('<<"INIT", "'):
                d = json.loads(json.loads(line[len('<<"INIT", '):line.rindex('>>')]))
                disc(d, json.dumps(d, sort_keys=True))
            else:
                tail.append(line)
                m = re.search(r'(\d+) states generated, (\d+) distinct states found', line)
                if m:
                    g.generated, g.distinct = int(m.group(1)), int(m.group(2))
            if time.time() - t0 > timeout:
                p.kill()
                raise common.MachineryError(f'TLC dump of {scname} timed out')
        p.wait()
        text = ''.join(tail)
        if 'Model checking completed. No error has been found' not in text:
            raise common.MachineryError(f'TLC dump of {scname} failed:\n{text}')
        if g.distinct != len(g.states) and not any_ff(g):
            raise common.MachineryError(f'dump of {scname}: {len(g.states)} states parsed, TLC reports {g.distinct}')
        return g
    finally:
        shutil.rmtree(tmp, ignore_errors=True)




def any_ff(g):
    return getattr(g, 'full_sources', False)


def simulate(module, cfg_body, num, depth, seed=0, timeout=600):
    """Random behaviours out of TLC's simulation mode.  The EdgeDump action constraint must print the full source state
    (field ff); behaviours are split where an edge does not continue the previous one.  Returns list of [(action, dd, target)]."""
    tmp = tempfile.mkdtemp(prefix='verif-sim-')
    try:
        cfg = os.path.join(tmp, 'sim.cfg')
        with open(cfg, 'w') as fh:
            fh.write(cfg_body)
        cmd = ['java', '-XX:+UseParallelGC', '-Xmx4g', '-cp', common.TLC_JARS, 'tlc2.TLC', '-metadir', os.path.join(tmp, 'meta'),
               '-noGenerateSpecTE', '-workers', '1', '-simulate', f'num={num}', '-depth', str(depth), '-seed', str(seed),
               '-config', cfg, module]
        p = subprocess.run(cmd, cwd=common.SPEC, stdout=subprocess.PIPE, stderr=subprocess.STDOUT, timeout=timeout)
        behaviours, cur, prev_t = [], [], None
        for line in p.stdout.decode(errors='replace').splitlines():
            if line.startswith('<<"EDGE", "'):
                d = json.loads(json.loads(line[len('<<"EDGE", '):line.rindex('>>')]))
                fk = json.dumps(d['ff'], sort_keys=True)
                if prev_t is None or fk != prev_t:
                    if cur:
                        behaviours.append(cur)
                    cur = []
                    cur_first = d['ff']
                cur.append((d['a'], d.get('dd'), d['t'], d['ff'] if not cur else None))
                prev_t = json.dumps(d['t'], sort_keys=True)
        if cur:
            behaviours.append(cur)
        if not behaviours:
            raise common.MachineryError('TLC simulation produced no behaviour:\n' + p.stdout.decode(errors='replace')[-1500:])
        return behaviours
    finally:
        shutil.rmtree(tmp, ignore_errors=True)
