"""The real IkeSaController.main_loop under scripted sockets (C17, status query of C16).

socket.socket / select.select / the XFRM event socket are replaced by scripted objects; the loop itself, dispatch_message, the
netlink parsing and the timer sweep are the implementation's.  A legitimate peer B (driven directly by the harness) runs a
session against the daemon A while hostile events are injected in between."""
import json
import socket as _socket
import struct
import sys

import common
import fakekernel
import probes
import wire_ref as W
import world as wd
from world import IkeSa

LINE_BUDGET = 400000        # executed lines per event (a handshake step costs ~15-25 k)


class Stop(BaseException):
    """The script is exhausted."""


class Wedged(BaseException):
    """One event used more than LINE_BUDGET lines."""


class FakeUdp:
    def __init__(self, loop):
        self.loop = loop
        self.addr = None

    def bind(self, a):
        self.addr = a

    def setsockopt(self, *a):
        pass

    def recvfrom(self, n):
        return self.loop.pending

    def sendto(self, data, dst):
        self.loop.on_send(bytes(data), dst)

    def fileno(self):
        return 10


class FakeTcp:
    def __init__(self, loop):
        self.loop = loop

    def bind(self, a):
        pass

    def setsockopt(self, *a):
        pass

    def listen(self, *a):
        pass

    def accept(self):
        return FakeConn(self.loop), ('127.0.0.1', 40000)

    def close(self):
        self.loop.control_closed = True

    def fileno(self):
        return 11


class FakeConn:
    def __init__(self, loop):
        self.loop = loop

    def recv(self, n):
        return b'status'

    def sendall(self, data):
        self.loop.status_replies.append(bytes(data))

    def close(self):
        pass


class FakeXfrm:
    def __init__(self, loop):
        self.loop = loop

    def recv(self, n):
        return self.loop.pending

    def fileno(self):
        return 12


class SocketShim:
    def __init__(self, loop):
        self.loop = loop

    def __getattr__(self, n):
        return getattr(_socket, n)

    def socket(self, family=None, type_=None, *a):
        if type_ == _socket.SOCK_STREAM:
            self.loop.tcp = FakeTcp(self.loop)
            return self.loop.tcp
        s = FakeUdp(self.loop)
        self.loop.udp.append(s)
        return s


class Loop:
    def __init__(self, seed=0, opts=None, edit_silent_peer=None):
        o = dict({'dpd': 3600, 'lifetime': 7200}, **(opts or {}))
        # the daemon (A) is also configured for a third peer C that never answers: an ACQUIRE for it leaves a half-open initiator IKE_SA behind
        conf = {'A': {'A-B': wd.connection_dict('A', 'B', o), 'A-C': wd.connection_dict('A', 'C', o, index=7)}, 'B': {'B-A': wd.connection_dict('B', 'A', o)}}
        conf['A']['A-C'].update(edit_silent_peer or {})      # (odd but loadable values in the connection nobody answers on: they must not matter to anybody else)
        self.w = wd.World(conf=conf, seed=seed, opts=o)
        self.udp, self.tcp, self.xfrm_sock = [], None, FakeXfrm(self)
        self.pending = None
        self.sent = []               # (data, dst) the daemon transmitted
        self.status_replies = []
        self.control_closed = False
        self.fail_next_send = None
        self.script = []
        self.pos = 0
        self.lines = 0
        self.max_lines = 0
        self.events_done = []
        self.legit = Legit(self)
        self.current = None
        self.failed_sends = 0
        self.netlink_refused = []
        self.rnd = None

    # ---- scripted environment
    def on_send(self, data, dst):
        if self.fail_next_send is not None:
            ex, self.fail_next_send = self.fail_next_send, None
            self.failed_sends += 1
            raise ex
        self.sent.append((data, dst))
        if dst[0] == wd.addr_of('B'):
            self.legit.from_daemon(data)

    def arm_netlink_failure(self, match, err):
        """The kernel refuses the next netlink request of the daemon whose kind is in `match` (once)."""
        k = self.w.kernel['A']
        loop = self

        def refuse(idx, req):
            if req['kind'] in match:
                k.refuse = None
                loop.netlink_refused.append(req['kind'])
                return err
            return 0
        k.refuse = refuse

    def select(self, rlist, wlist, xlist, timeout=None):
        self.max_lines = max(self.max_lines, self.lines)
        if self.current is not None:
            self.events_done.append((self.current, self.lines))
        self.lines = 0
        while True:
            if self.pos >= len(self.script):
                raise Stop()
            ev = self.script[self.pos]
            if ev['type'] == 'lazy':          # concrete bytes depend on the state of the session: built when reached
                ev = hostile_event(ev['kind'], self, self.rnd, prepared=ev.get('prepared', False))
                if isinstance(ev, list) and len(self.script) > 5000:
                    raise common.MachineryError('scripted environment keeps growing')
                if isinstance(ev, list):      # a hostile kind that needs a preparing event: both are handled by the loop, one after the other
                    self.script[self.pos:self.pos + 1] = ev
                    ev = self.script[self.pos]
                else:
                    self.script[self.pos] = ev
            self.pos += 1
            self.current = ev.get('name', ev['type'])
            t = ev['type']
            if t == 'drain':
                # closing phase: as long as the legitimate session is not through (a request of the daemon whose transmission was made to fail only goes out
                # again when its retransmission timer fires, the peer's turn came while it had nothing to send ...) it gets further turns and time passes - bounded
                if not self.legit.completed and ev['left'] > 0 and not getattr(self, 'own_teardown', False):
                    self.script[self.pos:self.pos] = [{'type': 'legit'}, {'type': 'legit'}, {'type': 'tick', 'name': 'tick', 'dt': 1.0}, {'type': 'drain', 'left': ev['left'] - 1}]
                continue
            if t == 'legit':
                data = self.legit.next_datagram()
                if data is None:
                    continue
                self.pending = (data, (wd.addr_of('B'), 500))
                return [self.udp[0]], [], []
            if t == 'udp':
                self.pending = (ev['data'], (ev.get('src', wd.addr_of('B')), 500))
                return [self.udp[0]], [], []
            if t == 'xfrm':
                self.pending = ev['data']
                return [self.xfrm_sock], [], []
            if t == 'control':
                return [self.tcp], [], []
            if t == 'fail_send':
                self.fail_next_send = ev['exc']
                continue
            if t == 'fail_netlink':
                self.arm_netlink_failure(ev['match'], ev['errno'])
                continue
            if t == 'tick':
                self.w.now += ev['dt']
                return [], [], []
            if t == 'due':
                # a lifetime deadline of the daemon's established IKE_SAs has come (as if that much time had passed with the liveness checks answered)
                for x in self.w.sas('A'):
                    if x.state == IkeSa.State.ESTABLISHED:
                        setattr(x, ev['which'], self.w.now - 1)
                self.w.now += 1.0
                return [], [], []
            raise common.MachineryError('unknown scripted event ' + t)

    def tracer(self, frame, event, arg):
        if event == 'line':
            self.lines += 1
            if self.lines > LINE_BUDGET:
                raise Wedged()
        return self.tracer

    def run(self, script):
        """Run the real main_loop over the script. Returns None (script exhausted normally) or the exception that ended the loop."""
        import ikesacontroller
        import xfrm
        self.script = list(script)
        ikesacontroller.socket = SocketShim(self)
        ikesacontroller.select = self.select
        xfrm.Xfrm.get_socket = classmethod(lambda cls: self.xfrm_sock)
        ctl = self.w.ctl['A']
        old = sys.gettrace()
        sys.settrace(self.tracer)
        try:
            self.w.call('A', ctl.main_loop)
        except Stop:
            return None
        except BaseException as ex:      # noqa: B902
            return ex
        finally:
            sys.settrace(old)
        return None


class Legit:
    """The legitimate peer B: acquire -> IKE_SA_INIT -> IKE_AUTH -> CHILD_SA rekey -> delete of the old CHILD_SA -> IKE_SA rekey -> delete of the old IKE_SA -> delete of the IKE_SA."""

    def __init__(self, loop):
        self.loop = loop
        self.queue = []          # datagrams B wants the daemon to receive
        self.stage = 0
        self.completed = False
        self.last = None
        self.answered = True

    def from_daemon(self, data):
        w = self.loop.w
        out = w.dispatch('B', data, 'A')
        # only the response to the outstanding request settles it (the daemon also answers hostile datagrams that carry B's source address)
        try:
            h, q = W.dec_header(bytes(data)), W.dec_header(self.last) if self.last else None
        except W.WireError:
            h = q = None
        if h and q and h['response'] and h['spi_i'] == q['spi_i'] and h['mid'] == q['mid'] and h['xchg'] == q['xchg']:
            self.answered = True
        if out is not None:
            self.queue.append(bytes(out))

    def next_datagram(self):
        w = self.loop.w
        if not self.answered and self.last is not None:
            # the answer never came (send failure): retransmit.  One request cannot be answered a second time: the DELETE of an IKE_SA whose first copy the
            # daemon already executed (the IKE_SA is gone there, the lost answer cannot be repeated - RFC 7296 1.4.1 accepts that).  B does what the protocol
            # says: after its retransmissions it gives up on THAT IKE_SA - for a rekeyed IKE_SA the successor is not concerned.
            self.retx = getattr(self, 'retx', 0) + 1
            owner = next((s for s in w.sas('B') if s.state in (IkeSa.State.DEL_AFTER_REKEY_IKE_SA_REQ_SENT, IkeSa.State.DEL_IKE_SA_REQ_SENT)
                          and s.request is not None and bytes(s.request.to_bytes())[:28] == self.last[:28]), None)
            if self.retx <= 3 or owner is None:
                return self.last
            owner.state = IkeSa.State.DELETED
            w.ctl['B'].ike_sas.remove(owner)
            self.answered, self.retx = True, 0
        if not self.queue:
            if self.stage == 0:
                req = w.acquire('B', sport=0, dport=0)
                if req is None:               # an IKE_SA with the daemon already exists (the daemon started one): the ACQUIRE rides on it
                    self.stage = 1
                    return None
                self.queue.append(bytes(req))
            elif self.stage == 1:
                sas = [s for s in w.sas('B') if s.state == IkeSa.State.ESTABLISHED and s.child_sas]
                if not sas:
                    return None
                req = w.expire('B', bytes(sas[0].child_sas[0].inbound_spi), False)
                if req is None:               # B is busy with an exchange the daemon started: the expire is queued there, try again on the next turn
                    return None
                self.queue.append(bytes(req))
            elif self.stage == 2:
                # B rekeys the IKE_SA (the daemon answers as the responder of the rekey: its old IKE_SA waits in REKEYED for B's DELETE - while its timers run)
                sas = [s for s in w.sas('B') if s.state == IkeSa.State.ESTABLISHED and s.child_sas]
                if not sas:
                    return None
                keep = sas[0].rekey_ike_sa_at
                sas[0].rekey_ike_sa_at = w.now - 1
                req = w.timer('B', sas[0], 'check_rekey_ike_sa_timer')
                sas[0].rekey_ike_sa_at = keep
                if req is None:
                    return None
                self.queue.append(bytes(req))
            elif self.stage == 3:
                # the session is complete (IKE_SA, CHILD_SA, one rekey): remember that, then B closes the IKE_SA (the daemon tears it down with its CHILD_SA)
                sas = [s for s in w.sas('B') if s.state == IkeSa.State.ESTABLISHED]
                if not sas or not any(s.state == IkeSa.State.ESTABLISHED and s.child_sas for s in w.sas('A')):
                    return None
                self.completed = True
                sas[0].delete_ike_sa_at = w.now - 1
                req = w.timer('B', sas[0], 'check_rekey_ike_sa_timer')
                if req is None:
                    self.completed = False
                    return None
                self.queue.append(bytes(req))
            else:
                return None
            self.stage += 1
        self.last = self.queue.pop(0)
        self.retx = 0
        self.answered = bool(W.dec_header(self.last)['response'])      # B's own responses (to requests the daemon started) wait for nothing
        return self.last

    def established(self):
        w = self.loop.w
        a = [s.state.name for s in w.sas('A')]
        b = [s.state.name for s in w.sas('B')]
        return a, b


# ---------------------------------------------------------------------------------------------------- hostile events
def init_request(spi, src_note='', vendor=b'verif', extra=()):
    import kdf_ref
    prop = {'num': 1, 'proto': 1, 'spi': b'', 'transforms': [{'type': 1, 'id': 12, 'keylen': 256}, {'type': 3, 'id': 12, 'keylen': None},
                                                          {'type': 2, 'id': 5, 'keylen': None}, {'type': 4, 'id': 19, 'keylen': None}]}
    pl = [{'t': W.SA, 'proposals': [prop]}, {'t': W.NONCE, 'data': b'\x33' * 32}, {'t': W.KE, 'group': 19, 'data': kdf_ref.dh_public(19, 0x77777)},
          {'t': W.VENDOR, 'data': vendor}] + list(extra)
    return W.enc_message({'spi_i': spi, 'spi_r': b'\0' * 8, 'xchg': 34, 'response': False, 'initiator': True, 'mid': 0}, pl)


_MUTANTS = None


def hostile_event(kind, loop, rnd, prepared=False):
    """One concrete instance of an abstract hostile kind, built for the current state of the world."""
    w = loop.w
    sa_b = next((s for s in w.sas('B') if s.my_crypto is not None), None)
    known = (sa_b.spi_i, sa_b.spi_r) if sa_b else (b'B' + b'\0' * 6 + b'\x01', b'A' + b'\0' * 6 + b'\x01')
    udp = lambda data, **k: dict({'type': 'udp', 'data': data, 'name': kind}, **k)
    if kind == 'short':
        return udp(bytes(rnd.getrandbits(8) for _ in range(rnd.choice((0, 1, 3, 27)))))
    if kind == 'garbage':
        return udp(W.enc_header(known[0], known[1], rnd.choice((33, 46, 99)), 2, 0, rnd.choice((35, 36, 37)), 0x08, rnd.randrange(4), 28 + 40) + bytes(rnd.getrandbits(8) for _ in range(40)))
    if kind == 'unconfigured_src':
        return udp(init_request(b'\x70' * 8), src='192.168.0.99')
    if kind == 'init_existing_spi':
        # while the legitimate peer's own IKE_SA_INIT is unanswered, a request forged with its SPI *and* its source address draws an answer that its
        # initiator accepts: an active attack on that handshake (C02), not noise.  In that window the forged request comes from the other configured address.
        if sa_b is None:
            return udp(init_request(known[0]), src=wd.addr_of('C'))
        return udp(init_request(known[0]))
    if kind == 'unknown_exchange':
        return udp(W.enc_header(known[0], known[1], 0, 2, 0, 99, 0x08, 0, 28))
    if kind == 'unknown_spi':
        return udp(W.enc_header(b'\x99' * 8, b'\x98' * 8, 46, 2, 0, 37, 0x08, 0, 28 + 36) + b'\0\0\0\x24' + b'\x05' * 32)
    if kind == 'binary_vendor':
        return udp(init_request(bytes([0x71, rnd.getrandbits(8)]) * 4, vendor=b'\xff\xfe\x00\x80'))
    if kind == 'auth_malformed':
        if sa_b is None:
            return udp(init_request(b'\x72' * 8, extra=[{'t': W.IDI, 'id_type': 2, 'data': b'\xff\xfe'}]))
        inner = rnd.choice(([{'t': W.IDI, 'id_type': 1, 'data': b'\x01\x02\x03'}, {'t': W.IDR, 'id_type': 2, 'data': b'\xff\xfe\xfd'}],
                            [{'t': W.VENDOR, 'data': b'\xc3\x28'}], [{'t': 33, 'data': b'\x00'}]))
        peer_a = probes.peer_sa_of(w, sa_b)
        mid = (peer_a.peer_msg_id if peer_a else sa_b.my_msg_id) + 3
        if inner[0]['t'] == 33:
            # an SA payload of one octet, correctly sealed
            data = probes.seal(sa_b, 36, False, mid, [{'t': 99, 'data': b''}])
            c = sa_b.my_crypto
            data = W.enc_message(probes.header_of(sa_b, 36, False, mid), [], sk={'ke': c.sk_e, 'ka': c.sk_a, 'integ': probes.integ_id(c), 'iv': b'\x13' * 16,
                                                                              'inner': [{'t': 33, 'data': b'\x00'}]}) if False else data
            return udp(data)
        return udp(probes.seal(sa_b, 37, False, mid, inner))
    if kind == 'auth_odd_child_spi':
        # authenticated but malformed, and IN the window: the legitimate peer's keys seal a CREATE_CHILD_SA request that is acceptable in every respect
        # (the daemon's own proposal, selectors, mode) except that the CHILD_SA SPI in the proposal is not four octets long - the negotiation gets as far
        # as the kernel.  Whatever becomes of that IKE_SA (the session takes another course: only survival counts), the loop goes on and answers
        peer_a = probes.peer_sa_of(w, sa_b) if sa_b is not None else None
        if peer_a is None or sa_b.state.name != 'ESTABLISHED' or peer_a.state.name != 'ESTABLISHED' or not peer_a.child_sas:
            return hostile_event('auth_malformed', loop, rnd)
        loop.own_teardown = True
        conf = peer_a.configuration.protect[0]
        num = lambda x: int(getattr(x, 'value', x))
        prop = {'num': 1, 'proto': num(conf.proposal.protocol_id), 'spi': rnd.choice((b'\x61' * 8, b'', b'\x62' * 3, b'\x63' * 5)),
                'transforms': [{'type': num(t.type), 'id': num(t.id), 'keylen': t.keylen} for t in conf.proposal.transforms if num(t.type) != 4]}
        kid = peer_a.child_sas[0]
        ts = lambda t: {'ts_type': num(t.ts_type), 'proto': num(t.ip_proto), 'sport': t.start_port, 'eport': t.end_port, 'saddr': t.start_addr.packed, 'eaddr': t.end_addr.packed}
        tsi, tsr = (kid.tsi, kid.tsr) if str(kid.tsi.start_addr) == wd.addr_of('B') else (kid.tsr, kid.tsi)       # (as the PEER would send them: its own side first)
        inner = [{'t': W.SA, 'proposals': [prop]}, {'t': W.NONCE, 'data': bytes(range(32))}, {'t': W.TSI, 'ts': [ts(tsi)]}, {'t': W.TSR, 'ts': [ts(tsr)]}]
        if num(kid.mode) == 0:
            inner.insert(0, {'t': W.NOTIFY, 'proto': 0, 'spi': b'', 'ntype': 16391, 'data': b''})
        mid = peer_a.peer_msg_id
        sa_b.my_msg_id = mid + 1                                                             # (the peer has used this Message ID)
        return udp(probes.seal(sa_b, 36, False, mid, inner))
    if kind == 'bad_checksum':
        base = loop.legit.last
        if base is None or W.dec_header(base)['xchg'] == W.IKE_SA_INIT:
            # (changing a cleartext IKE_SA_INIT request of the legitimate peer is an active attack on that session - C02 -, not noise)
            return hostile_event('garbage', loop, rnd)
        d = bytearray(base)
        d[-1] ^= 1
        return udp(bytes(d))
    if kind.endswith('_x2'):
        # the same datagram twice (a duplicate on the network, a retransmission of a request that got no answer)
        base = hostile_event(kind[:-3], loop, rnd, prepared=prepared)
        if isinstance(base, list):
            return base[:-1] + [{'type': 'lazy', 'kind': kind, 'prepared': True}]
        return [base, dict(base)] if base.get('type') == 'udp' else base
    if kind == 'half_open_unknown_exchange':
        # to the half-open initiator IKE_SA (no keys yet), in the clear, with exactly the SPIs it expects: a request of an exchange type that does not exist
        half = next((x for x in w.sas('A') if x.is_initiator and x.my_crypto is None), None)
        if half is None and not prepared:
            return [hostile_event('acquire_silent_peer', loop, rnd), {'type': 'lazy', 'kind': kind, 'prepared': True}]
        if half is None:
            return udp(W.enc_header(b'\x5c' * 8, b'\0' * 8, 0, 2, 0, 38, 0x00, 0, 28), src=wd.addr_of('C'))
        return udp(W.enc_header(half.my_spi, b'\0' * 8, 0, 2, 0, rnd.choice((38, 43, 99)), 0x00, 0, 28), src=wd.addr_of('C'))
    if kind == 'unknown_exchange_sealed':
        # genuinely protected by the legitimate peer, next expected Message ID, an exchange type that does not exist
        if sa_b is None:
            return udp(W.enc_header(known[0], known[1], 0, 2, 0, 38, 0x08, 1, 28))
        peer_a = probes.peer_sa_of(w, sa_b)
        mid = peer_a.peer_msg_id if peer_a else sa_b.my_msg_id
        return udp(probes.seal(sa_b, rnd.choice((38, 43, 99)), False, mid, []))
    if kind in ('wrong_spi_sealed', 'wrong_spi_clear'):
        # addressed to an existing IKE_SA by the daemon's own SPI, but with another peer SPI; once genuinely protected by the peer's keys, once in the clear
        if sa_b is None:
            return udp(W.enc_header(b'\x5a' * 8, known[1], 0, 2, 0, 37, 0x08, 1, 28))
        peer_a = probes.peer_sa_of(w, sa_b)
        mid = peer_a.peer_msg_id if peer_a else sa_b.my_msg_id
        if kind == 'wrong_spi_clear':
            return udp(W.enc_header(b'\x5a' * 8, sa_b.spi_r, 0, 2, 0, rnd.choice((35, 36, 37)), 0x08, mid, 28))
        return udp(probes.seal(sa_b, 37, False, mid, [], spi_i=b'\x5a' * 8))
    if kind == 'wire_mutant':
        # a member of the mutation families of Wire.tla (length fields, next-payload octets, raw transform attributes - the C06 generators) as an IKE_SA_INIT request
        global _MUTANTS
        if _MUTANTS is None:
            import wirevec
            _MUTANTS = sorted(wirevec.vectors('mutations')['muts'], key=lambda m: (m['kind'], m['at'], m['b']))
        batch = []
        for fam in ('attr', 'len', 'next'):
            for m in rnd.sample([x for x in _MUTANTS if x['kind'] == fam], 10):      # a burst: ten of each family, one datagram each
                chain = bytes(m['b'])
                batch.append(udp(W.enc_header(bytes([0x75, rnd.getrandbits(8)]) * 4, b'\0' * 8, m['first'], 2, 0, 34, 0x08, 0, 28 + len(chain)) + chain))
        return batch
    if kind == 'acquire_legit_peer':
        # the kernel asks for an SA towards the legitimate peer at whatever moment: half-open responder IKE_SA, exchange in progress, rekeyed IKE_SA ...
        return {'type': 'xfrm', 'name': kind, 'data': fakekernel.enc_acquire(wd.addr_of('A'), wd.addr_of('B'), wd.addr_of('A'), wd.addr_of('B'), 0, 0, 6, (1 << 3) | 1)}
    if kind == 'acquire_silent_peer':
        return {'type': 'xfrm', 'name': kind, 'data': fakekernel.enc_acquire(wd.addr_of('A'), wd.addr_of('C'), wd.addr_of('A'), wd.addr_of('C'), 0, 80, 6, (7 << 3) | 1)}
    if kind == 'init_from_silent_peer':
        return udp(init_request(b'\x7a' * 8), src=wd.addr_of('C'))
    if kind == 'half_open_wrong_spi':
        # a half-open initiator IKE_SA (towards the silent peer) has no keys yet and expects SPIr = 0: anybody can address it with any other SPIr
        half = next((x for x in w.sas('A') if x.is_initiator and x.my_crypto is None), None)
        if half is None and not prepared:
            return [hostile_event('acquire_silent_peer', loop, rnd), {'type': 'lazy', 'kind': 'half_open_wrong_spi', 'prepared': True}]
        if half is None:           # the ACQUIRE left no half-open IKE_SA behind (e.g. its transmission failed): address nobody
            return udp(W.enc_header(b'\x5c' * 8, b'\x5b' * 8, 0, 2, 0, 37, 0x20, 0, 28), src=wd.addr_of('C'))
        x = rnd.choice((35, 36, 37))
        return udp(W.enc_header(half.my_spi, b'\x5b' * 8, 0, 2, 0, x, 0x20, 0 if x != 36 else 1, 28), src=wd.addr_of('C'))
    if kind == 'loop_payload':
        return udp(W.enc_header(b'\x74' * 8, b'\0' * 8, 37, 2, 0, 34, 0x08, 0, 32) + struct.pack('>BBH', 37, 0, 0))
    if kind == 'delete_many':
        return udp(W.enc_header(known[0], known[1], 42, 2, 0, 37, 0x08, 0, 36) + struct.pack('>BBH', 0, 0, 8) + struct.pack('>BBH', 3, 0, 65535))
    if kind == 'acquire_unconfigured':
        return {'type': 'xfrm', 'name': kind, 'data': fakekernel.enc_acquire(wd.addr_of('A'), '10.9.9.9', wd.addr_of('A'), '10.9.9.9', 0, 80, 6, (1 << 3) | 1)}
    if kind == 'acquire_unknown_index':
        return {'type': 'xfrm', 'name': kind, 'data': fakekernel.enc_acquire(wd.addr_of('A'), wd.addr_of('B'), wd.addr_of('A'), wd.addr_of('B'), 0, 80, 6, (777 << 3) | 1)}
    if kind == 'expire_unknown_spi':
        return {'type': 'xfrm', 'name': kind, 'data': fakekernel.enc_expire(wd.addr_of('A'), b'\x0a\x0b\x0c\x0d', 50, rnd.random() < 0.5)}
    if kind in ('own_delete_then_expire', 'own_rekey_then_expire'):
        # the daemon's OWN timers fire (its IKE_SA reaches the hard limit: DELETE(IKE) / the rekey time: CREATE_CHILD_SA) and, while that request is
        # outstanding, the kernel reports an EXPIRE for a CHILD_SA of that IKE_SA.  From here on the legitimate session takes another course: only survival counts
        loop.own_teardown = True
        kid = next((c for x in w.sas('A') for c in x.child_sas), None)
        spi = bytes(kid.inbound_spi) if kid is not None else b'\x0a\x0b\x0c\x0e'
        return [{'type': 'due', 'name': kind, 'which': 'delete_ike_sa_at' if kind == 'own_delete_then_expire' else 'rekey_ike_sa_at'},
                {'type': 'xfrm', 'name': kind, 'data': fakekernel.enc_expire(wd.addr_of('A'), spi, 50, rnd.random() < 0.5)},
                {'type': 'xfrm', 'name': kind, 'data': fakekernel.enc_expire(wd.addr_of('A'), spi, 50, True)}]
    if kind == 'replay_last':
        # an authentic datagram of the legitimate peer once more, exactly as it was (a duplicate made by the network): a request is answered from the
        # cache, a response to something already settled is dropped - without touching the exchange that is outstanding NOW
        return udp(loop.legit.last) if loop.legit.last else udp(b'')
    if kind == 'own_request_then_stale_answer':
        # the daemon starts an exchange of its own (rekey of a CHILD_SA it holds), the answer arrives and makes it send the follow-up DELETE; while THAT is
        # outstanding the network delivers the first answer a second time, and then the timers run
        return [hostile_event('expire_own_child', loop, rnd), {'type': 'legit'}, {'type': 'lazy', 'kind': 'replay_last'}, {'type': 'tick', 'name': kind, 'dt': 1.0}]
    if kind == 'expire_own_child':
        # a soft EXPIRE for a CHILD_SA the daemon really holds, at whatever moment: it rekeys it (or queues the event) - the session goes on with the new one
        kid = next((c for x in w.sas('A') for c in x.child_sas), None)
        return {'type': 'xfrm', 'name': kind, 'data': fakekernel.enc_expire(wd.addr_of('A'), bytes(kid.inbound_spi) if kid is not None else b'\x0a\x0b\x0c\x0f', 50, False)}
    if kind == 'netlink_truncated':
        return {'type': 'xfrm', 'name': kind, 'data': fakekernel.enc_expire(wd.addr_of('A'), b'\x01\x02\x03\x04', 50, True)[:rnd.choice((0, 3, 10, 20, 60))]}
    if kind == 'netlink_unknown_type':
        return {'type': 'xfrm', 'name': kind, 'data': struct.pack('<IHHII', 16, 99, 0, 0, 0)}
    if kind == 'control':
        return {'type': 'control', 'name': kind}
    if kind == 'send_gaierror':
        return {'type': 'fail_send', 'name': kind, 'exc': _socket.gaierror(-2, 'Name or service not known')}
    if kind == 'send_oserror':
        return {'type': 'fail_send', 'name': kind, 'exc': OSError(101, 'Network is unreachable')}
    if kind == 'netlink_fail_delsa':
        return {'type': 'fail_netlink', 'name': kind, 'match': ('DELSA',), 'errno': rnd.choice((1, 22, 105))}      # EPERM, EINVAL, ENOBUFS
    if kind == 'netlink_fail_newsa':
        return {'type': 'fail_netlink', 'name': kind, 'match': ('NEWSA',), 'errno': rnd.choice((1, 17, 22))}       # EPERM, EEXIST, EINVAL
    if kind == 'tick':
        return {'type': 'tick', 'name': kind, 'dt': 1.0}
    raise common.MachineryError('unknown hostile kind ' + kind)


KINDS = ('short', 'garbage', 'unconfigured_src', 'init_existing_spi', 'unknown_exchange', 'unknown_spi', 'binary_vendor', 'auth_malformed', 'bad_checksum',
         'loop_payload', 'delete_many', 'acquire_unconfigured', 'acquire_unknown_index', 'expire_unknown_spi', 'netlink_truncated', 'netlink_unknown_type',
         'control', 'send_gaierror', 'send_oserror', 'tick', 'wrong_spi_sealed', 'wrong_spi_clear', 'acquire_silent_peer', 'half_open_wrong_spi', 'netlink_fail_delsa', 'netlink_fail_newsa',
         'acquire_legit_peer', 'wire_mutant', 'own_delete_then_expire', 'own_rekey_then_expire', 'expire_own_child', 'replay_last', 'own_request_then_stale_answer', 'half_open_unknown_exchange_x2', 'unknown_exchange_sealed_x2', 'unknown_exchange_x2', 'garbage_x2', 'wrong_spi_sealed_x2', 'auth_malformed_x2', 'auth_odd_child_spi')


class Lazy(dict):
    """A scripted event whose concrete bytes are built when the loop reaches it (they depend on the state of the session)."""


def run_behaviour(kinds_sequence, seed, rnd, edit_silent_peer=None):
    """kinds_sequence: list of 'legit' | hostile kind, in the order select() hands them out."""
    loop = Loop(seed=seed, edit_silent_peer=edit_silent_peer)
    script = []
    for k in kinds_sequence:
        script.append({'type': 'legit'} if k == 'legit' else {'type': 'lazy', 'kind': k})
    loop.rnd = rnd
    # closing: retransmissions of whatever the legitimate peer still waits for, then a status query
    # (time passes, too: a request of the daemon whose transmission was made to fail goes out again when its retransmission timer fires)
    tick = {'type': 'tick', 'name': 'tick', 'dt': 1.0}
    tail = [{'type': 'legit'}] * 3 + [tick] * 3 + [{'type': 'legit'}] * 3 + [tick] * 5 + [{'type': 'legit'}] * 4 + [{'type': 'drain', 'left': 25}, {'type': 'control', 'name': 'final-status'}]
    try:
        ex = loop.run(script + tail)
        return loop, ex
    finally:
        loop.w.close()
