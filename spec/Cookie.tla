------------------------------------ MODULE Cookie ------------------------------------
(* C18 - the stateless-cookie rule of RFC 7296 2.6 as pyikev2 applies it (ikesacontroller.py:55-56, ikesa.py:462-468).       *)
(* An operator-level specification: Respond(h, req) is what a responder holding h half-open IKE_SAs does with one             *)
(* IKE_SA_INIT request.  TLC checks the property on the operator over the whole universe and writes the cases as vectors      *)
(* (binding C): the harness builds each request concretely and compares reply kind, DH work and what is left in the table.    *)
EXTENDS Naturals, Sequences, FiniteSets, TLC, Json

CONSTANTS Threshold,        \* cookie_threshold of the controller
          OutFile           \* where the vectors go ("" = do not write)

Spis   == {"s1", "s2"}
Nonces == {"n1", "n2"}
Addrs  == {"A", "C"}
Tuple  == [spi : Spis, nonce : Nonces, addr : Addrs]

\* a cookie is (abstractly) the tuple it was computed for under the responder's secret, or junk
CookieFor(t) == <<"ck", t.spi, t.nonce, t.addr>>
Junk == <<"junk">>
CookieVals == {CookieFor(t) : t \in Tuple} \cup {Junk}
CookieLists == {<<>>} \cup {<<c>> : c \in CookieVals} \cup {<<c, d>> : c \in CookieVals, d \in CookieVals}

\* what the negotiation WOULD say about the request if it were looked at: acceptable, a KE payload in another group than the one the responder chooses, no
\* acceptable proposal.  An unverified source learns nothing of this: whatever the request is like, without the right cookie it gets the COOKIE notification
Negs == {"ok", "wrongke", "noproposal"}
Request == [t : Tuple, cookies : CookieLists, neg : Negs]

\* What the MAC of the cookie can bind is what its INPUT determines.  The input is an octet string built from the initiator SPI (8 octets), the nonce
\* (16 .. 256 octets: variable) and the source address (4 or 16 octets: two lengths).  Scaled down here: SPI 1 octet, nonce 1 .. 3 octets, address 1 octet
\* ("IPv4") or 2 octets ("IPv6").  `InputPlain` is the bare concatenation; `Input` marks where the nonce ends.  Two different (SPI, nonce, address)
\* triples with the same input get the same cookie: the plain concatenation has such pairs (an "IPv6" source and nonce n against the "IPv4" source made of
\* the last octet of that address and the nonce n | first octet) - the cookie handed to one is accepted from the other.
Oct == {0, 1}
OctNonces == UNION {[1..k -> Oct] : k \in 1..3}
OctAddrs == [1..1 -> Oct] \cup [1..2 -> Oct]
OctTuples == [spi : [1..1 -> Oct], nonce : OctNonces, addr : OctAddrs]
InputPlain(t) == t.spi \o t.nonce \o t.addr
Input(t) == t.spi \o <<Len(t.nonce)>> \o t.nonce \o t.addr
Injective(f(_)) == \A t1, t2 \in OctTuples : f(t1) = f(t2) => t1 = t2
ASSUME Injective(Input)
ASSUME ~Injective(InputPlain)
\* a colliding pair of the plain concatenation, for the harness to build concretely (IPv6 source / IPv4 source)
Collision == CHOOSE p \in OctTuples \X OctTuples : p[1] # p[2] /\ InputPlain(p[1]) = InputPlain(p[2]) /\ Len(p[1].addr) = 2 /\ Len(p[2].addr) = 1

\* armed iff the number of half-open IKE_SAs, counting the one just created for this request, exceeds the threshold
Armed(h) == h + 1 > Threshold
Valid(req) == req.cookies # <<>> /\ req.cookies[1] = CookieFor(req.t)

Respond(h, req) ==
  IF Armed(h) /\ ~Valid(req)
  THEN [reply |-> "COOKIE", cookie |-> CookieFor(req.t), dh |-> 0, left |-> 0]     \* nothing but the notification, no DH, no IKE_SA
  ELSE IF req.neg = "wrongke" THEN [reply |-> "INVALID_KE", cookie |-> <<>>, dh |-> 0, left |-> 0]
  ELSE IF req.neg = "noproposal" THEN [reply |-> "NO_PROPOSAL", cookie |-> <<>>, dh |-> 0, left |-> 0]
  ELSE [reply |-> "INIT_OK", cookie |-> <<>>, dh |-> 2, left |-> 1]                \* normal answer: keygen + shared secret, half-open IKE_SA

HalfOpenCounts == 0..(Threshold + 2)
\* the right cookie damaged in length only: cut to its first k octets (k = 0: an empty notification) or extended by one octet - never the cookie itself
Cut(t, k) == <<"cut", t.spi, t.nonce, t.addr, k>>
CutLengths == {0, 1, 16, 33}
CutCases == {[h |-> h, req |-> [t |-> t, cookies |-> <<Cut(t, k)>>, neg |-> "ok"]] : h \in HalfOpenCounts, t \in Tuple, k \in CutLengths}
\* how the h half-open IKE_SAs came about does not matter - they are counted as IKE_SAs: requests of distinct initiators, one request replayed h times,
\* or one initiator SPI with a fresh nonce and KE value each time
\* ... or what remains after more of them were created and one went on to completion ("churn": the ones created under load came in with a cookie - they
\* are half-open IKE_SAs like the others)
Fills == {"distinct", "replayed", "samespi", "churn"}
Cases == {[h |-> c.h, req |-> c.req, fill |-> f] : c \in {[h |-> h, req |-> r] : h \in HalfOpenCounts, r \in Request} \cup CutCases, f \in Fills}

\* ------------------------------------------------------------------------------------------- the property, on the operator
CookieFirst == \A c \in Cases : LET o == Respond(c.h, c.req) IN
                 (Armed(c.h) /\ (c.req.cookies = <<>> \/ c.req.cookies[1] # CookieFor(c.req.t)))
                    => (o.reply = "COOKIE" /\ o.dh = 0 /\ o.left = 0 /\ o.cookie = CookieFor(c.req.t))
\* a cookie is accepted only when returned together with the same SPI, nonce and address
Bound == \A c \in Cases : \A t2 \in Tuple :
            (Armed(c.h) /\ c.req.cookies # <<>> /\ c.req.cookies[1] = CookieFor(t2) /\ t2 # c.req.t) => Respond(c.h, c.req).reply = "COOKIE"
NotArmedNoCookieNeeded == \A c \in Cases : ~Armed(c.h) => Respond(c.h, c.req).reply # "COOKIE"
\* the initiator side: repeating the identical request with the cookie placed first is accepted
RetryAccepted == \A h \in HalfOpenCounts : \A t \in Tuple :
                   Respond(h, [t |-> t, cookies |-> <<Respond(h, [t |-> t, cookies |-> <<>>, neg |-> "ok"]).cookie>>, neg |-> "ok"]).reply = "INIT_OK"
                   \/ ~Armed(h)

ASSUME CookieFirst
ASSUME Bound
ASSUME NotArmedNoCookieNeeded
ASSUME RetryAccepted

\* which verdicts the property fixes: a right cookie in second position behind a wrong one is not constrained by the statement
Strict(c) == ~(Armed(c.h) /\ Len(c.req.cookies) = 2 /\ c.req.cookies[1] # CookieFor(c.req.t) /\ c.req.cookies[2] = CookieFor(c.req.t))

Vectors == {[h |-> c.h, t |-> c.req.t, cookies |-> c.req.cookies, neg |-> c.req.neg, fill |-> c.fill, out |-> Respond(c.h, c.req), strict |-> Strict(c)] : c \in Cases}
ASSUME OutFile = "" \/ JsonSerialize(OutFile, [n |-> Cardinality(Vectors), threshold |-> Threshold, vectors |-> Vectors,
                                                collision |-> [a |-> Collision[1], b |-> Collision[2]]])
ASSUME PrintT(<<"CASES", Cardinality(Cases)>>)

VARIABLE dummy
Init == dummy = 0
Next == UNCHANGED dummy
=========================================================================================
