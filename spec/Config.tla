------------------------------------ MODULE Config ------------------------------------
(***************************************************************************************************)
(* C19 - the documented loading rules of the configuration (configuration.py, example.yaml) as an   *)
(* operator Load over tagged YAML values.  Three verdicts per value: it is a documented valid value *)
(* and must load to exactly its normal form ("ok"); it cannot be loaded faithfully and must be      *)
(* rejected with the configuration error ("err"); it is representable but out of range / oddly      *)
(* typed, where the property allows both ("either").  TLC enumerates a base dictionary with every   *)
(* single and (sampled by the harness) pairwise perturbation, checks that Load is total, and writes *)
(* the cases as vectors.                                                                            *)
(***************************************************************************************************)
EXTENDS Naturals, Sequences, FiniteSets, TLC, Json

CONSTANT OutFile

\* tagged YAML values
S(s) == [k |-> "str", v |-> s]
I(n) == [k |-> "int", v |-> n]
NegI(n) == [k |-> "neg", v |-> n]
B(b) == [k |-> "bool", v |-> b]
Null == [k |-> "null"]
F(t) == [k |-> "float", v |-> t]                \* a YAML float, by its text: ".inf", "-.inf", ".nan", "1.5", "60.0"
Lst(s) == [k |-> "list", v |-> s]
Mp(f) == [k |-> "map", v |-> f]
Absent == [k |-> "absent"]

Ok(n) == [c |-> "ok", n |-> n]
Err == [c |-> "err"]
Either == [c |-> "either"]

\* ---------------------------------------------------------------------------------------------- name tables (documented names)
Encr == [aes128 |-> <<12, 128>>, aes256 |-> <<12, 256>>]
Integ == [sha1 |-> 2, sha256 |-> 12, sha512 |-> 14]
Prf == [sha1 |-> 2, sha256 |-> 5, sha512 |-> 7]
DhNames == {"14", "15", "16", "17", "18", "19", "20", "21", "modp2048", "modp3072", "modp4096", "modp6144", "modp8192", "ecp256", "ecp384", "ecp521"}
DhId(n) == CASE n \in {"14", "modp2048"} -> 14 [] n \in {"15", "modp3072"} -> 15 [] n \in {"16", "modp4096"} -> 16 [] n \in {"17", "modp6144"} -> 17
             [] n \in {"18", "modp8192"} -> 18 [] n \in {"19", "ecp256"} -> 19 [] n \in {"20", "ecp384"} -> 20 [] n \in {"21", "ecp521"} -> 21
IpProto == [tcp |-> 6, udp |-> 17, icmp |-> 1, any |-> 0]
Modes == {"transport", "tunnel"}
IpsecProtos == [esp |-> 3, ah |-> 2]
\* what the harness can resolve / parse (it serves getaddrinfo itself)
Listening == {"192.168.0.1"}
Addrs == {"192.168.0.1", "192.168.0.2", "10.9.9.9", "alice.example", "2001:db8::2"}   \* the peer may be of the other address family than the local address          \* "alice.example" resolves to 192.168.0.1
Resolve(a) == IF a = "alice.example" THEN "192.168.0.1" ELSE a
Nets == {"192.168.0.1", "192.168.0.2", "10.1.0.0/24", "10.2.0.0/16", "2001:db8::/64"}
IntStr == {"0", "23", "60", "600"}
IntOf(s) == CASE s = "0" -> 0 [] s = "23" -> 23 [] s = "60" -> 60 [] s = "600" -> 600

\* ---------------------------------------------------------------------------------------------- field rules
\* list of algorithm names (strings, or integers for DH groups) -> ordered list of identifiers
NameOf(x) == IF x.k = "str" THEN x.v ELSE IF x.k = "int" THEN (IF x.v = 14 THEN "14" ELSE IF x.v = 19 THEN "19" ELSE IF x.v = 21 THEN "21" ELSE "?") ELSE "?"
AlgList(v, names, idOf(_), dflt) ==
  IF v = Absent THEN Ok(dflt)
  ELSE IF v.k # "list" THEN Err
  ELSE IF \E i \in 1..Len(v.v) : v.v[i].k \notin {"str", "int"} \/ NameOf(v.v[i]) \notin names THEN Err
  ELSE Ok([i \in 1..Len(v.v) |-> idOf(NameOf(v.v[i]))])
IntField(v, dflt) ==
  IF v = Absent THEN Ok(dflt)
  ELSE IF v.k = "int" THEN Ok(v.v)
  ELSE IF v.k = "str" THEN (IF v.v \in IntStr THEN Ok(IntOf(v.v)) ELSE Err)
  ELSE IF v.k \in {"neg", "bool"} THEN Either               \* representable, out of the documented range / odd type
  ELSE IF v.k = "float" THEN (IF v.v \in {"inf", "-inf", "nan"} THEN Err ELSE Either)    \* no integer is "exactly" infinity; a finite float is an odd type
  ELSE Err                                                  \* null, list, map
PortField(v) == LET r == IntField(v, 0) IN IF r.c = "ok" /\ r.n > 65535 THEN Either ELSE r
AddrField(v) == IF v.k = "str" THEN (IF v.v \in Addrs THEN Ok(Resolve(v.v)) ELSE Err) ELSE Err
NetField(v, dflt) == IF v = Absent THEN Ok(dflt)
                     ELSE IF v.k = "str" THEN (IF v.v \in Nets THEN Ok(v.v) ELSE Err)
                     ELSE IF v.k \in {"int", "bool"} THEN Either   \* an integer (a boolean is one) is an address to the ipaddress module (observation O-6)
                     ELSE Err
EnumField(v, table, dflt) == IF v = Absent THEN Ok(dflt)
                             ELSE IF v.k = "str" THEN (IF v.v \in DOMAIN table THEN Ok(table[v.v]) ELSE Err) ELSE Err
ModeField(v) == IF v = Absent THEN Ok("tunnel") ELSE IF v.k = "str" /\ v.v \in Modes THEN Ok(v.v) ELSE Err

\* identities are typed by their text: IPv4 address, IPv6 address, e-mail (contains @), else FQDN
IdType(s) == CASE s \in {"192.168.0.1", "192.168.0.2"} -> 1 [] s = "2001:db8::7" -> 5 [] s \in {"alice@example.org", "bob@example.org"} -> 3 [] OTHER -> 2
DefaultId == "https://github.com/alejandro-perez/pyikev2"
AuthField(v) ==
  IF v.k # "map" THEN Err
  ELSE LET f == v.v
           id == IF "id" \in DOMAIN f THEN f["id"] ELSE S(DefaultId)
           psk == IF "psk" \in DOMAIN f THEN f["psk"] ELSE Absent
           priv == IF "privkey" \in DOMAIN f THEN f["privkey"] ELSE Absent
           pub == IF "pubkey" \in DOMAIN f THEN f["pubkey"] ELSE Absent
       IN IF psk # Absent /\ psk.k # "str" THEN Err
          ELSE IF priv # Absent /\ (priv.k # "str" \/ priv.v # "PEM-PRIVATE") THEN Err
          ELSE IF pub # Absent /\ (pub.k # "str" \/ pub.v # "PEM-PUBLIC") THEN Err
          ELSE IF id.k = "int" THEN Either                   \* observation O-6
          ELSE IF id.k # "str" THEN Err
          ELSE Ok([id_type |-> IdType(id.v), id |-> id.v, psk |-> IF psk = Absent THEN "" ELSE psk.v, privkey |-> priv # Absent, pubkey |-> pub # Absent])

Get(f, key) == IF key \in DOMAIN f THEN f[key] ELSE Absent
\* combine field verdicts: any err -> err; else any either -> either; else ok
Combine(rs) == IF \E i \in 1..Len(rs) : rs[i].c = "err" THEN "err" ELSE IF \E i \in 1..Len(rs) : rs[i].c = "either" THEN "either" ELSE "ok"
Val(r) == IF r.c = "ok" THEN r.n ELSE "?"

ProtectEntry(v, myAddr, peerAddr) ==
  IF v.k # "map" THEN Err
  ELSE LET f == v.v
           proto == EnumField(Get(f, "ipsec_proto"), IpsecProtos, 3)
           encr == AlgList(Get(f, "encr"), DOMAIN Encr, LAMBDA n : Encr[n], << <<12, 256>> >>)
           integ == AlgList(Get(f, "integ"), DOMAIN Integ, LAMBDA n : Integ[n], <<12>>)
           dh == AlgList(Get(f, "dh"), DhNames, DhId, <<>>)
           ipp == EnumField(Get(f, "ip_proto"), IpProto, 0)
           mynet == NetField(Get(f, "my_subnet"), myAddr)
           peernet == NetField(Get(f, "peer_subnet"), peerAddr)
           myport == PortField(Get(f, "my_port"))
           peerport == PortField(Get(f, "peer_port"))
           life == IntField(Get(f, "lifetime"), 300)
           mode == ModeField(Get(f, "mode"))
           idx == IF Get(f, "index") = Absent THEN Ok("random") ELSE IntField(Get(f, "index"), 0)
           all == <<proto, encr, integ, dh, ipp, mynet, peernet, myport, peerport, life, mode, idx>>
       IN IF Combine(all) # "ok" THEN [c |-> Combine(all)]
          ELSE Ok([proto |-> proto.n, encr |-> IF proto.n = 2 THEN <<>> ELSE encr.n,              \* no encryption transform for AH
                   integ |-> integ.n, dh |-> dh.n, esn |-> <<0>>,                                  \* NO_ESN always
                   ip_proto |-> ipp.n, my_net |-> mynet.n, peer_net |-> peernet.n, my_port |-> myport.n, peer_port |-> peerport.n,
                   lifetime |-> life.n, mode |-> mode.n, index |-> idx.n])

Connection(v) ==
  IF v.k # "map" THEN Err
  ELSE LET f == v.v IN
    IF \E key \in {"my_addr", "peer_addr", "my_auth", "peer_auth", "protect"} : key \notin DOMAIN f THEN Err            \* mandatory
    ELSE LET my == AddrField(f["my_addr"])  peer == AddrField(f["peer_addr"])
             ma == AuthField(f["my_auth"])  pa == AuthField(f["peer_auth"])
             encr == AlgList(Get(f, "encr"), DOMAIN Encr, LAMBDA n : Encr[n], << <<12, 256>> >>)
             integ == AlgList(Get(f, "integ"), DOMAIN Integ, LAMBDA n : Integ[n], <<12>>)
             prf == AlgList(Get(f, "prf"), DOMAIN Prf, LAMBDA n : Prf[n], <<5>>)
             dh == AlgList(Get(f, "dh"), DhNames, DhId, <<14>>)
             life == IntField(Get(f, "lifetime"), 900)
             dpd == IntField(Get(f, "dpd"), 60)
             listens == IF my.c = "ok" /\ my.n \notin Listening THEN Err ELSE Ok(TRUE)       \* never a local address the daemon does not listen on
             prot == f["protect"]
             \* (an empty string / empty mapping in place of the list iterates like an empty list: "no protect entries" - the property allows either outcome, observation O-6)
             entries == IF prot \in {S(""), Mp(<<>>)} THEN <<Either>> ELSE IF prot.k # "list" THEN <<Err>>
                        ELSE [i \in 1..Len(prot.v) |-> ProtectEntry(prot.v[i], Val(my), Val(peer))]
             \* an IKE_SA needs one transform of each of the four types (RFC 7296 3.3.3: ENCR, PRF, INTEG and D-H are mandatory for IKE): a connection with an
             \* empty list cannot negotiate anything - the first ACQUIRE or IKE_SA_INIT would find no transform of that type - and is rejected when it is loaded
             \* (the property allows both outcomes for "exactly the listed algorithms: none"; what it does not allow - C17 - is a daemon that loads it and dies later;
             \*  four empty lists cannot be loaded to anything: a proposal has at least one transform)
             some == IF Combine(<<encr, integ, prf, dh>>) # "ok" THEN Ok(TRUE)
                     ELSE IF encr.n \o integ.n \o prf.n \o dh.n = <<>> THEN Err
                     ELSE IF encr.n = <<>> \/ integ.n = <<>> \/ prf.n = <<>> \/ dh.n = <<>> THEN Either ELSE Ok(TRUE)
             all == <<my, peer, ma, pa, encr, integ, prf, dh, some, life, dpd, listens>> \o entries
         IN IF Combine(all) # "ok" THEN [c |-> Combine(all)]
            ELSE Ok([my_addr |-> my.n, peer_addr |-> peer.n, my_auth |-> ma.n, peer_auth |-> pa.n, encr |-> encr.n, integ |-> integ.n, prf |-> prf.n,
                     dh |-> dh.n, lifetime |-> life.n, dpd |-> dpd.n, protect |-> [i \in 1..Len(entries) |-> entries[i].n]])

\* the whole file: a mapping of connection names to connections
Load(top) == IF top.k # "map" THEN Err ELSE
             LET rs == [name \in DOMAIN top.v |-> Connection(top.v[name])] IN
             IF \E n \in DOMAIN rs : rs[n].c = "err" THEN Err
             ELSE IF \E n \in DOMAIN rs : rs[n].c = "either" THEN Either
             ELSE Ok([n \in DOMAIN rs |-> rs[n].n])

\* ---------------------------------------------------------------------------------------------- universe: base + perturbations
Strs(s) == [i \in 1..Len(s) |-> S(s[i])]
BaseAuthMy == Mp([id |-> S("alice@example.org"), psk |-> S("secret-a")])
BaseAuthPeer == Mp([id |-> S("bob.example.org"), psk |-> S("secret-b")])
BaseProtect == Mp([index |-> I(5), ip_proto |-> S("tcp"), mode |-> S("transport"), lifetime |-> I(60), ipsec_proto |-> S("esp"),
                   encr |-> Lst(Strs(<<"aes256", "aes128">>)), integ |-> Lst(Strs(<<"sha512", "sha1">>)), dh |-> Lst(<<I(19)>>), my_port |-> I(0), peer_port |-> I(23)])
BaseConn == [my_addr |-> S("192.168.0.1"), peer_addr |-> S("192.168.0.2"), my_auth |-> BaseAuthMy, peer_auth |-> BaseAuthPeer, lifetime |-> I(600), dpd |-> I(60),
             encr |-> Lst(Strs(<<"aes128", "aes256">>)), integ |-> Lst(Strs(<<"sha256">>)), prf |-> Lst(Strs(<<"sha512", "sha256">>)), dh |-> Lst(<<S("ecp256"), I(14)>>),
             protect |-> Lst(<<BaseProtect>>)]

\* ill-typed values of every kind - including the ones a careless "if not value" takes for "nothing given": empty string, zero, false, empty mapping
Generic == {S("abc"), I(5), NegI(3), B(TRUE), Null, Lst(<<>>), Lst(<<S("x")>>), Mp([x |-> S("y")]), Absent, S(""), I(0), B(FALSE), Mp(<<>>),
            F("inf"), F("-inf"), F("nan"), F("1.5"), F("60.0")}
ConnValues(key) ==
  Generic \cup
  CASE key \in {"my_addr", "peer_addr"} -> {S("192.168.0.2"), S("192.168.0.1"), S("10.9.9.9"), S("alice.example"), S("2001:db8::2"), S("not an address")}
    [] key \in {"my_auth", "peer_auth"} -> {Mp([psk |-> S("k")]), Mp([id |-> S("192.168.0.2"), psk |-> S("k")]), Mp([id |-> S("2001:db8::7"), psk |-> S("k")]),
                                             Mp([id |-> S("host.example"), privkey |-> S("PEM-PRIVATE")]),
                                             \* names that a resolver can turn into an address are names all the same (FQDN), not addresses
                                             Mp([id |-> S("alice.example"), psk |-> S("k")]), Mp([id |-> S("10.1"), psk |-> S("k")]), Mp([id |-> S("1234"), psk |-> S("k")]), Mp([id |-> S("bob@example.org"), pubkey |-> S("PEM-PUBLIC")]),
                                             Mp([id |-> S("a"), privkey |-> S("garbage")]), Mp([id |-> S("a"), pubkey |-> I(7)]), Mp([id |-> S("a"), pubkey |-> S("PEM-UNKNOWN-ALGORITHM")]), Mp([id |-> S("a"), privkey |-> S("PEM-PUBLIC")]), Mp([id |-> I(5), psk |-> S("k")]),
                                             Mp([id |-> S("a"), psk |-> I(5)]), Mp([id |-> Lst(<<>>), psk |-> S("k")]), Mp(<<>>),
                                             \* a secret is an octet string: blanks, tabs and line ends at either end (a YAML block scalar ends in a newline) and letter case are part of it
                                             Mp([id |-> S("a"), psk |-> S(" k")]), Mp([id |-> S("a"), psk |-> S("k ")]), Mp([id |-> S("a"), psk |-> S("k\n")]),
                                             Mp([id |-> S("a"), psk |-> S("\tk")]), Mp([id |-> S("a"), psk |-> S(" ")]), Mp([id |-> S("a"), psk |-> S("K")])}
    [] key \in {"lifetime", "dpd"} -> {I(0), I(1), I(86400), S("60"), S("6o")}
    \* (a list may name the same algorithm twice - by the same name, or by a number and a name of one group: "exactly the listed algorithms in the listed order")
    [] key = "encr" -> {Lst(Strs(<<"aes256">>)), Lst(Strs(<<"aes128", "aes256">>)), Lst(Strs(<<"3des">>)), Lst(<<I(256)>>), S("aes256"), Lst(Strs(<<"aes128", "aes256", "aes128">>))}
    [] key \in {"integ", "prf"} -> {Lst(Strs(<<"sha1", "sha512", "sha256">>)), Lst(Strs(<<"md5">>)), S("sha256"), Lst(<<Null>>), Lst(Strs(<<"sha256", "sha1", "sha256">>))}
    [] key = "dh" -> {Lst(<<I(21), I(19), I(14)>>), Lst(Strs(<<"modp2048", "ecp521">>)), Lst(<<I(1)>>), Lst(Strs(<<"ecp999">>)), I(14), Lst(<<I(14), S("modp2048"), S("14")>>), Lst(<<S("ecp256"), I(19)>>)}
    [] key = "protect" -> {Lst(<<>>), Lst(<<BaseProtect, Mp([index |-> I(6), ipsec_proto |-> S("ah")])>>), BaseProtect, Lst(<<S("x")>>), Lst(<<Mp(<<>>)>>)}
    [] OTHER -> {}
ProtValues(key) ==
  Generic \cup
  CASE key = "ipsec_proto" -> {S("esp"), S("ah"), S("ESP")}
    [] key = "mode" -> {S("tunnel"), S("transport"), S("beet")}
    [] key = "ip_proto" -> {S("udp"), S("any"), S("icmp"), S("sctp")}
    [] key \in {"my_subnet", "peer_subnet"} -> {S("10.1.0.0/24"), S("10.2.0.0/16"), S("2001:db8::/64"), S("192.168.0.2"), S("10.1.0.0/33"), S("nonsense")}
    [] key \in {"my_port", "peer_port"} -> {I(0), I(65535), I(70000), S("23"), S("2x")}
    [] key \in {"lifetime", "index"} -> {I(0), I(300), S("600"), S("soon")}
    [] key = "encr" -> {Lst(Strs(<<"aes128">>)), Lst(Strs(<<"aes999">>)), S("aes128"), Lst(Strs(<<"aes256", "aes256">>))}
    [] key = "integ" -> {Lst(Strs(<<"sha256", "sha512">>)), Lst(Strs(<<"sha3">>)), Lst(Strs(<<"sha512", "sha256", "sha512">>))}
    [] key = "dh" -> {Lst(<<>>), Lst(<<I(14)>>), Lst(Strs(<<"ecp384">>)), Lst(<<I(2)>>), Lst(<<I(14), S("modp2048")>>)}
    [] OTHER -> {}
ConnKeys == {"my_addr", "peer_addr", "my_auth", "peer_auth", "lifetime", "dpd", "encr", "integ", "prf", "dh", "protect", "unknown_key"}
ProtKeys == {"ipsec_proto", "mode", "ip_proto", "my_subnet", "peer_subnet", "my_port", "peer_port", "lifetime", "index", "encr", "integ", "dh", "unknown_key"}

SetKey(f, key, val) == IF val = Absent THEN [x \in DOMAIN f \ {key} |-> f[x]] ELSE [x \in DOMAIN f \cup {key} |-> IF x = key THEN val ELSE f[x]]
ConnSingles == UNION {{[level |-> "conn", key |-> k, val |-> val, top |-> Mp([c1 |-> Mp(SetKey(BaseConn, k, val))])] : val \in ConnValues(k)} : k \in ConnKeys}
ProtSingles == UNION {{[level |-> "protect", key |-> k, val |-> val,
                 top |-> Mp([c1 |-> Mp(SetKey(BaseConn, "protect", Lst(<<Mp(SetKey(BaseProtect.v, k, val))>>)))])] : val \in ProtValues(k)} : k \in ProtKeys}
TopCases == {[level |-> "top", key |-> "-", val |-> x, top |-> x] : x \in {Lst(<<>>), Null, S("x"), I(3), Mp(<<>>), Mp([c1 |-> Lst(<<>>)]), Mp([c1 |-> S("x")]), Mp([c1 |-> Null])}}
             \cup {[level |-> "top", key |-> "two", val |-> Null, top |-> Mp([c1 |-> Mp(BaseConn), c2 |-> Mp(SetKey(BaseConn, "peer_addr", S("10.9.9.9")))])]}
\* every entry is loaded on its own: what an entry (or a connection) means does not depend on what was loaded before it.  Ordered pairs of
\* protect entries - AH / ESP, default and explicit algorithm lists, the same list and the reversed one - in one connection and across two
ProtVariants == { Mp([ipsec_proto |-> S("ah")]), Mp([ipsec_proto |-> S("ah"), encr |-> Lst(Strs(<<"aes128", "aes256">>)), integ |-> Lst(Strs(<<"sha1">>))]),
                  Mp(<<>>), Mp([encr |-> Lst(Strs(<<"aes128", "aes256">>))]), Mp([encr |-> Lst(Strs(<<"aes256", "aes128">>)), integ |-> Lst(Strs(<<"sha1">>))]),
                  Mp([ipsec_proto |-> S("esp"), dh |-> Lst(<<I(14)>>), mode |-> S("transport"), ip_proto |-> S("udp"), my_port |-> I(23), lifetime |-> I(0)]) }
WithIdx(p, n) == Mp(SetKey(p.v, "index", I(n)))
Conn2(prot) == Mp([my_addr |-> S("192.168.0.1"), peer_addr |-> S("10.9.9.9"), my_auth |-> BaseAuthMy, peer_auth |-> BaseAuthPeer, protect |-> Lst(prot)])
MultiCases == {[level |-> "multi", key |-> "pair", val |-> Null, top |-> Mp([c1 |-> Mp(SetKey(BaseConn, "protect", Lst(<<WithIdx(p, 11), WithIdx(q, 12)>>)))])] : p, q \in ProtVariants}
              \cup {[level |-> "multi", key |-> "two-connections", val |-> Null,
                     top |-> Mp([c1 |-> Mp(SetKey(BaseConn, "protect", Lst(<<WithIdx(p, 11)>>))), c2 |-> Conn2(<<WithIdx(q, 12), WithIdx(p, 13)>>)])] : p, q \in ProtVariants}
\* rules that span several keys / empty lists of a connection (the lists of a protect entry may be empty: the defaults of the peer decide)
EmptyLists(keys) == [x \in DOMAIN BaseConn |-> IF x \in keys THEN Lst(<<>>) ELSE BaseConn[x]]
CrossCases == {[level |-> "multi", key |-> "empty-lists", val |-> Null, top |-> Mp([c1 |-> Mp(EmptyLists(ks))])] :
                 ks \in {{"encr", "integ", "prf", "dh"}, {"encr", "integ", "prf"}, {"integ", "prf", "dh"}, {"encr", "dh"}}}
Cases == ConnSingles \cup ProtSingles \cup TopCases \cup MultiCases \cup CrossCases \cup {[level |-> "base", key |-> "-", val |-> Null, top |-> Mp([c1 |-> Mp(BaseConn)])]}

\* Load is total and three-valued on the whole universe; the base dictionary loads
ASSUME \A c \in Cases : Load(c.top).c \in {"ok", "err", "either"}
ASSUME Load(Mp([c1 |-> Mp(BaseConn)])).c = "ok"

Vectors == [cases |-> {[level |-> c.level, key |-> c.key, val |-> c.val, top |-> c.top, out |-> Load(c.top)] : c \in Cases},
            conn_values |-> [k \in ConnKeys |-> ConnValues(k)], prot_values |-> [k \in ProtKeys |-> ProtValues(k)], base |-> BaseConn]
ASSUME OutFile = "" \/ JsonSerialize(OutFile, Vectors)
ASSUME PrintT(<<"CASES", Cardinality(Cases)>>)

VARIABLE dummy
Init == dummy = 0
Next == UNCHANGED dummy
=========================================================================================
