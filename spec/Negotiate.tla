----------------------------------- MODULE Negotiate -----------------------------------
(***************************************************************************************************)
(* C11 - algorithm negotiation (RFC 7296 2.7, 3.3) as pyikev2 is meant to do it:                    *)
(* message.py Proposal.intersection / is_subset, ikesa.py _select_best_sa_proposal, the KE-group     *)
(* rule and the INVALID_KE_PAYLOAD retry rule.  Operators are written from the PROPERTY statement;   *)
(* TLC checks the property on them over the whole universe and writes vectors (binding C).          *)
(***************************************************************************************************)
EXTENDS Naturals, Sequences, FiniteSets, TLC, Json, SequencesExt

CONSTANT OutFile

None == <<>>
T(type, id, kl) == [type |-> type, id |-> id, keylen |-> kl]
ENCR == 1   PRF == 2   INTEG == 3   DH == 4   ESN == 5
E128 == T(ENCR, 12, 128)   E256 == T(ENCR, 12, 256)   E3DES == T(ENCR, 3, 0)   E192 == T(ENCR, 12, 192)
I256 == T(INTEG, 12, 0)   I512 == T(INTEG, 14, 0)   I1 == T(INTEG, 2, 0)
P256 == T(PRF, 5, 0)   P512 == T(PRF, 7, 0)
D19 == T(DH, 19, 0)   D20 == T(DH, 20, 0)   D21 == T(DH, 21, 0)
NOESN == T(ESN, 0, 0)
\* the Key Length attribute is part of a transform's identity in BOTH directions (3.3.5): AES-CBC offered without it is not AES-CBC-128 / -256,
\* an integrity transform offered with one is not the integrity transform without
E0 == T(ENCR, 12, 0)   I256k == T(INTEG, 12, 256)

RangeOf(s) == {s[i] : i \in 1..Len(s)}
Types(p) == {p.transforms[i].type : i \in 1..Len(p.transforms)}
Has(p, t) == \E i \in 1..Len(p.transforms) : p.transforms[i] = t          \* identity = (type, id, key length)

\* ---------------------------------------------------------------------------------------------- the operators
\* for every transform type of `mine`: my FIRST transform of that type that the peer proposal also contains
PickType(mine, other, ty) ==
  LET idx == {i \in 1..Len(mine.transforms) : mine.transforms[i].type = ty /\ Has(other, mine.transforms[i])} IN
  IF idx = {} THEN None ELSE mine.transforms[CHOOSE i \in idx : \A j \in idx : i <= j]
\* the chosen transforms in the order in which my proposal first satisfies each type
Intersection(mine, other) ==
  IF mine.proto # other.proto THEN None
  ELSE IF \E ty \in Types(mine) : PickType(mine, other, ty) = None THEN None
  ELSE LET picks == {PickType(mine, other, ty) : ty \in Types(mine)}
           pos(t) == CHOOSE i \in 1..Len(mine.transforms) : mine.transforms[i] = t /\ \A j \in 1..(i - 1) : mine.transforms[j] # t
       IN [proto |-> mine.proto, num |-> other.num, spi |-> other.spi,
           transforms |-> SortSeq(SetToSeq(picks), LAMBDA a, b : pos(a) < pos(b))]
\* first acceptable peer proposal, in the order of the peer's SA payload
RECURSIVE SelectBest(_, _)
SelectBest(mine, sa) == IF sa = <<>> THEN None
                        ELSE IF Intersection(mine, Head(sa)) # None THEN Intersection(mine, Head(sa))
                        ELSE SelectBest(mine, Tail(sa))
\* a response proposal is acceptable iff it is exactly a selection from my offer
SameSet(p, q) == p.proto = q.proto /\ RangeOf(p.transforms) = RangeOf(q.transforms)
IsSubset(p, offer) == Intersection(p, offer) # None /\ SameSet(Intersection(p, offer), p) /\ Len(p.transforms) = Cardinality(RangeOf(p.transforms))
\* KE rule: the KE payload must be in the group of the chosen proposal, else INVALID_KE_PAYLOAD naming the chosen group
InitiatorAccepts(offer, answer) == LET i == Intersection(offer, answer) IN i # None /\ SameSet(i, answer) /\ Len(answer.transforms) = Cardinality(RangeOf(answer.transforms))
DhOf(p) == LET d == {i \in 1..Len(p.transforms) : p.transforms[i].type = DH} IN IF d = {} THEN 0 ELSE p.transforms[CHOOSE i \in d : \A j \in d : i <= j].id
KeRule(chosen, keGroup) == IF DhOf(chosen) = 0 \/ DhOf(chosen) = keGroup THEN [ok |-> TRUE] ELSE [ok |-> FALSE, notify |-> "INVALID_KE_PAYLOAD", group |-> DhOf(chosen)]
\* retry only with a group I offered myself
RetryGroupOk(offer, suggested) == \E i \in 1..Len(offer.transforms) : offer.transforms[i].type = DH /\ offer.transforms[i].id = suggested

\* ---------------------------------------------------------------------------------------------- the universe
SeqsOf(S, n) == UNION {[1..k -> S] : k \in 1..n}
NoRep(s) == \A i, j \in 1..Len(s) : i # j => s[i] # s[j]
Lists(S, n) == {s \in SeqsOf(S, n) : NoRep(s)}
Cat4(a, b, c, d) == a \o b \o c \o d
IkeLocal == {[proto |-> 1, num |-> 1, spi |-> <<>>, transforms |-> Cat4(e, i, p, d)] :
               e \in Lists({E128, E256}, 2), i \in {<<I256>>, <<I512, I256>>}, p \in {<<P256>>}, d \in Lists({D19, D20}, 2)}
IkePeer  == {[proto |-> 1, num |-> n, spi |-> <<7, 7, 7, 7, 7, 7, 7, 7>>, transforms |-> Cat4(e, i, p, d)] : n \in {1},
               e \in Lists({E128, E256}, 2) \cup {<<E3DES>>, <<E3DES, E256>>, <<E192>>, <<E0>>, <<E0, E128>>}, i \in {<<I256>>, <<I512, I256>>, <<I1>>, <<I256k>>},
               p \in {<<P256>>}, d \in {<<D19>>, <<D20, D19>>, <<D21>>, <<>>, <<D21, D19>>}}
ChildLocal == {[proto |-> pr, num |-> 1, spi |-> <<>>, transforms |-> Cat4(IF pr = 3 THEN e ELSE <<>>, i, d, <<NOESN>>)] :
                 pr \in {2, 3}, e \in Lists({E128, E256}, 2), i \in Lists({I256, I512}, 2), d \in {<<>>, <<D19>>, <<D20, D19>>}}
ChildPeer == {[proto |-> pr, num |-> 1, spi |-> <<1, 2, 3, 4>>, transforms |-> Cat4(e, i, d, n)] :
                 pr \in {2, 3}, e \in {<<>>, <<E128>>, <<E256, E128>>, <<E3DES>>, <<E0>>}, i \in {<<I256>>, <<I512, I256>>, <<I1>>, <<I256k, I512>>}, d \in {<<>>, <<D19>>, <<D21>>, <<D19, D20>>, <<D21, D19>>}, n \in {<<NOESN>>, <<>>}}     \* (<<D21, D19>> against a local <<D20, D19>>: three groups - the KE payload in one nobody else has, the local favourite not offered, the third one chosen)

\* peer SA payloads: one proposal, or two (the second taken from a small subset so that the product stays enumerable)
Ik(e, i, d) == [proto |-> 1, num |-> 1, spi |-> <<7, 7, 7, 7, 7, 7, 7, 7>>, transforms |-> Cat4(e, i, <<P256>>, d)]
Ch(pr, e, i, d) == [proto |-> pr, num |-> 1, spi |-> <<1, 2, 3, 4>>, transforms |-> Cat4(e, i, d, <<NOESN>>)]
IkeSas == {<<p>> : p \in IkePeer} \cup
          {<<[p EXCEPT !.num = 1], [q EXCEPT !.num = 2]>> : p \in {Ik(<<E3DES>>, <<I256>>, <<D19>>), Ik(<<E256>>, <<I1>>, <<D19>>), Ik(<<E256>>, <<I256>>, <<D21>>), Ik(<<E128>>, <<I512>>, <<D20>>)},
                      q \in {Ik(<<E256, E128>>, <<I256>>, <<D19>>), Ik(<<E128>>, <<I512, I256>>, <<D20, D19>>), Ik(<<E192>>, <<I256>>, <<D19>>)}}
ChildSas == {<<p>> : p \in ChildPeer} \cup
            {<<[p EXCEPT !.num = 1], [q EXCEPT !.num = 2]>> : p \in {Ch(3, <<E3DES>>, <<I256>>, <<>>), Ch(2, <<>>, <<I1>>, <<>>), Ch(3, <<E256>>, <<I256>>, <<D21>>)},
                      q \in {Ch(3, <<E128, E256>>, <<I256>>, <<>>), Ch(2, <<>>, <<I512, I256>>, <<D19>>), Ch(3, <<E256>>, <<I512>>, <<D19>>)}}

Cases == {[mine |-> m, sa |-> s] : m \in IkeLocal, s \in IkeSas} \cup {[mine |-> m, sa |-> s] : m \in ChildLocal, s \in ChildSas}

\* ---------------------------------------------------------------------------------------------- the property, on the operators
Acceptable(mine, p) == mine.proto = p.proto /\ \A ty \in Types(mine) : \E i \in 1..Len(mine.transforms) : mine.transforms[i].type = ty /\ Has(p, mine.transforms[i])
FirstAcceptable(mine, sa) == LET idx == {i \in 1..Len(sa) : Acceptable(mine, sa[i])} IN IF idx = {} THEN 0 ELSE CHOOSE i \in idx : \A j \in idx : i <= j
ChoiceOk(c) ==
  LET r == SelectBest(c.mine, c.sa)  k == FirstAcceptable(c.mine, c.sa) IN
  IF k = 0 THEN r = None                                           \* nothing acceptable <=> refused
  ELSE /\ r # None
       /\ Len(r.transforms) = Cardinality(Types(c.mine))             \* exactly one transform ...
       /\ {r.transforms[i].type : i \in 1..Len(r.transforms)} = Types(c.mine)     \* ... of each type the local policy requires
       /\ \A i \in 1..Len(r.transforms) : Has(c.mine, r.transforms[i]) /\ Has(c.sa[k], r.transforms[i])     \* (type, id AND key length) in both
       /\ \A i \in 1..Len(r.transforms) :                              \* local preference order within the chosen proposal
            \A j \in 1..Len(c.mine.transforms) :
               (c.mine.transforms[j].type = r.transforms[i].type /\ Has(c.sa[k], c.mine.transforms[j]))
                  => \E jj \in 1..j : c.mine.transforms[jj] = r.transforms[i]
       /\ r.spi = c.sa[k].spi /\ r.num = c.sa[k].num
ASSUME \A c \in Cases : ChoiceOk(c)

\* responses: whatever SelectBest produces is accepted by the offerer; extra / foreign / duplicated-type answers are not
Tamper(r, offer) == { [r EXCEPT !.transforms = Append(@, E3DES)], [r EXCEPT !.transforms = Append(@, D21)],
                      [r EXCEPT !.transforms = Append(@, r.transforms[1])] }
                    \cup (IF Len(r.transforms) > 1 THEN {[r EXCEPT !.transforms = <<E3DES>> \o Tail(@)]} ELSE {})
ResponseOk == \A c \in Cases : LET r == SelectBest(c.mine, c.sa) IN
                r # None => \A k \in 1..Len(c.sa) : (Intersection(c.mine, c.sa[k]) = r) =>
                   /\ IsSubset(r, c.sa[k])
                   /\ \A bad \in Tamper(r, c.sa[k]) : (RangeOf(bad.transforms) \subseteq RangeOf(c.sa[k].transforms) /\ NoRep(bad.transforms)) \/ ~IsSubset(bad, c.sa[k])
ASSUME ResponseOk
ASSUME \A m \in IkeLocal : \A g \in 0..31 : RetryGroupOk(m, g) <=> (g \in {m.transforms[i].id : i \in {j \in 1..Len(m.transforms) : m.transforms[j].type = DH}})

Vectors == [select |-> {[mine |-> c.mine, sa |-> c.sa, out |-> SelectBest(c.mine, c.sa),
                         inter |-> [k \in 1..Len(c.sa) |-> Intersection(c.mine, c.sa[k])]] : c \in Cases},
            subset |-> {[p |-> p, offer |-> o, out |-> IsSubset(p, o)] : p \in {x \in IkePeer : Len(x.transforms) <= 5}, o \in {y \in IkeLocal : Len(y.transforms) >= 6}},
            \* the requester of a CHILD_SA checks the answer: every transform of the answer was offered AND every transform type the local policy requires is there
            \* (an answer without the DH transform to an offer that requires PFS is refused, nothing installed)
            accept |-> {[offer |-> o, answer |-> r, ok |-> InitiatorAccepts(o, r)] :
                          o \in {x \in ChildPeer : Len(x.transforms) >= 3 /\ x.proto = 3},
                          r \in {y \in {SelectBest(m, <<x>>) : m \in ChildLocal, x \in {z \in ChildPeer : z.proto = 3}} : y # None}},
            \* INVALID_KE_PAYLOAD: a suggestion is followed iff it is one of the DH transforms of the offer - the numbers of other transform types
            \* (integrity 14 = HMAC-SHA2-512 is also the number of MODP-2048, 12, 5, 2, 0 ...) do not count
            retry |-> {[offer |-> m, g |-> g, ok |-> RetryGroupOk(m, g)] : m \in {x \in IkeLocal : Len(x.transforms) \in {4, 7}}, g \in 0..31},
            ke |-> {[chosen |-> SelectBest(c.mine, c.sa), group |-> g, out |-> KeRule(SelectBest(c.mine, c.sa), g)] :
                      c \in {x \in Cases : x.mine.proto = 1 /\ Len(x.sa) = 1 /\ SelectBest(x.mine, x.sa) # None /\ Len(x.mine.transforms) <= 5}, g \in {19, 20, 21}}]
ASSUME OutFile = "" \/ JsonSerialize(OutFile, Vectors)
ASSUME PrintT(<<"CASES", Cardinality(Cases), Cardinality(IkeLocal), Cardinality(IkeSas), Cardinality(ChildLocal), Cardinality(ChildSas)>>)

VARIABLE dummy
Init == dummy = 0
Next == UNCHANGED dummy
==========================================================================================
