------------------------------------ MODULE Ike ------------------------------------
(***************************************************************************************************)
(* pyikev2 as a state machine: two endpoints, each with an IKE_SA table (ikesacontroller.py), the   *)
(* 14-state IKE_SA machine (ikesa.py), a kernel SAD as built from netlink requests (xfrm.py) and a  *)
(* network that may duplicate, reorder and lose datagrams.                                           *)
(*                                                                                                   *)
(* The structure follows the call graph of the implementation: one action per public entry point    *)
(* (CtlDispatch = IkeSaController.dispatch_message, CtlAcquire, CtlExpire, the timer methods), one   *)
(* operator per handler of IkeSa (Req* = process_*_request, Res* = process_*_response).  The        *)
(* specification describes the INTENDED behaviour; where the pinned tree deviated (DESIGN.md 8) a   *)
(* boolean constant AsPinned_* switches the action to what the pinned code did.                      *)
(*                                                                                                   *)
(* Abstractions (DESIGN.md 3.3): SPIs are tokens <<endpoint, n>> (n-th SPI drawn by that endpoint);  *)
(* message bodies are semantic summaries; keys are identifiers (equal identifiers = equal octets,   *)
(* checked concretely by the harness against an independent key schedule).                          *)
(***************************************************************************************************)
EXTENDS Naturals, Sequences, FiniteSets, TLC

CONSTANTS
  MaxTrig,          \* budget of local triggers (acquire / expire / timers)
  MaxDup,           \* budget of duplications (delivery that keeps the copy, or a retransmission)
  MaxLoss,          \* budget of lost datagrams
  MaxAdv,           \* budget of datagrams injected by the adversary (C03)
  Triggers,         \* enabled trigger kinds: subset of {"acquire","soft","hard","rekeyike","delike","dpd"}
  IkeDh,            \* [E -> Seq(group)]  IKE DH preference list of each endpoint
  ChildDh,          \* [E -> Seq(group)]  CHILD_SA PFS preference list (<<>> = no PFS)
  CookieThreshold,  \* cookie armed iff #half-open IKE_SAs (incl. the new one) > CookieThreshold
  StartEstablished, \* TRUE: start from one established IKE_SA with one CHILD_SA; FALSE: empty tables
  MaxSpi,           \* state constraint: SPI counters stay <= MaxSpi
  IdleTimers,       \* TRUE: the DPD / rekey / lifetime timers may also come due while the IKE_SA is NOT established (they then do nothing: TimerIdle)
  FreeRetx,         \* TRUE: retransmissions do not draw on the duplication budget (liveness configuration)
  KnownToBothOnly,  \* TRUE: expire triggers only for CHILD_SAs already known to both peers (the carve-out of C09)
  AsPinned_C16      \* TRUE: register the rekeyed IKE_SA on the *state* (pinned tree), FALSE: on the transition

E == {"A", "B"}
Peer(e) == IF e = "A" THEN "B" ELSE "A"
None == <<>>
Zero == <<>>           \* the all-zero SPI

VARIABLES
  sas,     \* [SaId -> SaRec]  every IKE_SA object an endpoint still holds (listed, or successor in waiting)
  table,   \* [E -> Seq(SaId)] IkeSaController.ike_sas: order and multiplicity are observable
  kern,    \* [E -> SUBSET KSa] kernel SAD
  net,     \* set of datagrams in flight
  nspi,    \* [E -> Nat] next SPI counter (Fresh)
  trig, dups, loss, adv,   \* remaining budgets
  dh,      \* [E -> Nat] Diffie-Hellman operations performed (history, hidden by VIEW)
  last     \* label, parameters and outcome of the last action (history, hidden by VIEW)

vars == <<sas, table, kern, net, nspi, trig, dups, loss, adv, dh, last>>

-----------------------------------------------------------------------------------------------------
\* helpers

NoMsg == [x |-> "none"]
Msg(dst, si, sr, x, resp, fi, mid, prot, body) ==
  [dst |-> dst, si |-> si, sr |-> sr, x |-> x, resp |-> resp, fi |-> fi, mid |-> mid, prot |-> prot, body |-> body]

Owner(s) == s[1]
SpiIOf(S, s) == IF S.init THEN s ELSE S.peer
SpiROf(S, s) == IF S.init THEN S.peer ELSE s
\* protection tag of a message sent by S: its keys and its direction
Clear == <<None, "c">>
ProtOf(S) == IF S.keys = None THEN Clear ELSE <<S.keys, IF S.init THEN "i" ELSE "r">>
\* what S accepts: the peer's direction of the same keys
ExpectProt(S) == IF S.keys = None THEN Clear ELSE <<S.keys, IF S.init THEN "r" ELSE "i">>

ReqSentStates == {"NEW_CHILD_REQ_SENT", "REK_CHILD_REQ_SENT", "REK_IKE_SA_REQ_SENT", "DEL_CHILD_REQ_SENT",
                  "DEL_IKE_SA_REQ_SENT", "DEL_AFTER_REKEY_IKE_SA_REQ_SENT", "DPD_REQ_SENT"}
Established10to19 == {"ESTABLISHED"} \cup ReqSentStates
HalfOpenStates == {"INITIAL", "INIT_RES_SENT", "INIT_REQ_SENT", "AUTH_REQ_SENT"}
WaitingStates == ReqSentStates \cup {"INIT_REQ_SENT", "AUTH_REQ_SENT"}
RekeyedStates == {"REKEYED", "DEL_AFTER_REKEY_IKE_SA_REQ_SENT"}

Listed(e) == {table[e][i] : i \in 1..Len(table[e])}
KidBySpi(S, spi) == {k \in S.kids : k.in = spi \/ k.out = spi}

\* A CHILD_SA as tracked by an endpoint: inbound / outbound SPI, the exchange that produced its KEYMAT
\* (km = <<SPI offered by the exchange initiator, SPI answered by the exchange responder>>) and whether this
\* endpoint was the exchange initiator (xi).  RFC 7296 2.17: the SA carrying traffic from the exchange
\* initiator to the responder takes the first ("i") half of KEYMAT.
Kid(in, out, km, xi) == [in |-> in, out |-> out, km |-> km, xi |-> xi]
KernOf(e, k) == { [dst |-> e,       spi |-> k.in,  km |-> k.km, slot |-> IF k.xi THEN "r" ELSE "i"],
                  [dst |-> Peer(e), spi |-> k.out, km |-> k.km, slot |-> IF k.xi THEN "i" ELSE "r"] }

BlankSa(init, peer, st) ==
  [st |-> st, init |-> init, peer |-> peer, myMid |-> 0, peerMid |-> 0, req |-> NoMsg, lastResp |-> NoMsg,
   kids |-> {}, creating |-> None, rekeying |-> None, deleting |-> None, newSa |-> None, pending |-> <<>>,
   cookie |-> FALSE, keys |-> None, iv |-> None, group |-> 0]
   \* iv: version <<#cookies, DH generation>> of the IKE_SA_INIT request this side sent / answered (C02: "own view")

InSeq(x, q) == \E i \in 1..Len(q) : q[i] = x
\* first element of `mine` that also occurs in `offer` (0 if none): local preference order
FirstCommon(mine, offer) ==
  IF \E i \in 1..Len(mine) : InSeq(mine[i], offer)
  THEN mine[CHOOSE i \in 1..Len(mine) : InSeq(mine[i], offer) /\ \A j \in 1..(i-1) : ~InSeq(mine[j], offer)]
  ELSE 0
First(q) == IF q = <<>> THEN 0 ELSE q[1]

KeyId(si, sr, gi, gr) == <<si, sr, gi, gr>>

-----------------------------------------------------------------------------------------------------
\* initial states

\* one established IKE_SA with one CHILD_SA, as the initial exchanges started by A leave it (with an INVALID_KE_PAYLOAD retry
\* when B prefers another group than A's first: B then burnt one SPI on the IKE_SA it refused)
EstabInit ==
  LET g  == FirstCommon(IkeDh["B"], IkeDh["A"])
      rt == IF g = First(IkeDh["A"]) THEN 0 ELSE 1
      sb == <<"B", 1 + rt>>
      cb == <<"B", 2 + rt>>
      ka == KeyId(<<"A", 1>>, sb, rt, rt)
      km == << <<"A", 2>>, cb >>
      a  == [BlankSa(TRUE, sb, "ESTABLISHED") EXCEPT !.myMid = 2, !.keys = ka, !.iv = <<0, rt>>,
                !.kids = {Kid(<<"A", 2>>, cb, km, TRUE)}, !.group = g, !.creating = <<"A", 2>>]
      b  == [BlankSa(FALSE, <<"A", 1>>, "ESTABLISHED") EXCEPT !.peerMid = 2, !.keys = ka, !.iv = <<0, rt>>,
                !.kids = {Kid(cb, <<"A", 2>>, km, FALSE)}, !.group = g,
                !.lastResp = Msg("A", <<"A", 1>>, sb, "AUTH", TRUE, FALSE, 1, <<ka, "r">>,
                                 [kind |-> "auth_ok", child |-> cb])]
  IN /\ sas = (<<"A", 1>> :> a) @@ (sb :> b)
     /\ table = [e \in E |-> << IF e = "A" THEN <<"A", 1>> ELSE sb >>]
     /\ kern = [e \in E |-> KernOf(e, CHOOSE k \in (IF e = "A" THEN a.kids ELSE b.kids) : TRUE)]
     /\ nspi = [e \in E |-> IF e = "A" THEN 3 ELSE 3 + rt]
     /\ dh = [e \in E |-> 2 + rt]

EmptyInit ==
  /\ sas = << >>
  /\ table = [e \in E |-> <<>>]
  /\ kern = [e \in E |-> {}]
  /\ nspi = [e \in E |-> 1]
  /\ dh = [e \in E |-> 0]

Init ==
  /\ IF StartEstablished THEN EstabInit ELSE EmptyInit
  /\ net = {}
  /\ trig = MaxTrig /\ dups = MaxDup /\ loss = MaxLoss /\ adv = MaxAdv
  /\ last = [a |-> "Init"]

-----------------------------------------------------------------------------------------------------
\* local events on one IKE_SA (IkeSa.process_acquire / process_expire and the timer methods)
\* result: [sa, out (request body record or None), fresh (#SPI draws), dh (#DH operations)]

Ev(S, out, fresh, d) == [sa |-> S, out |-> out, fresh |-> fresh, dh |-> d]
OutReq(x, body) == [x |-> x, body |-> body]

\* ikesa.py:377-399
SaAcquire(S, e, s, n) ==
  IF S.st = "INITIAL" THEN
     LET c == <<e, n>>  g == First(IkeDh[e]) IN
     Ev([S EXCEPT !.st = "INIT_REQ_SENT", !.creating = c, !.iv = <<0, 0>>, !.group = g],
        OutReq("INIT", [kind |-> "init_req", cookies |-> 0, gen |-> 0, group |-> g, offer |-> IkeDh[e]]), 1, 1)
  ELSE IF S.st = "ESTABLISHED" THEN
     LET c == <<e, n>>  g == First(ChildDh[e]) IN
     Ev([S EXCEPT !.st = "NEW_CHILD_REQ_SENT", !.creating = c],
        OutReq("CCSA", [kind |-> "new_child", new |-> c, group |-> g, offer |-> ChildDh[e]]), 1, IF g = 0 THEN 0 ELSE 1)
  ELSE Ev([S EXCEPT !.pending = Append(@, [ev |-> "acquire"])], None, 0, 0)

\* ikesa.py:401-426
SaExpire(S, e, s, n, spi, hard) ==
  IF S.st # "ESTABLISHED" THEN
     Ev([S EXCEPT !.pending = Append(@, [ev |-> "expire", spi |-> spi, hard |-> hard])], None, 0, 0)
  ELSE IF KidBySpi(S, spi) = {} THEN Ev(S, None, 0, 0)
  ELSE LET k == CHOOSE k \in KidBySpi(S, spi) : TRUE IN
     IF hard THEN
        Ev([S EXCEPT !.st = "DEL_CHILD_REQ_SENT", !.deleting = k], OutReq("INFO", [kind |-> "del_child", spi |-> k.in]), 0, 0)
     ELSE
        LET c == <<e, n>>  g == First(ChildDh[e]) IN
        Ev([S EXCEPT !.st = "REK_CHILD_REQ_SENT", !.creating = c, !.rekeying = k],
           OutReq("CCSA", [kind |-> "rekey_child", spi |-> k.in, new |-> c, group |-> g, offer |-> ChildDh[e]]),
           1, IF g = 0 THEN 0 ELSE 1)

\* pending events are replayed in order until one produces a request (ikesa.py:335-343)
RECURSIVE Drain(_, _, _, _)
Drain(S, e, s, n) ==
  IF S.st # "ESTABLISHED" \/ S.pending = <<>> THEN Ev(S, None, 0, 0)
  ELSE LET ev == Head(S.pending)
           S1 == [S EXCEPT !.pending = Tail(@)]
           r  == IF ev.ev = "acquire" THEN SaAcquire(S1, e, s, n) ELSE SaExpire(S1, e, s, n, ev.spi, ev.hard)
       IN IF r.out # None THEN r ELSE Drain(r.sa, e, s, n)

\* the datagram a request body becomes (IkeSa.generate_request): stamped with my next Message ID
ReqMsg(S, e, s, o) ==
  Msg(Peer(e), SpiIOf(S, s), SpiROf(S, s), o.x, FALSE, S.init, S.myMid, IF o.x = "INIT" THEN Clear ELSE ProtOf(S), o.body)

-----------------------------------------------------------------------------------------------------
\* controller post-processing (ikesacontroller.py:71-80 and the reap in main_loop:180-183)
\*   s: the IKE_SA that was handed the event; was: its state before; sas1/kern1: maps after the handler
Post(e, s, was, sas1, kern1) ==
  LET st == sas1[s].st
      t0 == IF s \in Listed(e) THEN table[e] ELSE Append(table[e], s)
      \* a responder IKE_SA that could not even process its IKE_SA_INIT request is dropped
      dropInitial == st = "INITIAL" /\ ~sas1[s].init /\ was = "NEW"
      t1 == IF st \in RekeyedStates /\ (AsPinned_C16 \/ was \notin RekeyedStates) THEN Append(t0, sas1[s].newSa) ELSE t0
      gone == st = "DELETED" \/ dropInitial
      t2 == IF gone THEN SelectSeq(t1, LAMBDA x : x # s) ELSE t1
      k2 == IF st = "DELETED" THEN kern1 \ UNION {KernOf(e, k) : k \in sas1[s].kids} ELSE kern1
      \* the successor-in-waiting of a deleted IKE_SA is unreachable
      dead == IF gone THEN {s} ELSE {}
      keep == DOMAIN sas1 \ dead
  IN /\ table' = [table EXCEPT ![e] = t2]
     /\ kern' = [kern EXCEPT ![e] = k2]
     /\ sas' = [x \in keep |-> sas1[x]]

-----------------------------------------------------------------------------------------------------
\* local triggers (entry points of the controller / timer sweep)

UseTrig(kind) == kind \in Triggers /\ trig > 0 /\ trig' = trig - 1 /\ UNCHANGED <<dups, loss, adv>>

\* ikesacontroller.py process_acquire: re-use the first listed IKE_SA with the peer that still takes new work (2 endpoints: every IKE_SA is with the peer) -
\* an IKE_SA that has been rekeyed or is being deleted does not: its successor, or a new IKE_SA, serves the ACQUIRE - or create one
ClosingStates == {"REKEYED", "DEL_AFTER_REKEY_IKE_SA_REQ_SENT", "DEL_IKE_SA_REQ_SENT", "DELETED"}
\* (... nor does a half-open responder: whoever sent its IKE_SA_INIT request has proven nothing yet and may never go on)
UsableIdx(e) == {i \in 1..Len(table[e]) : sas[table[e][i]].st \notin ClosingStates \cup {"INIT_RES_SENT"}}
CtlAcquire(e) ==
  /\ UseTrig("acquire")
  /\ LET exists == UsableIdx(e) # {}
         s  == IF exists THEN table[e][CHOOSE i \in UsableIdx(e) : \A j \in UsableIdx(e) : i <= j] ELSE <<e, nspi[e]>>
         S0 == IF exists THEN sas[s] ELSE BlankSa(TRUE, Zero, "INITIAL")
         n  == IF exists THEN nspi[e] ELSE nspi[e] + 1
         r  == SaAcquire(S0, e, s, n)
         m  == IF r.out = None THEN NoMsg ELSE ReqMsg(r.sa, e, s, r.out)
         S1 == IF r.out = None THEN r.sa ELSE [r.sa EXCEPT !.req = m]
     IN /\ net' = IF r.out = None THEN net ELSE net \cup {m}
        /\ nspi' = [nspi EXCEPT ![e] = n + r.fresh]
        /\ dh' = [dh EXCEPT ![e] = @ + r.dh]
        /\ Post(e, s, IF exists THEN sas[s].st ELSE "NEWI", (s :> S1) @@ sas, kern[e])
        /\ last' = [a |-> "CtlAcquire", e |-> e, out |-> m]

\* ikesacontroller.py:111-119: the first listed IKE_SA that owns the SPI
ExpireOwner(e, spi) ==
  LET idx == {i \in 1..Len(table[e]) : KidBySpi(sas[table[e][i]], spi) # {}} IN
  IF idx = {} THEN None ELSE table[e][CHOOSE i \in idx : \A j \in idx : i <= j]

KnownToBoth(e, spi) == \E x \in Listed(Peer(e)) : \E k \in sas[x].kids : k.out = spi
CtlExpire(e, spi, hard) ==
  /\ UseTrig(IF hard THEN "hard" ELSE "soft")
  /\ KnownToBothOnly => KnownToBoth(e, spi)
  /\ LET s == ExpireOwner(e, spi) IN
     /\ s # None
     /\ LET r == SaExpire(sas[s], e, s, nspi[e], spi, hard)
            m == IF r.out = None THEN NoMsg ELSE ReqMsg(r.sa, e, s, r.out)
            S1 == IF r.out = None THEN r.sa ELSE [r.sa EXCEPT !.req = m]
        IN /\ net' = IF r.out = None THEN net ELSE net \cup {m}
           /\ nspi' = [nspi EXCEPT ![e] = @ + r.fresh]
           /\ dh' = [dh EXCEPT ![e] = @ + r.dh]
           /\ Post(e, s, sas[s].st, [sas EXCEPT ![s] = S1], kern[e])
           /\ last' = [a |-> "CtlExpire", e |-> e, spi |-> spi, hard |-> hard, out |-> m]

\* timer-driven requests of an ESTABLISHED IKE_SA (ikesa.py:428-450)
TimerReq(s, kind, st, x, body, upd, fresh, d, name) ==
  LET S == sas[s]  e == Owner(s)
      S1 == [upd EXCEPT !.st = st]
      m == ReqMsg(S1, e, s, OutReq(x, body)) IN
  /\ UseTrig(kind) /\ S.st = "ESTABLISHED" /\ s \in Listed(e)
  /\ net' = net \cup {m}
  /\ nspi' = [nspi EXCEPT ![e] = @ + fresh]
  /\ dh' = [dh EXCEPT ![e] = @ + d]
  /\ Post(e, s, S.st, [sas EXCEPT ![s] = [S1 EXCEPT !.req = m]], kern[e])
  /\ last' = [a |-> name, s |-> s, out |-> m]

TrigRekeyIke(s) ==
  LET e == Owner(s)  c == <<e, nspi[e]>>  g == First(IkeDh[e]) IN
  TimerReq(s, "rekeyike", "REK_IKE_SA_REQ_SENT", "CCSA", [kind |-> "rekey_ike", new |-> c, group |-> g, offer |-> IkeDh[e]],
           [sas[s] EXCEPT !.newSa = c], 1, 1, "TrigRekeyIke")
TrigDeleteIke(s) == TimerReq(s, "delike", "DEL_IKE_SA_REQ_SENT", "INFO", [kind |-> "del_ike"], sas[s], 0, 0, "TrigDeleteIke")
TrigDpd(s)       == TimerReq(s, "dpd", "DPD_REQ_SENT", "INFO", [kind |-> "dpd"], sas[s], 0, 0, "TrigDpd")

\* a DPD / rekey / hard-lifetime deadline passes while the IKE_SA is busy, half-open, already rekeyed ...: the timer section of main_loop visits it and nothing
\* happens (check_dead_peer_detection_timer / check_rekey_ike_sa_timer act on ESTABLISHED only); the deadline stays due and fires once the IKE_SA is idle again
TimerIdle(s, which) ==
  /\ IdleTimers /\ which \in {"rekeyike", "delike", "dpd"}
  /\ s \in Listed(Owner(s)) /\ sas[s].st # "ESTABLISHED"
  /\ UseTrig(which)
  /\ UNCHANGED <<sas, table, kern, net, nspi, dh>>
  /\ last' = [a |-> "TimerIdle", s |-> s, which |-> which, out |-> NoMsg]

\* check_retransmission_timer (ikesa.py:860-874), abstract time: the stored request goes out again, unchanged
Retransmit(s) ==
  /\ s \in Listed(Owner(s)) /\ sas[s].st \in WaitingStates /\ sas[s].req # NoMsg /\ sas[s].req \notin net
  /\ IF FreeRetx THEN dups' = dups ELSE dups > 0 /\ dups' = dups - 1
  /\ net' = net \cup {sas[s].req}
  /\ UNCHANGED <<sas, table, kern, nspi, trig, loss, adv, dh>>
  /\ last' = [a |-> "Retransmit", s |-> s, out |-> sas[s].req]

\* ... and after the budget the IKE_SA is closed unilaterally and reaped with its kernel SAs
\* (a give-up means every transmission or its answer was lost: it draws on the loss budget)
GiveUp(s) ==
  /\ s \in Listed(Owner(s)) /\ sas[s].st \in WaitingStates /\ sas[s].req \notin net
  /\ IF FreeRetx THEN loss' = loss ELSE loss > 0 /\ loss' = loss - 1
  /\ Post(Owner(s), s, sas[s].st, [sas EXCEPT ![s].st = "DELETED"], kern[Owner(s)])
  /\ UNCHANGED <<net, nspi, trig, dups, adv, dh>>
  /\ last' = [a |-> "GiveUp", s |-> s, out |-> NoMsg]

-----------------------------------------------------------------------------------------------------
\* request handlers.  result: [sa, body, new (successor SaRec or None), kadd, kdel, fresh, dh]

Rq(S, body, new, kadd, kdel, fresh, d) == [sa |-> S, body |-> body, new |-> new, kadd |-> kadd, kdel |-> kdel, fresh |-> fresh, dh |-> d]
Notify(n) == [kind |-> "notify", n |-> n]
Fatal(S, n) == Rq([S EXCEPT !.st = "DELETED"], Notify(n), None, {}, {}, 0, 0)
Refuse(S, n) == Rq(S, Notify(n), None, {}, {}, 0, 0)

\* ikesa.py:452-520
ReqInit(e, s, S, m) ==
  IF S.st # "INITIAL" THEN Fatal(S, "INVALID_SYNTAX")
  ELSE IF S.cookie /\ m.body.cookies = 0 THEN Fatal(S, "COOKIE")                    \* checked before any negotiation work
  ELSE LET chosen == FirstCommon(IkeDh[e], m.body.offer) IN
       IF chosen = 0 THEN Fatal(S, "NO_PROPOSAL_CHOSEN")
       ELSE IF m.body.group # chosen THEN Rq([S EXCEPT !.st = "DELETED"], [kind |-> "notify", n |-> "INVALID_KE_PAYLOAD", group |-> chosen], None, {}, {}, 0, 0)
       ELSE Rq([S EXCEPT !.st = "INIT_RES_SENT", !.group = chosen, !.iv = <<m.body.cookies, m.body.gen>>,
                         !.keys = KeyId(m.si, s, m.body.gen, m.body.gen)],
               [kind |-> "init_ok", group |-> chosen, gen |-> m.body.gen], None, {}, {}, 0, 2)

\* the CHILD_SA part shared by IKE_AUTH and CREATE_CHILD_SA (ikesa.py:744-851); pfs = FALSE inside IKE_AUTH
\* returns [ok, body-fields or notify, nk]
NegChild(e, S, body, n, pfs) ==
  LET chosen == IF pfs THEN FirstCommon(ChildDh[e], body.offer) ELSE 0 IN
  IF pfs /\ ChildDh[e] # <<>> /\ chosen = 0 THEN [ok |-> FALSE, n |-> Notify("NO_PROPOSAL_CHOSEN")]
  ELSE IF pfs /\ chosen # 0 /\ body.group # chosen THEN [ok |-> FALSE, n |-> [kind |-> "notify", n |-> "INVALID_KE_PAYLOAD", group |-> chosen]]
  ELSE [ok |-> TRUE, group |-> chosen, nk |-> Kid(<<e, n>>, body.new, <<body.new, <<e, n>>>>, FALSE)]

\* ikesa.py:876-918
ReqAuth(e, s, S, m, n) ==
  IF S.st # "INIT_RES_SENT" THEN Fatal(S, "INVALID_SYNTAX")
  ELSE IF m.body.iv # S.iv THEN Fatal(S, "AUTHENTICATION_FAILED")          \* AUTH over *my* view of IKE_SA_INIT
  ELSE LET c == NegChild(e, S, [new |-> m.body.child, offer |-> <<>>, group |-> 0], n, FALSE) IN
       Rq([S EXCEPT !.st = "ESTABLISHED", !.kids = {c.nk}], [kind |-> "auth_ok", child |-> <<e, n>>], None, KernOf(e, c.nk), {}, 1, 0)

\* ikesa.py:1096-1124
ReqCreateChild(e, s, S, m, n) ==
  IF S.st \notin Established10to19 THEN Fatal(S, "INVALID_SYNTAX")
  ELSE IF m.body.kind = "rekey_ike" THEN
     IF S.st # "ESTABLISHED" THEN Refuse(S, "TEMPORARY_FAILURE")
     ELSE LET chosen == FirstCommon(IkeDh[e], m.body.offer) IN
          \* the candidate successor is created (one SPI drawn) before the negotiation can fail; nothing is handed over then
          IF chosen = 0 THEN Rq(S, Notify("NO_PROPOSAL_CHOSEN"), None, {}, {}, 1, 0)
          ELSE IF m.body.group # chosen THEN Rq(S, [kind |-> "notify", n |-> "INVALID_KE_PAYLOAD", group |-> chosen], None, {}, {}, 1, 0)
          ELSE Rq([S EXCEPT !.st = "REKEYED", !.kids = {}, !.newSa = <<e, n>>],
                  [kind |-> "rekey_ike_ok", new |-> <<e, n>>, group |-> chosen],
                  [BlankSa(FALSE, m.body.new, "ESTABLISHED") EXCEPT !.kids = S.kids, !.group = chosen,
                                                                    !.keys = KeyId(m.body.new, <<e, n>>, 0, 0)],
                  {}, {}, 1, 2)
  ELSE \* new_child / rekey_child: the collision table of RFC 7296 2.25 as pyikev2 implements it
     IF S.st \in {"REK_IKE_SA_REQ_SENT", "DEL_IKE_SA_REQ_SENT"} THEN Refuse(S, "TEMPORARY_FAILURE")
     ELSE IF m.body.kind = "rekey_child" /\ KidBySpi(S, m.body.spi) = {} THEN Refuse(S, "CHILD_SA_NOT_FOUND")
     ELSE IF m.body.kind = "rekey_child" /\
             LET k == CHOOSE k \in KidBySpi(S, m.body.spi) : TRUE IN
                (S.st = "DEL_CHILD_REQ_SENT" /\ S.deleting = k) \/ (S.st = "REK_CHILD_REQ_SENT" /\ S.rekeying = k)
          THEN Refuse(S, "TEMPORARY_FAILURE")
     ELSE LET c == NegChild(e, S, m.body, n, TRUE) IN
          IF ~c.ok THEN Rq(S, c.n, None, {}, {}, 0, 0)
          ELSE Rq([S EXCEPT !.kids = @ \cup {c.nk}], [kind |-> "child_ok", spi |-> <<e, n>>, group |-> c.group], None,
                  KernOf(e, c.nk), {}, 1, IF c.group = 0 THEN 0 ELSE 2)

\* ikesa.py:1064-1094
ReqInformational(e, s, S, m) ==
  IF S.st \notin (Established10to19 \cup {"REKEYED"}) THEN Fatal(S, "INVALID_SYNTAX")
  ELSE IF m.body.kind = "del_ike" THEN Rq([S EXCEPT !.st = "DELETED"], [kind |-> "empty"], None, {}, {}, 0, 0)
  ELSE IF m.body.kind = "del_child" THEN
     LET ks == KidBySpi(S, m.body.spi) IN
     IF ks = {} THEN Rq(S, [kind |-> "empty"], None, {}, {}, 0, 0)
     ELSE LET k == CHOOSE k \in ks : TRUE IN
          Rq([S EXCEPT !.kids = @ \ {k}], [kind |-> "del_child", spi |-> k.in], None, {}, KernOf(e, k), 0, 0)
  ELSE Rq(S, [kind |-> "empty"], None, {}, {}, 0, 0)      \* liveness check

HandleRequest(e, s, S, m, n) ==
  IF m.x = "INIT" THEN ReqInit(e, s, S, m)
  ELSE IF m.x = "AUTH" THEN ReqAuth(e, s, S, m, n)
  ELSE IF m.x = "CCSA" THEN ReqCreateChild(e, s, S, m, n)
  ELSE ReqInformational(e, s, S, m)

Rest(m, keep) == IF keep THEN net ELSE net \ {m}

\* IkeSa._process_request (ikesa.py:257-299): the Message-ID window
\*   S: the record as it enters process_message; nBase: SPI counter after a possible responder creation; sasBase: map incl. S
SaRequest(e, s, S, was, m, keep, nBase, sasBase) ==
  IF m.mid + 1 = S.peerMid THEN                      \* copy of the previous request: cached response, nothing else
     /\ net' = Rest(m, keep) \cup {S.lastResp}
     /\ nspi' = [nspi EXCEPT ![e] = nBase]
     /\ dh' = dh
     /\ Post(e, s, was, sasBase, kern[e])
     /\ last' = [a |-> "Deliver", m |-> m, keep |-> keep, how |-> "replay", to |-> s, out |-> S.lastResp]
  ELSE IF m.mid # S.peerMid THEN                     \* any other ID: dropped without effect
     /\ net' = Rest(m, keep)
     /\ nspi' = [nspi EXCEPT ![e] = nBase]
     /\ dh' = dh
     /\ Post(e, s, was, sasBase, kern[e])
     /\ last' = [a |-> "Deliver", m |-> m, keep |-> keep, how |-> "drop", to |-> s, out |-> NoMsg]
  ELSE
     LET r  == HandleRequest(e, s, S, m, nBase)
         rm == Msg(Peer(e), SpiIOf(S, s), SpiROf(S, s), m.x, TRUE, S.init, S.peerMid,
                   IF m.x = "INIT" THEN Clear ELSE ProtOf(S), r.body)
         s2 == [r.sa EXCEPT !.peerMid = S.peerMid + 1, !.lastResp = rm]
         sasA == (s :> s2) @@ sasBase
         sasB == IF r.new = None THEN sasA ELSE (<<e, nBase>> :> r.new) @@ sasA
     IN /\ net' = Rest(m, keep) \cup {rm}
        /\ nspi' = [nspi EXCEPT ![e] = nBase + r.fresh]
        /\ dh' = [dh EXCEPT ![e] = @ + r.dh]
        /\ Post(e, s, was, sasB, (kern[e] \cup r.kadd) \ r.kdel)
        /\ last' = [a |-> "Deliver", m |-> m, keep |-> keep, how |-> "exec", to |-> s, out |-> rm]

-----------------------------------------------------------------------------------------------------
\* response handlers.  result: [sa, out (follow-up request or None), new (successor SaRec or None), kadd, kdel, dh]

Rs(S, out, new, kadd, kdel, d) == [sa |-> S, out |-> out, new |-> new, kadd |-> kadd, kdel |-> kdel, dh |-> d]
Dead(S) == Rs([S EXCEPT !.st = "DELETED"], None, None, {}, {}, 0)
IsNotify(m, n) == m.body.kind = "notify" /\ m.body.n = n

\* IkeSa.handle_invalid_ke (ikesa.py:1132-1147): retry only inside my own offer
RetryOk(offer, g) == InSeq(g, offer)

\* ikesa.py:678-710
ResInit(e, s, S, m) ==
  IF S.st # "INIT_REQ_SENT" THEN Dead(S)
  ELSE IF IsNotify(m, "INVALID_KE_PAYLOAD") THEN
     IF ~RetryOk(S.req.body.offer, m.body.group) THEN Dead(S)
     ELSE LET v == <<S.iv[1], S.iv[2] + 1>> IN
          Rs([S EXCEPT !.myMid = 0, !.group = m.body.group, !.iv = v],
             OutReq("INIT", [S.req.body EXCEPT !.group = m.body.group, !.gen = v[2]]), None, {}, {}, 1)
  ELSE IF IsNotify(m, "COOKIE") THEN
     LET v == <<S.iv[1] + 1, S.iv[2]>> IN
     Rs([S EXCEPT !.myMid = 0, !.iv = v], OutReq("INIT", [S.req.body EXCEPT !.cookies = v[1]]), None, {}, {}, 0)
  ELSE IF m.body.kind = "notify" THEN Dead(S)
  ELSE IF m.body.group # S.group THEN Dead(S)                                       \* response proposal not in my offer / KE mismatch
  ELSE LET S1 == [S EXCEPT !.st = "AUTH_REQ_SENT", !.peer = m.sr, !.keys = KeyId(s, m.sr, S.iv[2], m.body.gen)] IN
       Rs(S1, OutReq("AUTH", [kind |-> "auth_req", child |-> S.creating, iv |-> S.iv]), None, {}, {}, 1)

\* ikesa.py:988-1019
ResAuth(e, s, S, m) ==
  IF S.st # "AUTH_REQ_SENT" \/ m.body.kind = "notify" THEN Dead(S)
  ELSE LET nk == Kid(S.creating, m.body.child, <<S.creating, m.body.child>>, TRUE) IN
       Rs([S EXCEPT !.st = "ESTABLISHED", !.kids = @ \cup {nk}], None, None, KernOf(e, nk), {}, 0)

\* ikesa.py:1149-1215
ResCreateChild(e, s, S, m) ==
  IF S.st \notin {"NEW_CHILD_REQ_SENT", "REK_CHILD_REQ_SENT", "REK_IKE_SA_REQ_SENT"} THEN Dead(S)
  ELSE IF m.body.kind = "notify" /\ m.body.n \in {"INVALID_SYNTAX", "AUTHENTICATION_FAILED"} THEN Dead(S)
  ELSE IF S.st = "REK_IKE_SA_REQ_SENT" THEN
     IF IsNotify(m, "INVALID_KE_PAYLOAD") THEN
        IF ~RetryOk(S.req.body.offer, m.body.group) THEN Dead(S)
        ELSE Rs(S, OutReq("CCSA", [S.req.body EXCEPT !.group = m.body.group]), None, {}, {}, 1)
     ELSE IF IsNotify(m, "TEMPORARY_FAILURE") THEN Rs([S EXCEPT !.st = "ESTABLISHED"], None, None, {}, {}, 0)
     ELSE IF IsNotify(m, "NO_ADDITIONAL_SAS") THEN
        Rs([S EXCEPT !.st = "DEL_IKE_SA_REQ_SENT"], OutReq("INFO", [kind |-> "del_ike"]), None, {}, {}, 0)
     ELSE IF m.body.kind = "notify" THEN Dead(S)
     ELSE IF m.body.group # S.req.body.group THEN Dead(S)
     ELSE Rs([S EXCEPT !.st = "DEL_AFTER_REKEY_IKE_SA_REQ_SENT", !.kids = {}],
             OutReq("INFO", [kind |-> "del_ike"]),
             [BlankSa(TRUE, m.body.new, "ESTABLISHED") EXCEPT !.kids = S.kids, !.group = m.body.group,
                                                              !.keys = KeyId(S.newSa, m.body.new, 0, 0)],
             {}, {}, 1)
  ELSE \* NEW_CHILD_REQ_SENT / REK_CHILD_REQ_SENT
     IF IsNotify(m, "INVALID_KE_PAYLOAD") THEN
        IF ~RetryOk(S.req.body.offer, m.body.group) THEN Dead(S)
        ELSE Rs(S, OutReq("CCSA", [S.req.body EXCEPT !.group = m.body.group]), None, {}, {}, 1)
     ELSE IF m.body.kind = "notify" THEN Rs([S EXCEPT !.st = "ESTABLISHED"], None, None, {}, {}, 0)
     ELSE LET nk == Kid(S.creating, m.body.spi, <<S.creating, m.body.spi>>, TRUE)
              kids1 == S.kids \cup {nk}
              d == IF m.body.group = 0 THEN 0 ELSE 1 IN
        IF S.st = "REK_CHILD_REQ_SENT" /\ S.rekeying \in S.kids THEN
           Rs([S EXCEPT !.st = "DEL_CHILD_REQ_SENT", !.kids = kids1, !.deleting = S.rekeying],
              OutReq("INFO", [kind |-> "del_child", spi |-> S.rekeying.in]), None, KernOf(e, nk), {}, d)
        ELSE Rs([S EXCEPT !.st = "ESTABLISHED", !.kids = kids1], None, None, KernOf(e, nk), {}, d)

\* ikesa.py:1217-1242
ResInformational(e, s, S, m) ==
  IF m.body.kind = "notify" THEN Dead(S)
  ELSE IF S.st = "DEL_CHILD_REQ_SENT" THEN
     IF S.deleting \in S.kids THEN Rs([S EXCEPT !.st = "ESTABLISHED", !.kids = @ \ {S.deleting}], None, None, {}, KernOf(e, S.deleting), 0)
     ELSE Rs([S EXCEPT !.st = "ESTABLISHED"], None, None, {}, {}, 0)
  ELSE IF S.st \in {"DEL_IKE_SA_REQ_SENT", "DEL_AFTER_REKEY_IKE_SA_REQ_SENT"} THEN Dead(S)
  ELSE IF S.st = "DPD_REQ_SENT" THEN Rs([S EXCEPT !.st = "ESTABLISHED"], None, None, {}, {}, 0)
  ELSE Dead(S)

HandleResponse(e, s, S, m) ==
  IF m.x = "INIT" THEN ResInit(e, s, S, m)
  ELSE IF m.x = "AUTH" THEN ResAuth(e, s, S, m)
  ELSE IF m.x = "CCSA" THEN ResCreateChild(e, s, S, m)
  ELSE ResInformational(e, s, S, m)

\* IkeSa._process_response (ikesa.py:308-352)
SaResponse(e, s, m, keep) ==
  LET S == sas[s] IN
  IF m.mid # S.myMid THEN                               \* only the single outstanding request can be answered
     /\ net' = Rest(m, keep)
     /\ UNCHANGED <<nspi, dh>>
     /\ Post(e, s, S.st, sas, kern[e])
     /\ last' = [a |-> "Deliver", m |-> m, keep |-> keep, how |-> "drop", to |-> s, out |-> NoMsg]
  ELSE
     LET S1 == [S EXCEPT !.myMid = @ + 1]
         r  == HandleResponse(e, s, S1, m)
         \* a follow-up request, else the pending events when back in ESTABLISHED
         d  == IF r.out = None THEN Drain(r.sa, e, s, nspi[e]) ELSE Ev(r.sa, r.out, 0, 0)
         Sx == d.sa
         om == IF d.out = None THEN NoMsg ELSE ReqMsg(Sx, e, s, d.out)
         s2 == IF om = NoMsg THEN Sx ELSE [Sx EXCEPT !.req = om]
         sasA == [sas EXCEPT ![s] = s2]
         sasB == IF r.new = None THEN sasA ELSE (S.newSa :> r.new) @@ sasA
     IN /\ net' = Rest(m, keep) \cup (IF om = NoMsg THEN {} ELSE {om})
        /\ nspi' = [nspi EXCEPT ![e] = @ + d.fresh]
        /\ dh' = [dh EXCEPT ![e] = @ + r.dh + d.dh]
        /\ Post(e, s, S.st, sasB, (kern[e] \cup r.kadd) \ r.kdel)
        /\ last' = [a |-> "Deliver", m |-> m, keep |-> keep, how |-> "resp", to |-> s, out |-> om]

-----------------------------------------------------------------------------------------------------
\* IkeSaController.dispatch_message (ikesacontroller.py:46-82) + IkeSa.process_message (ikesa.py:354-375)

Ignored(m, keep, why, to) ==
  /\ net' = Rest(m, keep)
  /\ UNCHANGED <<sas, table, kern, nspi, dh>>
  /\ last' = [a |-> "Deliver", m |-> m, keep |-> keep, how |-> why, to |-> to, out |-> NoMsg]

HalfOpen(e) == Cardinality({i \in 1..Len(table[e]) : sas[table[e][i]].st \in HalfOpenStates})

CtlDispatch(m, keep) ==
  LET e == m.dst IN
  /\ m \in net
  /\ keep => dups > 0
  /\ dups' = IF keep THEN dups - 1 ELSE dups
  /\ UNCHANGED <<trig, loss, adv>>
  /\ IF m.x = "INIT" /\ ~m.resp THEN
        \* CtlNewResponder: a fresh IKE_SA for every IKE_SA_INIT request; the cookie is armed under load
        LET s == <<e, nspi[e]>>
            S == [BlankSa(FALSE, m.si, "INITIAL") EXCEPT !.cookie = (HalfOpen(e) + 1 > CookieThreshold)]
        IN IF ~m.fi THEN      \* wrong role flag: ignored by process_message, the unused IKE_SA is dropped again
              /\ net' = Rest(m, keep) /\ nspi' = [nspi EXCEPT ![e] = @ + 1]
              /\ UNCHANGED <<sas, table, kern, dh>>
              /\ last' = [a |-> "Deliver", m |-> m, keep |-> keep, how |-> "flag", to |-> None, out |-> NoMsg]
           ELSE SaRequest(e, s, S, "NEW", m, keep, nspi[e] + 1, (s :> S) @@ sas)
     ELSE
        LET my == IF m.fi THEN m.sr ELSE m.si IN
        IF my \notin Listed(e) THEN Ignored(m, keep, "unknown", None)                              \* CtlDropUnknown
        ELSE LET S == sas[my] IN
          IF m.prot # ExpectProt(S) THEN Ignored(m, keep, "unprotected", my)                     \* C03: not under the peer's keys
          ELSE IF m.fi = S.init THEN Ignored(m, keep, "flag", my)
          ELSE IF m.x # "INIT" /\ <<m.si, m.sr>> # <<SpiIOf(S, my), SpiROf(S, my)>> THEN Ignored(m, keep, "spi", my)
          ELSE IF ~m.resp THEN SaRequest(e, my, S, S.st, m, keep, nspi[e], sas)
          ELSE SaResponse(e, my, m, keep)


\* ---------------------------------------------------------------------------------------------------
\* C03: the adversary puts a datagram on the network that is NOT protected under the keys its target expects: cleartext,
\* sealed with foreign keys ("garbage": also a corrupted or truncated authentic message), or the target's own direction
\* (a reflected message).  SPIs, exchange type, flags and Message ID are chosen to pass every header check.
AdvProts(S) == { Clear, << <<"garbage">>, IF S.init THEN "r" ELSE "i" >>, << S.keys, IF S.init THEN "i" ELSE "r" >> }
AdvMids(S) == { S.peerMid, S.myMid } \cup (IF S.peerMid > 0 THEN {S.peerMid - 1} ELSE {})
AdvForge(s, x, resp, fi, mid, prot) ==
  LET S == sas[s]  e == Owner(s) IN
  /\ adv > 0 /\ adv' = adv - 1
  /\ s \in Listed(e) /\ S.keys # None
  /\ prot \in AdvProts(S) /\ mid \in AdvMids(S)
  /\ (x = "INIT") => resp                   \* an IKE_SA_INIT *request* always creates a new responder: not a message for this IKE_SA
  /\ LET m == Msg(e, SpiIOf(S, s), SpiROf(S, s), x, resp, fi, mid, prot, [kind |-> "forged"]) IN
     /\ m \notin net
     /\ net' = net \cup {m}
     /\ last' = [a |-> "AdvForge", s |-> s, m |-> m, out |-> NoMsg]
  /\ UNCHANGED <<sas, table, kern, nspi, trig, dups, loss, dh>>

NetDrop(m) ==
  /\ m \in net /\ loss > 0 /\ loss' = loss - 1
  /\ net' = net \ {m}
  /\ UNCHANGED <<sas, table, kern, nspi, trig, dups, adv, dh>>
  /\ last' = [a |-> "NetDrop", m |-> m, out |-> NoMsg]

-----------------------------------------------------------------------------------------------------
Next ==
  \/ \E e \in E : CtlAcquire(e)
  \/ \E e \in E : \E s \in Listed(e) : \E k \in sas[s].kids : \E hard \in BOOLEAN : CtlExpire(e, k.in, hard)
  \/ \E s \in DOMAIN sas : TrigRekeyIke(s) \/ TrigDeleteIke(s) \/ TrigDpd(s)
  \/ \E s \in DOMAIN sas : Retransmit(s) \/ GiveUp(s)
  \/ \E s \in DOMAIN sas : \E which \in {"rekeyike", "delike", "dpd"} : TimerIdle(s, which)
  \/ \E m \in net : \E keep \in BOOLEAN : CtlDispatch(m, keep)
  \/ \E m \in net : NetDrop(m)
  \/ \E s \in DOMAIN sas : \E x \in {"INIT", "AUTH", "CCSA", "INFO"} : \E resp \in BOOLEAN : \E fi \in BOOLEAN :
        \E mid \in AdvMids(sas[s]) : \E prot \in AdvProts(sas[s]) : AdvForge(s, x, resp, fi, mid, prot)

Spec == Init /\ [][Next]_vars

\* weak fairness of delivery and of the retransmission / give-up timer: C09 liveness
Fairness ==
  /\ \A e \in E : \A r \in BOOLEAN : WF_vars(\E m \in net : m.dst = e /\ m.resp = r /\ CtlDispatch(m, FALSE))
  /\ WF_vars(\E s \in DOMAIN sas : Retransmit(s))
  /\ SF_vars(\E s \in DOMAIN sas : GiveUp(s))          \* the retransmission budget is finite
FairSpec == Spec /\ Fairness

StateConstraint == \A e \in E : nspi[e] <= MaxSpi

-----------------------------------------------------------------------------------------------------
\* properties

\* C16 ------------------------------------------------------------------------------------------
NoDupTable == \A e \in E : \A i, j \in 1..Len(table[e]) : i # j => table[e][i] # table[e][j]
ListedAreKnown == \A e \in E : Listed(e) \subseteq DOMAIN sas
\* every IKE_SA object still held is listed, or is the successor-in-waiting... of nobody: registration is immediate
HeldAreListed == \A s \in DOMAIN sas : s \in Listed(Owner(s))
NoDeletedListed == \A s \in DOMAIN sas : sas[s].st # "DELETED"

\* C10 ------------------------------------------------------------------------------------------
Tracked(e) == UNION {KernOf(e, k) : k \in UNION {sas[x].kids : x \in Listed(e)}}
KernelMatches == \A e \in E : kern[e] = Tracked(e)

\* C08 ------------------------------------------------------------------------------------------
\* Message-ID counters never go backwards (except the IKE_SA_INIT retries, which reuse 0), so a request ID executes at most once
MidMonotonic == [][\A s \in DOMAIN sas \cap DOMAIN sas' :
                      /\ sas'[s].peerMid \in {sas[s].peerMid, sas[s].peerMid + 1}
                      /\ \/ sas'[s].myMid \in {sas[s].myMid, sas[s].myMid + 1}
                         \/ (sas[s].st = "INIT_REQ_SENT" /\ sas'[s].myMid = 0)]_vars
\* at most one request outstanding: the stored request carries my current Message ID while I wait
OneOutstanding == \A s \in DOMAIN sas : sas[s].st \in WaitingStates => sas[s].req # NoMsg /\ sas[s].req.mid = sas[s].myMid /\ ~sas[s].req.resp
\* every datagram in flight has a well-formed header for its exchange
HeaderOk == \A m \in {x \in net : x.body.kind # "forged"} :
                           /\ m.x \in {"INIT", "AUTH", "CCSA", "INFO"}
                           /\ (m.x = "INIT") = (m.prot = Clear)         \* C07: only IKE_SA_INIT travels in the clear
                           /\ m.x = "INIT" => m.mid = 0
                           /\ m.x = "AUTH" => m.mid = 1
                           /\ m.x \in {"CCSA", "INFO"} => m.mid >= 0 /\ m.prot[2] = (IF m.fi THEN "i" ELSE "r")
\* a replayed request changes nothing but the network; a dropped one nothing at all
ReplayIsFree == [][(last'.a = "Deliver" /\ last'.how \in {"replay", "drop", "unknown", "unprotected", "flag", "spi"})
                     => sas' = sas /\ kern' = kern /\ dh' = dh /\ table' = table]_vars

\* C03 ------------------------------------------------------------------------------------------
\* a datagram that is not protected under the peer's keys changes nothing and elicits no reply
Unprotected(m, S) == m.prot # ExpectProt(S)
ForgeryHarmless == [][(last'.a = "Deliver" /\ last'.m.body.kind = "forged")
                        => /\ last'.how \in {"unprotected", "unknown"}
                           /\ sas' = sas /\ table' = table /\ kern' = kern /\ dh' = dh /\ nspi' = nspi
                           /\ last'.out = NoMsg /\ net' \subseteq net]_vars

\* C09 ------------------------------------------------------------------------------------------
Quiescent == net = {} /\ \A s \in DOMAIN sas : sas[s].st \notin WaitingStates
\* established IKE_SAs pair up: same SPIs, same keys, mirrored roles
EstabPairs(e) == {<<SpiIOf(sas[s], s), SpiROf(sas[s], s)>> : s \in {x \in Listed(e) : sas[x].st = "ESTABLISHED"}}
ChildPairs(e) == UNION {{<<k.in, k.out>> : k \in sas[s].kids} : s \in Listed(e)}
Flip(P) == {<<p[2], p[1]>> : p \in P}
ConsistentAtRest == (Quiescent /\ loss = MaxLoss) => (EstabPairs("A") = EstabPairs("B") /\ ChildPairs("A") = Flip(ChildPairs("B")))
EventuallyQuiescent == <>[](\A s \in DOMAIN sas : sas[s].st \notin WaitingStates)

\* C01 (protocol skeleton) -----------------------------------------------------------------------
\* whenever both peers hold the same IKE_SA (same SPI pair) in an established state they hold the same keys
SameIkeKeys == \A a \in DOMAIN sas : \A b \in DOMAIN sas :
                  (Owner(a) # Owner(b) /\ sas[a].peer = b /\ sas[b].peer = a /\ sas[a].st \in Established10to19 /\ sas[b].st \in Established10to19)
                     => sas[a].keys = sas[b].keys
\* mirror image: an SA installed at both ends carries the same KEYMAT half at both ends
Mirror == \A x \in kern["A"] : \A y \in kern["B"] : (x.dst = y.dst /\ x.spi = y.spi) => x = y

\* C18 ------------------------------------------------------------------------------------------
\* under load a request without the right cookie costs no DH and leaves no IKE_SA behind
CookieFirst == [][(last'.a = "Deliver" /\ last'.m.x = "INIT" /\ ~last'.m.resp /\ last'.out # NoMsg /\ last'.out.body.kind = "notify" /\ last'.out.body.n = "COOKIE")
                    => dh' = dh /\ table' = table /\ kern' = kern]_vars

=====================================================================================================
