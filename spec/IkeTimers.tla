---------------------------------- MODULE IkeTimers ----------------------------------
(***************************************************************************************************)
(* C13 - the timers of one IKE_SA under the periodic sweep of IkeSaController.main_loop               *)
(* (ikesacontroller.py:174-197, ikesa.py:301-306, 428-450, 860-874), a virtual clock, and a peer that *)
(* may answer, lose datagrams or crash at any moment.                                                 *)
(*                                                                                                   *)
(* All deadlines are kept RELATIVE to the current time (an absolute clock makes the model explode,   *)
(* DESIGN.md C13); the retransmission deadline is anchored at the first transmission:                *)
(*     deadline(k-th retransmission) = first + RetxDelay * k(k+1)/2                                  *)
(* which is what `retransmit_at + retransmissions * RETRANSMISSION_DELAY` amounts to (observation O-9).*)
(***************************************************************************************************)
EXTENDS Integers, Sequences, FiniteSets, TLC, Json

CONSTANTS Dpd, Life,          \* configured DPD interval and IKE_SA lifetime (scaled down; the code reads them from the configuration)
          RetxDelay, MaxRetx, \* IkeSa.RETRANSMISSION_DELAY / MAX_RETRANSMISSIONS, read from the code by the harness
          Ticks,              \* allowed clock steps between two sweeps
          MaxLoss,            \* how many transmissions may be lost while the peer is alive
          StartKinds,         \* how a behaviour starts: "idle" or a request of that kind just sent by another trigger
          Horizon,            \* elapsed-time counters are clipped here
          SingleSweep,        \* TRUE: exactly one sweep per clock step (the "uniform tick" schedule class of C13)
          MaxBusy,            \* how often the peer may refuse the IKE_SA rekey with TEMPORARY_FAILURE
          MaxProbes,          \* how many requests of its own (liveness probes) the peer may send to this IKE_SA
          MaxNoise            \* how many unauthenticated datagrams with this IKE_SA's SPIs arrive

VARIABLES st, kind, retx, sinceFirst, sinceSend, gaps, dpdIn, rekeyIn, deleteIn, kern, wire, crashed, sinceCrash, lost, swept, busy, probes, noise, last
vars == <<st, kind, retx, sinceFirst, sinceSend, gaps, dpdIn, rekeyIn, deleteIn, kern, wire, crashed, sinceCrash, lost, swept, busy, probes, noise, last>>

Clip(x) == IF x < -1 THEN -1 ELSE x
Cap(x) == IF x > Horizon THEN Horizon ELSE x
\* relative retransmission deadline ("retransmit_at - now")
RetxIn == RetxDelay * ((retx * (retx + 1)) \div 2) - sinceFirst

TimerKinds == {"dpd", "rekeyike", "delike"}
\* kinds whose answer simply completes the exchange (the others continue with a follow-up request: not modelled here)
Answerable == {"dpd", "newchild", "delchild", "delike", "delold", "deloldchild"}
\* kinds whose answer makes the requester send a follow-up request AT ONCE: a rekey is followed by the DELETE of what was replaced ("delold": the old IKE_SA
\* deletes itself - its CHILD_SAs now belong to the successor; "deloldchild": the replaced CHILD_SA).  The follow-up is a request like any other: retransmitted
\* on the same schedule, and when its budget is spent the IKE_SA that sent it is closed.
FollowUp(k) == IF k \in {"rekeyike", "rekeyike_ke"} THEN "delold" ELSE "deloldchild"
WithFollowUp == {"rekeyike", "rekeyike_ke", "rekchild"}
HalfOpenKinds == {"init", "init_cookie", "init_ke", "auth"}

Init ==
  /\ \E k \in StartKinds :
       /\ kind = k
       /\ st = IF k = "idle" THEN "ESTABLISHED" ELSE "WAITING"
       /\ retx = IF k = "idle" THEN 0 ELSE 1
       /\ wire = IF k = "idle" THEN 0 ELSE 1
       /\ kern = (k \notin HalfOpenKinds)
  /\ sinceFirst = 0 /\ sinceSend = 0 /\ gaps = <<>>
  /\ dpdIn = Dpd /\ rekeyIn = Life /\ deleteIn = Life + 30
  /\ crashed = FALSE /\ sinceCrash = 0 /\ lost = 0 /\ swept = TRUE /\ busy = 0 /\ probes = 0 /\ noise = 0
  /\ last = [a |-> "Init"]

\* IkeSa._send_request: a new request (re)starts the retransmission schedule
SendNew(k) == /\ st' = "WAITING" /\ kind' = k /\ retx' = 1 /\ sinceFirst' = 0 /\ sinceSend' = 0 /\ gaps' = <<>> /\ wire' = wire + 1

\* one pass of the timer part of main_loop: retransmissions (and reaping), then DPD, then lifetime
Sweep ==
  /\ st # "DELETED"
  /\ SingleSweep => ~swept
  /\ swept' = TRUE
  /\ IF st = "WAITING" /\ RetxIn < 0 THEN
        IF retx >= MaxRetx
        THEN /\ st' = "DELETED" /\ kern' = (kind = "delold" /\ kern)               \* budget spent: closed, all kernel SAs it still owns removed
             /\ UNCHANGED <<kind, retx, sinceFirst, sinceSend, gaps, wire>>
             /\ last' = [a |-> "Sweep", sent |-> 0, what |-> "giveup"]
        ELSE /\ retx' = retx + 1 /\ gaps' = Append(gaps, sinceSend) /\ sinceSend' = 0 /\ wire' = wire + 1     \* the same datagram again
             /\ UNCHANGED <<st, kind, sinceFirst, kern>>
             /\ last' = [a |-> "Sweep", sent |-> 1, what |-> "retransmit"]
     ELSE IF st = "ESTABLISHED" /\ dpdIn < 0 THEN SendNew("dpd") /\ UNCHANGED kern /\ last' = [a |-> "Sweep", sent |-> 1, what |-> "dpd"]
     ELSE IF st = "ESTABLISHED" /\ deleteIn < 0 THEN SendNew("delike") /\ UNCHANGED kern /\ last' = [a |-> "Sweep", sent |-> 1, what |-> "delike"]
     ELSE IF st = "ESTABLISHED" /\ rekeyIn < 0 THEN SendNew("rekeyike") /\ UNCHANGED kern /\ last' = [a |-> "Sweep", sent |-> 1, what |-> "rekeyike"]
     ELSE UNCHANGED <<st, kind, retx, sinceFirst, sinceSend, gaps, wire, kern>> /\ last' = [a |-> "Sweep", sent |-> 0, what |-> "nothing"]
  /\ UNCHANGED <<dpdIn, rekeyIn, deleteIn, crashed, sinceCrash, lost, busy, probes, noise>>

\* the clock advances (at least one sweep between two ticks: select() returns at least once per second)
Tick(dt) ==
  /\ swept /\ swept' = FALSE /\ st # "DELETED"
  /\ sinceFirst' = Cap(sinceFirst + dt) /\ sinceSend' = Cap(sinceSend + dt)
  /\ dpdIn' = Clip(dpdIn - dt) /\ rekeyIn' = Clip(rekeyIn - dt) /\ deleteIn' = Clip(deleteIn - dt)
  /\ sinceCrash' = IF crashed THEN Cap(sinceCrash + dt) ELSE 0
  /\ UNCHANGED <<st, kind, retx, gaps, kern, wire, crashed, lost, busy, probes, noise>>
  /\ last' = [a |-> "Tick", dt |-> dt]

\* the peer answers the request (any copy): the exchange completes, the liveness timer restarts (authentic reception)
Answer ==
  /\ wire > 0 /\ ~crashed /\ st = "WAITING" /\ kind \in Answerable
  /\ wire' = 0 /\ dpdIn' = Dpd
  /\ st' = IF kind \in {"delike", "delold"} THEN "DELETED" ELSE "ESTABLISHED"
  /\ kern' = IF kind \in {"delike", "delchild"} THEN FALSE ELSE kern        \* the only CHILD_SA / the whole IKE_SA is gone ("delold": the successor has them)
  /\ UNCHANGED <<kind, retx, sinceFirst, sinceSend, gaps, rekeyIn, deleteIn, crashed, sinceCrash, lost, swept, busy, probes, noise>>
  /\ last' = [a |-> "Answer"]

\* the peer answers a rekey: the follow-up DELETE goes out at once, as a NEW request (fresh schedule, fresh budget)
AnswerFollowUp ==
  /\ wire > 0 /\ ~crashed /\ st = "WAITING" /\ kind \in WithFollowUp
  /\ (kind \in {"rekeyike", "rekeyike_ke"} => busy = 0)       \* (the busy peer of AnswerBusy stays busy: it goes on refusing the IKE_SA rekey)
  /\ dpdIn' = Dpd
  /\ st' = "WAITING" /\ kind' = FollowUp(kind) /\ retx' = 1 /\ sinceFirst' = 0 /\ sinceSend' = 0 /\ gaps' = <<>> /\ wire' = 1
  /\ UNCHANGED <<rekeyIn, deleteIn, kern, crashed, sinceCrash, lost, swept, busy, probes, noise>>
  /\ last' = [a |-> "AnswerFollowUp"]

\* the peer is busy with an exchange of its own and refuses our IKE_SA rekey with TEMPORARY_FAILURE (RFC 7296 2.25): the exchange is over, the rekey is
\* tried again shortly (0..2 s, the driver chooses 0) - and the hard limit of the lifetime does NOT move, however often this happens
AnswerBusy ==
  /\ wire > 0 /\ ~crashed /\ st = "WAITING" /\ kind = "rekeyike" /\ busy < MaxBusy
  /\ wire' = 0 /\ dpdIn' = Dpd /\ st' = "ESTABLISHED" /\ rekeyIn' = 0 /\ busy' = busy + 1
  /\ UNCHANGED <<kind, retx, sinceFirst, sinceSend, gaps, deleteIn, kern, crashed, sinceCrash, lost, swept, probes, noise>>
  /\ last' = [a |-> "AnswerBusy"]

\* the peer sends a request of its own (a liveness probe) - also while we wait for an answer that got lost on the way to it.  Authentic reception
\* restarts OUR liveness timer; it is no answer to our request: the retransmission schedule and its budget go on unchanged
PeerProbe ==
  /\ ~crashed /\ busy = 0 /\ probes < MaxProbes /\ kern /\ st \in {"WAITING", "ESTABLISHED"} /\ kind \notin HalfOpenKinds \cup {"delold"}
  /\ dpdIn' = Dpd /\ probes' = probes + 1
  /\ UNCHANGED <<st, kind, retx, sinceFirst, sinceSend, gaps, rekeyIn, deleteIn, kern, wire, crashed, sinceCrash, lost, swept, busy, noise>>
  /\ last' = [a |-> "PeerProbe"]

\* datagrams that carry the SPIs of this IKE_SA but are NOT protected under the peer's keys (a late copy of the cleartext IKE_SA_INIT response, forged headers,
\* a damaged copy of the peer's last message): they prove nothing about the peer - no deadline moves, in particular not the liveness timer
Noise ==
  /\ noise < MaxNoise /\ kern /\ st \in {"WAITING", "ESTABLISHED"} /\ kind \notin HalfOpenKinds
  /\ noise' = noise + 1
  /\ UNCHANGED <<st, kind, retx, sinceFirst, sinceSend, gaps, dpdIn, rekeyIn, deleteIn, kern, wire, crashed, sinceCrash, lost, swept, busy, probes>>
  /\ last' = [a |-> "Noise"]

Lose ==
  /\ wire > 0 /\ lost < MaxLoss /\ ~crashed
  /\ wire' = wire - 1 /\ lost' = lost + 1
  /\ UNCHANGED <<st, kind, retx, sinceFirst, sinceSend, gaps, dpdIn, rekeyIn, deleteIn, kern, crashed, sinceCrash, swept, busy, probes, noise>>
  /\ last' = [a |-> "Lose"]

\* the peer crashes or becomes unreachable: nothing is answered any more
Crash ==
  /\ ~crashed /\ crashed' = TRUE /\ wire' = 0 /\ sinceCrash' = 0
  /\ UNCHANGED <<st, kind, retx, sinceFirst, sinceSend, gaps, dpdIn, rekeyIn, deleteIn, kern, lost, swept, busy, probes, noise>>
  /\ last' = [a |-> "Crash"]

Next == Sweep \/ (\E dt \in Ticks : Tick(dt)) \/ Answer \/ AnswerFollowUp \/ AnswerBusy \/ PeerProbe \/ Noise \/ Lose \/ Crash
Spec == Init /\ [][Next]_vars

-----------------------------------------------------------------------------------------------------
\* properties
\* at most the built-in number of transmissions of one request
Budget == retx <= MaxRetx /\ Len(gaps) + 1 <= MaxRetx
\* (i) the loop sweeps every second: the k-th gap is k*RetxDelay, late by at most one sweep
SpacingFine == \A i \in 1..Len(gaps) : gaps[i] >= i * RetxDelay /\ gaps[i] <= i * RetxDelay + 1
\* (ii) uniform tick of any size: the gaps never shrink
SpacingUniform == \A i \in 1..Len(gaps) : \A j \in 1..Len(gaps) : i < j => gaps[i] <= gaps[j]
\* an answered request is never retransmitted; nothing is sent by a closed IKE_SA
NoRetxAfterAnswer == [][(last'.a = "Sweep" /\ last'.what = "retransmit") => st = "WAITING"]_vars
\* the liveness probe goes out at the first sweep after the DPD interval, the rekey at the first sweep after the lifetime
TimersFire == [][(last'.a = "Sweep" /\ st = "ESTABLISHED" /\ (dpdIn < 0 \/ rekeyIn < 0 \/ deleteIn < 0)) => last'.sent = 1]_vars
\* if the peer dies at any moment, every kernel SA is gone within DPD interval + retransmission budget (fine sweeps)
RetxSum == RetxDelay * ((MaxRetx * (MaxRetx + 1)) \div 2)
\* (an IKE_SA that was rekeyed owns no CHILD_SA any more: the successor - with timers of its own, not modelled here - holds them)
CrashBound == (crashed /\ sinceCrash > Dpd + RetxSum + MaxRetx + 3 /\ kind # "delold") => ~kern
Deleted == (st = "DELETED" /\ kind # "delold") => ~kern
\* the hard limit of the lifetime only ever comes closer: no answer of the peer postpones it
HardLimitFixed == [][st' # "DELETED" => deleteIn' <= deleteIn]_vars

\* ------------------------------------------------------------------------------------------ edge dump (see MC.tla)
View == <<st, kind, retx, sinceFirst, sinceSend, gaps, dpdIn, rekeyIn, deleteIn, kern, wire, crashed, sinceCrash, lost, swept, busy, probes, noise>>
Proj == [st |-> st, kind |-> kind, retx |-> retx, retxIn |-> RetxIn, sinceFirst |-> sinceFirst, gaps |-> gaps, dpdIn |-> dpdIn,
         rekeyIn |-> rekeyIn, deleteIn |-> deleteIn, kern |-> kern, wire |-> wire, crashed |-> crashed, sinceCrash |-> sinceCrash,
         lost |-> lost, swept |-> swept, sinceSend |-> sinceSend, busy |-> busy, probes |-> probes, noise |-> noise]
EdgeDump == PrintT(<<"EDGE", ToJson([ff |-> Proj, a |-> last', dd |-> 0, t |-> Proj'])>>)
=======================================================================================
