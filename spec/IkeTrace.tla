----------------------------------- MODULE IkeTrace -----------------------------------
(***************************************************************************************************)
(* Binding B: executions of the real code that were NOT chosen by TLC (seeded random schedules over  *)
(* two real IkeSaController objects) are recorded, one event per public call at its return, and TLC  *)
(* checks that each recorded execution is a behaviour of Ike.tla: the logged action with its logged  *)
(* arguments must be enabled, must produce the logged reply, and must lead to the logged post-state. *)
(* Every invariant of Ike.tla is evaluated after every event.  A batch of traces is validated in one *)
(* JVM: variable tid selects the trace, l is the position in it.                                     *)
(***************************************************************************************************)
EXTENDS MC, IOUtils, TLCExt

Traces == JsonDeserialize(IOEnv.TRACE_FILE)          \* sequence of traces; a trace = sequence of events

CONSTANT Skip       \* clause names left out of the comparison - only used to NAME the failing clause of a rejected trace (normal runs: {})

VARIABLES tid, l
tvars == <<vars, tid, l>>

TraceInit == Init /\ tid \in 1..Len(Traces) /\ l = 1

TEv == Traces[tid][l]
SeqToSet(s) == {s[i] : i \in 1..Len(s)}

\* the logged post-state, restricted to what the recorder projects (listed IKE_SAs, kernel SAD, datagrams in flight)
C(name, holds) == name \in Skip \/ holds
PostMatches(p) ==
  /\ C("table", table' = [e \in E |-> p.table[e]])
  /\ C("kern", \A e \in E : kern'[e] = SeqToSet(p.kern[e]))
  /\ C("net", net' = SeqToSet(p.net))
  /\ \A i \in 1..Len(p.sas) :
       LET r == p.sas[i] IN
       /\ r.id \in DOMAIN sas'
       /\ C("st", sas'[r.id].st = r.st) /\ sas'[r.id].init = r.init /\ sas'[r.id].peer = r.peer
       /\ C("mid", sas'[r.id].myMid = r.myMid /\ sas'[r.id].peerMid = r.peerMid)
       /\ C("kids", {<<k.in, k.out>> : k \in sas'[r.id].kids} = SeqToSet(r.kids))
       /\ C("pending", Len(sas'[r.id].pending) = r.npending)
  /\ C("listed", Len(p.sas) = Cardinality(UNION {Listed(e)' : e \in E}))

Step ==
  /\ l <= Len(Traces[tid])
  /\ LET ev == TEv IN
     /\ CASE ev.a = "CtlAcquire"   -> CtlAcquire(ev.e)
          [] ev.a = "CtlExpire"    -> CtlExpire(ev.e, ev.spi, ev.hard)
          [] ev.a = "TrigRekeyIke" -> TrigRekeyIke(ev.s)
          [] ev.a = "TrigDeleteIke" -> TrigDeleteIke(ev.s)
          [] ev.a = "TrigDpd"      -> TrigDpd(ev.s)
          [] ev.a = "TimerIdle"    -> TimerIdle(ev.s, ev.which)
          [] ev.a = "Retransmit"   -> Retransmit(ev.s)
          [] ev.a = "GiveUp"       -> GiveUp(ev.s)
          [] ev.a = "Deliver"      -> CtlDispatch(ev.m, ev.keep)
          [] ev.a = "NetDrop"      -> NetDrop(ev.m)
          [] OTHER -> FALSE
     /\ C("out", last'.out = ev.out)            \* the datagram the public call returned
     /\ PostMatches(ev.post)
  /\ l' = l + 1 /\ UNCHANGED tid

TraceSpec == TraceInit /\ [][Step]_tvars

\* acceptance: every trace was consumed to its end (TLC registers; one worker)
Progress == TLCSet(tid + 1000, IF TLCGet(tid + 1000) < l THEN l ELSE TLCGet(tid + 1000))
ProgressInit == \A t \in 1..Len(Traces) : TLCSet(t + 1000, 0)
ASSUME ProgressInit
TraceView == <<View, tid, l>>
Accepted == \A t \in 1..Len(Traces) : TLCGet(t + 1000) = Len(Traces[t]) + 1
Report == PrintT(<<"TRACE-PROGRESS", [t \in 1..Len(Traces) |-> <<TLCGet(t + 1000) - 1, Len(Traces[t])>>]>>)
PostCond == Report /\ Accepted
ProgressConstraint == Progress
=========================================================================================
