----------------------------------- MODULE Policies -----------------------------------
(***************************************************************************************************)
(* C15 - the kernel SPD / SAD across daemon incarnations (ikesacontroller.py:27-31, 204-208;         *)
(* xfrm.py:366-384) and the mapping of kernel ACQUIREs back to the configuration                     *)
(* (ikesacontroller.py:84-109, ikesa.py:382-399).  The kernel state survives the daemon: a previous  *)
(* incarnation may have crashed and left anything behind.                                            *)
(***************************************************************************************************)
EXTENDS Naturals, Sequences, FiniteSets, TLC, Json

CONSTANTS Configs,      \* set of configurations; a configuration = set of protect-entry identifiers (across its connections)
          MaxSteps

VARIABLES running, conf, spd, sad, steps, last
vars == <<running, conf, spd, sad, steps, last>>

Entries == UNION Configs
\* what start-up installs for one protect entry: exactly one outbound policy carrying the entry's index, one inbound, one forward
Triple(e) == {[entry |-> e, dir |-> "out", index |-> e], [entry |-> e, dir |-> "in", index |-> 0], [entry |-> e, dir |-> "fwd", index |-> 0]}
Expected(c) == UNION {Triple(e) : e \in c}
Junk == {[entry |-> 99, dir |-> "out", index |-> 99], [entry |-> 98, dir |-> "in", index |-> 0]}
JunkSa == {"stale-sa"}

Init == running = FALSE /\ conf = {} /\ spd = {} /\ sad = {} /\ steps = 0 /\ last = [a |-> "Init"]

Step == steps < MaxSteps /\ steps' = steps + 1
\* whatever was there before: flush both databases, then install the policies of every protect entry of every connection
Start(c) == /\ Step /\ ~running /\ running' = TRUE /\ conf' = c /\ spd' = Expected(c) /\ sad' = {} /\ last' = [a |-> "Start", c |-> c]
\* a negotiation adds kernel SAs while running
Negotiate == /\ Step /\ running /\ conf # {} /\ sad' = sad \cup {"child"} /\ UNCHANGED <<running, conf, spd>> /\ last' = [a |-> "Negotiate"]
\* orderly shutdown: both databases flushed again
Stop == /\ Step /\ running /\ running' = FALSE /\ spd' = {} /\ sad' = {} /\ UNCHANGED conf /\ last' = [a |-> "Stop"]
\* the daemon dies: the kernel keeps everything
Crash == /\ Step /\ running /\ running' = FALSE /\ UNCHANGED <<conf, spd, sad>> /\ last' = [a |-> "Crash"]
\* somebody else (or an older incarnation) left state behind
Leftover == /\ Step /\ ~running /\ spd' = spd \cup Junk /\ sad' = sad \cup JunkSa /\ UNCHANGED <<running, conf>> /\ last' = [a |-> "Leftover"]

Next == (\E c \in Configs : Start(c)) \/ Negotiate \/ Stop \/ Crash \/ Leftover
Spec == Init /\ [][Next]_vars

\* ------------------------------------------------------------------------------------------------ properties
AfterStart == running => /\ spd = Expected(conf)
                         /\ \A e \in conf : Cardinality({p \in spd : p.entry = e /\ p.dir = "out" /\ p.index = e}) = 1
                                            /\ Cardinality({p \in spd : p.entry = e /\ p.dir = "in"}) = 1 /\ Cardinality({p \in spd : p.entry = e /\ p.dir = "fwd"}) = 1
                         /\ JunkSa \cap sad = {}
AfterStop == [][last'.a = "Stop" => spd' = {} /\ sad' = {}]_vars
\* an ACQUIRE carrying the index of an installed outbound policy maps back to that entry; any other index to nothing
AcquireEntry(idx) == IF \E p \in spd : p.dir = "out" /\ p.index = idx /\ p.entry \in conf THEN {p.entry : p \in {q \in spd : q.dir = "out" /\ q.index = idx}} ELSE {}
AcquireMaps == running => (\A e \in conf : AcquireEntry(e) = {e}) /\ AcquireEntry(99) = {} /\ AcquireEntry(0) = {}

View == <<running, conf, spd, sad, steps>>
Proj == [running |-> running, conf |-> conf, spd |-> spd, sad |-> sad, steps |-> steps]
EdgeDump == PrintT(<<"EDGE", ToJson([ff |-> Proj, a |-> last', dd |-> 0, t |-> Proj'])>>)
=========================================================================================
