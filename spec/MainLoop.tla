----------------------------------- MODULE MainLoop -----------------------------------
(***************************************************************************************************)
(* C17 - the event loop of the daemon (ikesacontroller.py:121-202) as a process: wait in select,     *)
(* handle one event (datagram, kernel event, control connection, timer sweep), come back to select.  *)
(* The environment offers hostile events of the kinds below, at any moment of a legitimate handshake *)
(* that another peer runs in parallel, and may make the next transmission or netlink request fail.   *)
(* Intended behaviour: every hostile event is contained (logged, dropped), the loop is back in       *)
(* select after a bounded number of steps, and the legitimate session completes.                     *)
(***************************************************************************************************)
EXTENDS Naturals, Sequences, FiniteSets, TLC, Json

CONSTANTS Kinds,        \* hostile event kinds
          MaxHostile    \* how many of them per run

LegitSteps == 7         \* datagrams of the legitimate session that this daemon receives / answers (it is the responder): INIT, AUTH, a CHILD_SA rekey, the delete of the old CHILD_SA, an IKE_SA rekey, the delete of the old IKE_SA, the delete of the IKE_SA

VARIABLES pc, session, hostile, handled, last
vars == <<pc, session, hostile, handled, last>>

Init == pc = "select" /\ session = 0 /\ hostile = 0 /\ handled = <<>> /\ last = [a |-> "Init"]

\* select returns with one readable source
Hostile(k) == /\ pc = "select" /\ hostile < MaxHostile
              /\ pc' = "handling" /\ hostile' = hostile + 1 /\ handled' = Append(handled, k) /\ UNCHANGED session
              /\ last' = [a |-> "Hostile", kind |-> k, at |-> session]
Legit == /\ pc = "select" /\ session < LegitSteps
         /\ pc' = "handling" /\ session' = session + 1 /\ handled' = Append(handled, "legit") /\ UNCHANGED hostile
         /\ last' = [a |-> "Legit", step |-> session + 1]
\* whatever the event was, its handling ends (no exception leaves the loop, no unbounded loop inside it)
Done == /\ pc = "handling" /\ pc' = "select" /\ UNCHANGED <<session, hostile, handled>> /\ last' = [a |-> "Done"]

Next == (\E k \in Kinds : Hostile(k)) \/ Legit \/ Done
Spec == Init /\ [][Next]_vars
FairSpec == Spec /\ WF_vars(Next)

NeverCrashed == pc \in {"select", "handling"}
BackToSelect == [](pc = "handling" => <>(pc = "select"))
StillServes == <>(session = LegitSteps)

View == <<pc, session, hostile, handled>>
Proj == [pc |-> pc, session |-> session, hostile |-> hostile, handled |-> handled]
EdgeDump == PrintT(<<"EDGE", ToJson([ff |-> Proj, a |-> last', dd |-> 0, t |-> Proj'])>>)
=========================================================================================
