------------------------------------- MODULE Wire -------------------------------------
(***************************************************************************************************)
(* C05 / C06 / C07 - RFC 7296 section 3 as an executable specification over Seq(0..255):            *)
(*   Enc*         the byte layout of header, generic payload header chain and every payload         *)
(*   ParseChain   the generic chain parser (3.2): unknown non-critical payloads skipped, unknown    *)
(*                critical ones rejected, the chain must end exactly at the end of the data         *)
(*   SkFraming    the arithmetic of the Encrypted payload (3.14): pad length, lengths, MAC coverage *)
(*   LenMut / NextMut   the mutation families of C06                                                *)
(* TLC checks the self-consistency theorems over the enumerated universe and writes                  *)
(* (abstract message, bytes) and (mutated bytes, chain verdict) vectors for the harness (binding C).*)
(* Written from the RFC, not from message.py.  32-bit fields are pairs of 16-bit limbs.              *)
(***************************************************************************************************)
EXTENDS Naturals, Sequences, FiniteSets, TLC, Json, SequencesExt

CONSTANTS OutFile, Mode        \* Mode: "singles" | "pairs" | "mutations" | "sk"

U8(n)  == <<n % 256>>
U16(n) == <<(n \div 256) % 256, n % 256>>
U32(l) == U16(l[1]) \o U16(l[2])                  \* l = <<high 16 bits, low 16 bits>>
RECURSIVE Flat(_)
Flat(ss) == IF ss = <<>> THEN <<>> ELSE Head(ss) \o Flat(Tail(ss))
Rep(b, n) == [i \in 1..n |-> b]
Get16(b, i) == b[i] * 256 + b[i + 1]               \* 1-based

\* ------------------------------------------------------------------------------------------------ payload bodies (3.3-3.13)
EncTransform(t, last) ==
  LET attrs == IF t.keylen # 0 THEN U16(32768 + 14) \o U16(t.keylen) ELSE <<>>           \* TV attribute 14 = Key Length
      body == U8(t.type) \o U8(0) \o U16(t.id) \o attrs
  IN U8(IF last THEN 0 ELSE 3) \o U8(0) \o U16(Len(body) + 4) \o body
EncProposal(p, last) ==
  LET ts == Flat([i \in 1..Len(p.transforms) |-> EncTransform(p.transforms[i], i = Len(p.transforms))])
      body == U8(p.num) \o U8(p.proto) \o U8(Len(p.spi)) \o U8(Len(p.transforms)) \o p.spi \o ts
  IN U8(IF last THEN 0 ELSE 2) \o U8(0) \o U16(Len(body) + 4) \o body
EncTs(ts) == U8(ts.ts_type) \o U8(ts.proto) \o U16(8 + 2 * Len(ts.saddr)) \o U16(ts.sport) \o U16(ts.eport) \o ts.saddr \o ts.eaddr

EncBody(p) ==
  CASE p.t = 33 -> Flat([i \in 1..Len(p.proposals) |-> EncProposal(p.proposals[i], i = Len(p.proposals))])
    [] p.t = 34 -> U16(p.group) \o U16(0) \o p.data
    [] p.t \in {35, 36} -> U8(p.id_type) \o <<0, 0, 0>> \o p.data
    [] p.t = 39 -> U8(p.method) \o <<0, 0, 0>> \o p.data
    [] p.t = 41 -> U8(p.proto) \o U8(Len(p.spi)) \o U16(p.ntype) \o p.spi \o p.data
    [] p.t = 42 -> U8(p.proto) \o U8(IF p.spis = <<>> THEN 0 ELSE Len(p.spis[1])) \o U16(Len(p.spis)) \o Flat(p.spis)
    [] p.t \in {44, 45} -> U8(Len(p.ts)) \o <<0, 0, 0>> \o Flat([i \in 1..Len(p.ts) |-> EncTs(p.ts[i])])
    [] OTHER -> p.data                                     \* NONCE (40), VENDOR (43), SK body (46), unknown types

\* generic payload header (3.2): next payload | C + 7 reserved bits | length
EncChain(ps, lastNext) ==
  Flat([i \in 1..Len(ps) |->
          LET body == EncBody(ps[i])
              nxt == IF i < Len(ps) THEN ps[i + 1].t ELSE lastNext
          IN U8(nxt) \o U8(IF ps[i].critical THEN 128 ELSE 0) \o U16(Len(body) + 4) \o body])
FirstType(ps, lastNext) == IF ps = <<>> THEN lastNext ELSE ps[1].t

\* header (3.1): SPIi | SPIr | next payload | version | exchange type | flags | message id | length
Flags(h) == (IF h.response THEN 32 ELSE 0) + (IF h.version THEN 16 ELSE 0) + (IF h.initiator THEN 8 ELSE 0)
EncHeader(h, first, total) ==
  h.spi_i \o h.spi_r \o U8(first) \o U8(h.major * 16 + h.minor) \o U8(h.xchg) \o U8(Flags(h)) \o U32(h.mid) \o U32(<<0, total>>)
EncMessage(h, ps) == LET chain == EncChain(ps, 0) IN EncHeader(h, FirstType(ps, 0), 28 + Len(chain)) \o chain

\* ------------------------------------------------------------------------------------------------ chain parser (3.2)
Known == {33, 34, 35, 36, 39, 40, 41, 42, 43, 44, 45, 46}
\* result: [v |-> "ok" | "syntax" | "critical", items |-> <<[t, critical, off, len]>>]   (off/len of the body, 1-based)
RECURSIVE ParseFrom(_, _, _, _)
ParseFrom(b, off, t, acc) ==
  IF t = 0 THEN (IF off = Len(b) + 1 THEN [v |-> "ok", items |-> acc] ELSE [v |-> "syntax", items |-> acc])
  ELSE IF Len(b) - off + 1 < 4 THEN [v |-> "syntax", items |-> acc]
  ELSE LET nxt == b[off]  crit == b[off + 1] >= 128  ln == Get16(b, off + 2) IN
       IF ln < 4 THEN [v |-> "syntax", items |-> acc]
       ELSE IF t \notin Known /\ crit THEN [v |-> "critical", items |-> acc]
       ELSE LET item == [t |-> t, critical |-> crit, off |-> off + 4, len |-> ln - 4, fits |-> off + ln - 1 <= Len(b)]
                acc2 == IF t \in Known THEN Append(acc, item) ELSE acc
            IN IF t = 46 THEN (IF off + ln = Len(b) + 1 THEN [v |-> "ok", items |-> acc2] ELSE [v |-> "syntax", items |-> acc2])
               ELSE ParseFrom(b, off + ln, nxt, acc2)
ParseChain(b, first) == ParseFrom(b, 1, first, <<>>)

\* ------------------------------------------------------------------------------------------------ the universe
A8 == Rep(65, 8)   B8 == Rep(66, 8)   Z8 == Rep(0, 8)
T(type, id, kl) == [type |-> type, id |-> id, keylen |-> kl]
TrSeqs == { <<T(1, 12, 256), T(3, 12, 0), T(2, 5, 0), T(4, 19, 0)>>, <<T(1, 12, 128), T(1, 12, 256), T(3, 14, 0)>>,
            <<T(3, 2, 0), T(5, 0, 0)>>, <<T(4, 21, 0)>>,
            <<T(1, 12, 256), T(3, 12, 0), T(1, 12, 256)>> }        \* a transform listed twice: the "more" octet goes by position, not by value
Spis == { <<>>, <<1, 2, 3, 4>>, <<9, 8, 7, 6, 5, 4, 3, 2>> }
Props == { [num |-> n, proto |-> pr, spi |-> s, transforms |-> ts] : n \in {1}, pr \in {1, 2, 3}, s \in Spis, ts \in TrSeqs }
P(t, c, rest) == [t |-> t, critical |-> c] @@ rest
V4a == <<10, 1, 2, 0>>   V4b == <<10, 1, 2, 255>>
V6a == <<32, 1, 13, 184>> \o Rep(0, 12)   V6b == <<32, 1, 13, 184>> \o Rep(0, 4) \o Rep(255, 8)
Ts4 == [ts_type |-> 7, proto |-> 6, sport |-> 0, eport |-> 65535, saddr |-> V4a, eaddr |-> V4b]
Ts4p == [ts_type |-> 7, proto |-> 17, sport |-> 500, eport |-> 500, saddr |-> V4a, eaddr |-> V4a]
Ts6 == [ts_type |-> 8, proto |-> 0, sport |-> 0, eport |-> 65535, saddr |-> V6a, eaddr |-> V6b]
N16 == [i \in 1..16 |-> i]   N32 == [i \in 1..32 |-> 200 + (i % 50)]
N255 == [i \in 1..255 |-> i % 251]   N256 == [i \in 1..256 |-> (i * 7) % 256]          \* 3.9: nonce data of 16 .. 256 octets - both ends of the range
CorePayloads ==
  { P(33, FALSE, [proposals |-> <<p>>]) : p \in Props } \cup
  { P(33, FALSE, [proposals |-> <<p, q>>]) : p \in {x \in Props : x.proto = 3 /\ x.spi = <<1, 2, 3, 4>>}, q \in {x \in Props : x.proto = 2 /\ x.spi = <<1, 2, 3, 4>> /\ Len(x.transforms) = 2} } \cup
  \* the same suite offered under two proposal numbers / SPIs, and once more after a different one (position decides "last", not content)
  { P(33, FALSE, [proposals |-> <<p, [p EXCEPT !.num = 2, !.spi = <<5, 6, 7, 8>>]>>]) : p \in {x \in Props : x.proto = 3 /\ x.spi = <<1, 2, 3, 4>>} } \cup
  { P(33, FALSE, [proposals |-> <<p, [q EXCEPT !.num = 2], [p EXCEPT !.num = 3]>>]) :
      p \in {x \in Props : x.proto = 1 /\ x.spi = <<>> /\ Len(x.transforms) = 4}, q \in {x \in Props : x.proto = 1 /\ x.spi = <<>> /\ Len(x.transforms) = 3} } \cup
  { P(34, FALSE, [group |-> 19, data |-> N32]), P(34, TRUE, [group |-> 14, data |-> N16]),
    P(35, FALSE, [id_type |-> 1, data |-> <<192, 168, 0, 1>>]), P(36, FALSE, [id_type |-> 2, data |-> <<98, 111, 98>>]),
    P(35, FALSE, [id_type |-> 3, data |-> <<97, 64, 98>>]), P(36, FALSE, [id_type |-> 5, data |-> V6a]), P(35, TRUE, [id_type |-> 11, data |-> <<1, 255>>]),
    P(39, FALSE, [method |-> 2, data |-> N32]), P(39, FALSE, [method |-> 1, data |-> N16]),
    P(40, FALSE, [data |-> N16]), P(40, TRUE, [data |-> N32]), P(40, FALSE, [data |-> N255]), P(40, FALSE, [data |-> N256]),
    P(41, FALSE, [proto |-> 0, spi |-> <<>>, ntype |-> 16391, data |-> <<>>]), P(41, FALSE, [proto |-> 3, spi |-> <<1, 2, 3, 4>>, ntype |-> 16393, data |-> <<>>]),
    P(41, FALSE, [proto |-> 0, spi |-> <<>>, ntype |-> 17, data |-> <<0, 19>>]), P(41, TRUE, [proto |-> 1, spi |-> A8, ntype |-> 16390, data |-> N32]),
    P(42, FALSE, [proto |-> 1, spis |-> <<>>]), P(42, FALSE, [proto |-> 3, spis |-> << <<1, 2, 3, 4>> >>]),
    P(42, FALSE, [proto |-> 2, spis |-> << <<1, 2, 3, 4>>, <<5, 6, 7, 8>>, <<9, 9, 9, 9>> >>]),
    P(43, FALSE, [data |-> <<112, 121>>]), P(43, TRUE, [data |-> <<255, 254, 0>>]),
    P(44, FALSE, [ts |-> <<Ts4>>]), P(45, FALSE, [ts |-> <<Ts4p, Ts4>>]), P(44, FALSE, [ts |-> <<Ts6>>]), P(45, TRUE, [ts |-> <<Ts6, Ts6>>]),
    P(99, FALSE, [data |-> <<1, 2, 3>>]), P(99, TRUE, [data |-> <<>>]), P(47, FALSE, [data |-> N16]),
    \* payload types that RFC 7296 defines but this implementation has no parser for (CERT, CERTREQ, CP, EAP) are unknown to it all the same: critical -> rejected
    P(37, TRUE, [data |-> <<4, 1, 2>>]), P(38, TRUE, [data |-> <<4>>]), P(38, FALSE, [data |-> <<4>>]), P(47, TRUE, [data |-> <<1, 0, 0, 0>>]), P(48, TRUE, [data |-> <<1, 2, 0, 4>>]),
    P(48, FALSE, [data |-> <<>>]) }

\* the fields of a payload vary INDEPENDENTLY of each other (3.10: Protocol ID, SPI Size and SPI of a Notify; 3.11: Protocol ID, SPI size and number of SPIs
\* of a Delete; 3.4 / 3.5 / 3.8: every group / identification type / method number with every length of data; 3.13.1: selector type, protocol, ports) -
\* also in the combinations that no implementation sends itself (a Notify about no protocol that carries an SPI, a Delete for the IKE_SA with SPIs)
FieldProducts ==
  { P(41, FALSE, [proto |-> pr, spi |-> sp, ntype |-> nt, data |-> d]) : pr \in {0, 1, 2, 3}, sp \in Spis, nt \in {16391, 16393, 17, 44}, d \in {<<>>, <<0, 19>>} } \cup
  { P(42, FALSE, [proto |-> pr, spis |-> ss]) : pr \in {1, 2, 3}, ss \in { <<>>, << <<1, 2, 3, 4>> >>, << A8 >>, << <<1, 2, 3, 4>>, <<5, 6, 7, 8>> >>, << A8, B8 >> } } \cup
  { P(34, FALSE, [group |-> g, data |-> d]) : g \in {1, 2, 5, 14, 19, 21, 31}, d \in {<<>>, <<7>>, N32} } \cup
  { P(t, FALSE, [id_type |-> it, data |-> d]) : t \in {35, 36}, it \in {1, 2, 3, 5, 9, 11}, d \in {<<>>, <<192, 168, 0, 1>>, <<98, 111, 98>>} } \cup
  { P(39, FALSE, [method |-> m, data |-> d]) : m \in {1, 2, 3}, d \in {<<>>, <<7>>, N32} } \cup
  { P(44, FALSE, [ts |-> << [ts_type |-> 7, proto |-> pr, sport |-> pp[1], eport |-> pp[2], saddr |-> V4a, eaddr |-> ea] >>]) :
      pr \in {0, 1, 6, 255}, pp \in {<<0, 65535>>, <<500, 500>>, <<65535, 0>>, <<1, 2>>}, ea \in {V4a, V4b} } \cup
  \* 3.13: each selector has its own Selector Length - the families may be mixed within one payload, in any order (a dual-stack offer)
  { P(t, FALSE, [ts |-> l]) : t \in {44, 45}, l \in { <<Ts4, Ts6>>, <<Ts6, Ts4>>, <<Ts6, Ts4, Ts4p>>, <<Ts6, Ts4, Ts6>>, <<Ts4p, Ts6, Ts4>> } }
Payloads == CorePayloads \cup FieldProducts

Headers ==
  { [spi_i |-> si, spi_r |-> sr, major |-> v[1], minor |-> v[2], xchg |-> x, response |-> f[1], version |-> f[2], initiator |-> f[3], mid |-> m] :
      si \in {A8}, sr \in {Z8, B8}, v \in {<<2, 0>>, <<2, 1>>, <<3, 0>>, <<1, 15>>}, x \in {34, 35, 36, 37, 0, 255},
      f \in BOOLEAN \X BOOLEAN \X BOOLEAN, m \in {<<0, 0>>, <<0, 1>>, <<1, 0>>, <<65535, 65535>>} }
H0 == [spi_i |-> A8, spi_r |-> B8, major |-> 2, minor |-> 0, xchg |-> 34, response |-> FALSE, version |-> FALSE, initiator |-> TRUE, mid |-> <<0, 0>>]

\* ------------------------------------------------------------------------------------------------ theorems (specification vs itself)
\* the parser recovers exactly the known payloads (type, critical bit, body) of what the encoder wrote
Expect(ps) == [i \in 1..Len(SelectSeq(ps, LAMBDA p : p.t \in Known)) |->
                 LET p == SelectSeq(ps, LAMBDA q : q.t \in Known)[i] IN <<p.t, p.critical, EncBody(p)>>]
Got(b, r) == [i \in 1..Len(r.items) |-> <<r.items[i].t, r.items[i].critical, SubSeq(b, r.items[i].off, r.items[i].off + r.items[i].len - 1)>>]
RoundTrip(ps) ==
  LET b == EncChain(ps, 0)  r == ParseChain(b, FirstType(ps, 0))
      hasCriticalUnknown == \E i \in 1..Len(ps) : ps[i].t \notin Known /\ ps[i].critical
  IN IF hasCriticalUnknown THEN r.v = "critical" ELSE r.v = "ok" /\ Got(b, r) = Expect(ps)
HeaderLen(h, ps) == LET m == EncMessage(h, ps) IN Len(m) = Get16(m, 27) /\ m[25] = 0 /\ m[26] = 0 /\ Len(m) >= 28

Singles == { <<p>> : p \in Payloads }
Pairs == { <<p, q>> : p \in CorePayloads, q \in {x \in CorePayloads : x.t # 33 \/ (Len(x.proposals) = 1 /\ x.proposals[1].spi = <<>>)} }
ASSUME Mode \in {"singles", "pairs"} => \A ps \in Singles \cup {<<>>} : RoundTrip(ps) /\ HeaderLen(H0, ps)
ASSUME Mode = "pairs" => \A ps \in Pairs : RoundTrip(ps)
ASSUME Mode = "singles" => \A h \in Headers : HeaderLen(h, <<>>)

\* ------------------------------------------------------------------------------------------------ SK framing (3.14), C07
\* plaintext = inner | padding | pad length, a whole number of blocks; SK body = IV | ciphertext | ICV;
\* the MAC covers everything from the start of the IKE header to the end of the ciphertext
SkFraming(innerLen, bs, icv) ==
  LET pad == (bs - ((innerLen + 1) % bs)) % bs
      ct == innerLen + pad + 1
      body == bs + ct + icv
  IN [pad |-> pad, ct |-> ct, sk_len |-> body + 4, total |-> 28 + 4 + body, mac_covers |-> 28 + 4 + bs + ct]
SkOk == \A n \in 0..48 : \A icv \in {12, 16, 32} :
          LET f == SkFraming(n, 16, icv) IN
            /\ f.ct % 16 = 0 /\ f.pad < 16 /\ f.ct = n + f.pad + 1 /\ f.ct >= n + 1 /\ f.ct < n + 17
            /\ f.mac_covers = f.total - icv
ASSUME SkOk

\* ------------------------------------------------------------------------------------------------ mutation families (C06)
\* positions of the generic payload headers in an encoded chain (1-based offset of the "next payload" octet)
RECURSIVE HdrOffsets(_, _, _)
HdrOffsets(b, off, t) == IF t = 0 \/ Len(b) - off + 1 < 4 THEN <<>>
                         ELSE LET ln == Get16(b, off + 2) IN
                              IF ln < 4 \/ t = 46 THEN <<off>> ELSE <<off>> \o HdrOffsets(b, off + ln, b[off])
SetAt(b, i, x) == [b EXCEPT ![i] = x]
Set16(b, i, n) == [b EXCEPT ![i] = (n \div 256) % 256, ![i + 1] = n % 256]
LenValues(exact) == {0, 1, 2, 3, 4, 5, exact, exact + 1, 65535} \cup (IF exact > 0 THEN {exact - 1} ELSE {})
NextValues(same) == {0, same, 33, 34, 40, 41, 43, 46, 99, 255}
BaseLists == { <<p>> : p \in {x \in CorePayloads : x.t \in {33, 34, 40, 41, 42, 44, 99}} } \cup
             { <<p, q>> : p \in {x \in CorePayloads : x.t \in {40, 99} /\ ~x.critical}, q \in {x \in CorePayloads : x.t \in {41, 43}} }
Mutations ==
  UNION { LET b == EncChain(ps, 0)  offs == HdrOffsets(b, 1, FirstType(ps, 0)) IN
            UNION { { [base |-> ps, kind |-> "len", at |-> offs[k], b |-> Set16(b, offs[k] + 2, v)] : v \in LenValues(Get16(b, offs[k] + 2)) }
                    \cup { [base |-> ps, kind |-> "next", at |-> offs[k], b |-> SetAt(b, offs[k], v)] : v \in NextValues(b[offs[k]]) }
                    : k \in 1..Len(offs) }
          : ps \in BaseLists }
\* nested structures (3.3.2 transform substructure, 3.3.5 transform attributes): an SA payload whose first transform carries raw attribute
\* octets - fixed (AF=1, 4 octets) and variable length (AF=0, 4 + length octets) attributes of several types, every length menu value, with and
\* without value octets behind them, alone, after another attribute and before the Key Length attribute; all enclosing lengths are consistent.
\* The specification demands nothing of these but a verdict (v = "any"): a parser must finish on them and fail, if at all, with a protocol error.
Attr(af, ty, lv, body) == U16((IF af THEN 32768 ELSE 0) + ty) \o U16(lv) \o body
AttrMenu == { Attr(af, ty, lv, body) : af \in BOOLEAN, ty \in {0, 1, 14, 32767}, lv \in {0, 1, 2, 3, 4, 5, 8, 65535}, body \in {<<>>, Rep(0, 8), <<1, 2, 3, 4>>} }
AttrLists == AttrMenu \cup { Attr(TRUE, 1, 5, <<>>) \o a : a \in AttrMenu } \cup { a \o Attr(TRUE, 14, 128, <<>>) : a \in AttrMenu }
RawTransform(ty, id, attrs, last) == LET body == U8(ty) \o U8(0) \o U16(id) \o attrs IN U8(IF last THEN 0 ELSE 3) \o U8(0) \o U16(Len(body) + 4) \o body
RawSa(ts, n) == LET pbody == U8(1) \o U8(1) \o U8(0) \o U8(n) \o ts
                    prop == U8(0) \o U8(0) \o U16(Len(pbody) + 4) \o pbody
                IN U8(0) \o U8(0) \o U16(Len(prop) + 4) \o prop
AttrMutations == { [base |-> <<P(33, FALSE, [proposals |-> <<>>])>>, kind |-> "attr", at |-> 17,
                    b |-> RawSa(RawTransform(1, 12, a, FALSE) \o RawTransform(3, 12, <<>>, FALSE) \o RawTransform(2, 5, <<>>, FALSE) \o RawTransform(4, 19, <<>>, TRUE), 4)]
                   : a \in AttrLists }
\* the chain parser is total: it delivers a verdict on every mutant
ASSUME Mode = "mutations" => \A m \in Mutations : ParseChain(m.b, FirstType(m.base, 0)).v \in {"ok", "syntax", "critical"}
\* the generic chain around the raw substructures is well formed: one SA payload that ends exactly at the end of the data
ASSUME Mode = "mutations" => \A m \in AttrMutations : ParseChain(m.b, 33).v = "ok" 

\* ------------------------------------------------------------------------------------------------ vectors
MsgVec(h, ps) == [h |-> h, ps |-> ps, b |-> EncMessage(h, ps)]
Vectors ==
  CASE Mode = "singles" -> [msgs |-> { MsgVec(H0, ps) : ps \in Singles \cup {<<>>} } \cup { MsgVec(h, <<>>) : h \in Headers }]
    [] Mode = "pairs" -> [msgs |-> { MsgVec(H0, ps) : ps \in Pairs }]
    [] Mode = "mutations" -> [muts |-> { [first |-> FirstType(m.base, 0), kind |-> m.kind, at |-> m.at, b |-> m.b,
                                          v |-> ParseChain(m.b, FirstType(m.base, 0)).v,
                                          bodies_fit |-> \A i \in 1..Len(ParseChain(m.b, FirstType(m.base, 0)).items) : ParseChain(m.b, FirstType(m.base, 0)).items[i].fits]
                                         : m \in Mutations }
                                     \cup { [first |-> 33, kind |-> m.kind, at |-> m.at, b |-> m.b, v |-> "any", bodies_fit |-> TRUE] : m \in AttrMutations }]
    [] Mode = "sk" -> [sk |-> { [n |-> n, icv |-> icv, f |-> SkFraming(n, 16, icv)] : n \in 0..48, icv \in {12, 16, 32} }]
ASSUME OutFile = "" \/ JsonSerialize(OutFile, Vectors)

VARIABLE dummy
Init == dummy = 0
Next == UNCHANGED dummy
=========================================================================================
