--------------------------------- MODULE MC ---------------------------------
(* Model-checking instance of Ike: constant definitions, VIEW, JSON edge dump for the replay binding. *)
EXTENDS Ike, Json

DhSame == [e \in E |-> <<1>>]
DhMismatch == [e \in E |-> IF e = "A" THEN <<1, 2>> ELSE <<2, 1>>]
DhNone == [e \in E |-> <<>>]

\* history variables (dh, last) only observe: hide them from the fingerprint
View == <<sas, table, kern, net, nspi, trig, dups, loss, adv>>

\* JSON image of ALL variables of the View (a non-injective projection would merge states while stitching paths).
\* Message headers inside an IKE_SA record are functions of the record, so only <<x, mid, body>> is printed.
MsgC(m) == IF m = NoMsg THEN <<>> ELSE <<m.x, m.mid, m.body>>
SaC(s) == [id |-> s, st |-> sas[s].st, init |-> sas[s].init, peer |-> sas[s].peer, myMid |-> sas[s].myMid, peerMid |-> sas[s].peerMid,
           req |-> MsgC(sas[s].req), lastResp |-> MsgC(sas[s].lastResp), kids |-> sas[s].kids, creating |-> sas[s].creating,
           rekeying |-> sas[s].rekeying, deleting |-> sas[s].deleting, newSa |-> sas[s].newSa, pending |-> sas[s].pending,
           cookie |-> sas[s].cookie, keys |-> sas[s].keys, iv |-> sas[s].iv, group |-> sas[s].group]
Proj == [sas |-> {SaC(s) : s \in DOMAIN sas}, table |-> table, kern |-> kern, net |-> net, nspi |-> nspi,
         b |-> <<trig, dups, loss, adv>>]

\* Edge dump for the replay binding.  TLC (one worker, breadth first) expands states in the order it discovered them, so the
\* source of an edge is identified by an ordinal kept in a TLC register; Probe (a stuttering step on the View) gives every
\* expanded state at least one edge, so the ordinal of a source = its rank among the discovered states that satisfy the
\* state constraint.  (Validated once against a dump that printed the full source state.)
Probe == UNCHANGED <<sas, table, kern, net, nspi, trig, dups, loss, adv, dh>> /\ last' = [a |-> "Probe"]
DumpNext == Next \/ Probe
DumpSpec == Init /\ [][DumpNext]_vars
SrcOrdinal ==
  IF TLCGet(1) = View THEN TLCGet(2)
  ELSE IF TLCSet(1, View) /\ TLCSet(2, TLCGet(2) + 1) THEN TLCGet(2) ELSE 0
EdgeDump == LET i == SrcOrdinal IN
            /\ i >= 0
            /\ IF i = 1 /\ TLCGet(3) = 0 THEN TLCSet(3, 1) /\ PrintT(<<"INIT", ToJson(Proj)>>) ELSE TRUE
            /\ IF last'.a = "Probe" THEN TRUE
               ELSE PrintT(<<"EDGE", ToJson([f |-> i, a |-> last', dd |-> [e \in E |-> dh'[e] - dh[e]], t |-> Proj'])>>)
EdgeDumpFull == LET i == SrcOrdinal IN
            IF i >= 0 /\ last'.a = "Probe" THEN TRUE
            ELSE PrintT(<<"EDGE", ToJson([f |-> i, ff |-> Proj, a |-> last', dd |-> [e \in E |-> dh'[e] - dh[e]], t |-> Proj'])>>)
DumpInit == TLCSet(1, <<>>) /\ TLCSet(2, 0) /\ TLCSet(3, 0)
ASSUME DumpInit
=============================================================================
