---------------------------------- MODULE KeySchedule ----------------------------------
(***************************************************************************************************)
(* C04 / C01 - the key schedule of RFC 7296 2.13-2.18 as a symbolic derivation PLAN.               *)
(* TLC cannot evaluate HMAC (32-bit integers), so this module fixes the STRUCTURE - which inputs    *)
(* in which order, which prf+ counters, which slice goes to which key - for every negotiable suite, *)
(* checks the structural theorems over all suites, and writes the plans as JSON.  The harness       *)
(* evaluates the plans with stdlib HMAC (harness/plan_eval.py) and compares every octet of the      *)
(* implementation's key rings and of the keys inside its XFRM_MSG_NEWSA requests against them.      *)
(***************************************************************************************************)
EXTENDS Naturals, Sequences, FiniteSets, TLC, Json

CONSTANT OutFile

\* transform identifiers (IANA) and their sizes in octets
PrfIds   == {2, 5, 7}                         \* HMAC-SHA1, HMAC-SHA2-256, HMAC-SHA2-512
IntegIds == {2, 12, 14}                       \* HMAC-SHA1-96, HMAC-SHA2-256-128, HMAC-SHA2-512-256
EncrBits == {128, 256}                        \* AES-CBC key lengths
PrfLen   == [x \in PrfIds |-> CASE x = 2 -> 20 [] x = 5 -> 32 [] x = 7 -> 64]      \* output = preferred key size
IntegKey == [x \in IntegIds |-> CASE x = 2 -> 20 [] x = 12 -> 32 [] x = 14 -> 64]
IntegIcv == [x \in IntegIds |-> CASE x = 2 -> 12 [] x = 12 -> 16 [] x = 14 -> 32]

Ceil(a, b) == (a + b - 1) \div b

\* ---------------------------------------------------------------------------------------------- prf+ (RFC 7296 2.13)
\* T1 = prf(K, S | 0x01), Ti = prf(K, T(i-1) | S | i); the counter is ONE octet
PrfPlusBlocks(prf, n) == Ceil(n, PrfLen[prf])
PrfPlusPlan(prf, n) == [i \in 1..PrfPlusBlocks(prf, n) |->
                          [data |-> (IF i = 1 THEN <<>> ELSE <<"T_prev">>) \o <<"SEED", "COUNTER">>, counter |-> i]]

\* a cut of a byte string into consecutive named slices
RECURSIVE Cut(_, _)
Cut(names, off) == IF names = <<>> THEN <<>>
                   ELSE << [name |-> Head(names)[1], off |-> off, len |-> Head(names)[2]] >> \o Cut(Tail(names), off + Head(names)[2])
RECURSIVE SumLen(_)
SumLen(sl) == IF sl = <<>> THEN 0 ELSE Head(sl).len + SumLen(Tail(sl))

\* ---------------------------------------------------------------------------------------------- IKE_SA keys (2.14, 2.18)
IkeSuites == [prf : PrfIds, integ : IntegIds, encr : EncrBits]

\* SKEYSEED = prf(Ni | Nr, g^ir)            initial exchanges
\* SKEYSEED = prf(SK_d (old), g^ir (new) | Ni | Nr)     IKE_SA rekey
\*   "The old and new IKE SA may have selected a different PRF.  Because the rekeying exchange belongs to the old IKE SA, it is the old IKE SA's PRF
\*    that is used to generate SKEYSEED" (2.18) - everything after it (prf+, the cut) uses the PRF negotiated for the NEW IKE_SA
Skeyseed(rekey) == IF rekey THEN [fn |-> "prf_old", key |-> <<"SK_d_old">>, data |-> <<"g^ir", "Ni", "Nr">>]
                   ELSE [fn |-> "prf", key |-> <<"Ni", "Nr">>, data |-> <<"g^ir">>]

\* {SK_d | SK_ai | SK_ar | SK_ei | SK_er | SK_pi | SK_pr} = prf+(SKEYSEED, Ni | Nr | SPIi | SPIr)
IkeSlices(s) == Cut(<< <<"sk_d", PrfLen[s.prf]>>, <<"sk_ai", IntegKey[s.integ]>>, <<"sk_ar", IntegKey[s.integ]>>,
                       <<"sk_ei", s.encr \div 8>>, <<"sk_er", s.encr \div 8>>, <<"sk_pi", PrfLen[s.prf]>>, <<"sk_pr", PrfLen[s.prf]>> >>, 0)
IkePlan(s, rekey) == [suite |-> s, rekey |-> rekey, skeyseed |-> Skeyseed(rekey),
                      prfplus |-> [key |-> "SKEYSEED", seed |-> <<"Ni", "Nr", "SPIi", "SPIr">>, total |-> SumLen(IkeSlices(s)),
                                   blocks |-> PrfPlusBlocks(s.prf, SumLen(IkeSlices(s)))],
                      slices |-> IkeSlices(s),
                      \* which half protects which direction (RFC 7296 2.14): messages of the ORIGINAL initiator use SK_ei / SK_ai
                      initiator_sends_with |-> <<"sk_ei", "sk_ai", "sk_pi">>, responder_sends_with |-> <<"sk_er", "sk_ar", "sk_pr">>]

\* ---------------------------------------------------------------------------------------------- CHILD_SA keys (2.17)
\* KEYMAT = prf+(SK_d, [g^ir (new) |] Ni | Nr); for each direction encryption key first, then integrity key;
\* all keys for the SA carrying data from the (exchange) initiator to the responder come first
ChildSuites == [prf : PrfIds, integ : IntegIds, encr : EncrBits \cup {0}]          \* encr = 0: AH
ChildSlices(c) == Cut(<< <<"ei", c.encr \div 8>>, <<"ai", IntegKey[c.integ]>>, <<"er", c.encr \div 8>>, <<"ar", IntegKey[c.integ]>> >>, 0)
ChildPlan(c, pfs) == [suite |-> c, pfs |-> pfs,
                      prfplus |-> [key |-> "SK_d", seed |-> (IF pfs THEN <<"g^ir">> ELSE <<>>) \o <<"Ni", "Nr">>, total |-> SumLen(ChildSlices(c)),
                                   blocks |-> PrfPlusBlocks(c.prf, SumLen(ChildSlices(c)))],
                      slices |-> ChildSlices(c),
                      initiator_to_responder |-> <<"ei", "ai">>, responder_to_initiator |-> <<"er", "ar">>]

\* ---------------------------------------------------------------------------------------------- AUTH (2.15)
\* octets signed by a side = its own IKE_SA_INIT message | the OTHER side's nonce | prf(SK_p(own), ID payload body)
AuthPlan == [initiator |-> [octets |-> <<"IKE_SA_INIT_request", "Nr", "MACedIDi">>, maced_id |-> [fn |-> "prf", key |-> <<"sk_pi">>, data |-> <<"IDi_body">>]],
             responder |-> [octets |-> <<"IKE_SA_INIT_response", "Ni", "MACedIDr">>, maced_id |-> [fn |-> "prf", key |-> <<"sk_pr">>, data |-> <<"IDr_body">>]],
             psk |-> [fn |-> "prf", key |-> [fn |-> "prf", key |-> <<"PSK">>, data |-> <<"'Key Pad for IKEv2'">>], data |-> <<"octets">>]]

\* ---------------------------------------------------------------------------------------------- structural theorems
Contiguous(sl) == /\ sl[1].off = 0
                  /\ \A i \in 1..(Len(sl) - 1) : sl[i + 1].off = sl[i].off + sl[i].len
Names(sl) == {sl[i].name : i \in 1..Len(sl)}
IkePlanOk(s, rk) == LET p == IkePlan(s, rk) IN
   /\ Contiguous(p.slices) /\ Len(p.slices) = 7 /\ Cardinality(Names(p.slices)) = 7
   /\ p.prfplus.total = 3 * PrfLen[s.prf] + 2 * IntegKey[s.integ] + 2 * (s.encr \div 8)
   /\ p.prfplus.blocks * PrfLen[s.prf] >= p.prfplus.total /\ (p.prfplus.blocks - 1) * PrfLen[s.prf] < p.prfplus.total
   /\ p.prfplus.blocks <= 255
   /\ rk => (p.skeyseed.key = <<"SK_d_old">> /\ p.skeyseed.data[1] = "g^ir" /\ p.skeyseed.fn = "prf_old")         \* the OLD SK_d keys the new SKEYSEED, under the OLD prf
   /\ ~rk => p.skeyseed.fn = "prf"
   /\ ~rk => (p.skeyseed.key = <<"Ni", "Nr">> /\ p.skeyseed.data = <<"g^ir">>)
   /\ p.slices[1].name = "sk_d" /\ p.slices[4].name = "sk_ei" /\ p.slices[5].name = "sk_er"   \* initiator direction first
ChildPlanOk(c, pfs) == LET p == ChildPlan(c, pfs) IN
   /\ Contiguous(p.slices) /\ p.prfplus.total = 2 * IntegKey[c.integ] + 2 * (c.encr \div 8)
   /\ p.slices[1].name = "ei" /\ p.slices[2].name = "ai" /\ p.slices[3].name = "er" /\ p.slices[4].name = "ar"
   /\ p.prfplus.blocks <= 255
   /\ pfs => p.prfplus.seed[1] = "g^ir"
   /\ p.prfplus.seed[Len(p.prfplus.seed) - 1] = "Ni" /\ p.prfplus.seed[Len(p.prfplus.seed)] = "Nr"
PrfPlusOk == \A prf \in PrfIds : \A n \in 1..(8 * 64 + 1) :
               LET pl == PrfPlusPlan(prf, n) IN
                 /\ Len(pl) = Ceil(n, PrfLen[prf]) /\ pl[1].counter = 1 /\ pl[1].data = <<"SEED", "COUNTER">>
                 /\ \A i \in 2..Len(pl) : pl[i].counter = i /\ pl[i].data = <<"T_prev", "SEED", "COUNTER">>

ASSUME \A s \in IkeSuites : \A rk \in BOOLEAN : IkePlanOk(s, rk)
ASSUME \A c \in ChildSuites : \A pfs \in BOOLEAN : ChildPlanOk(c, pfs)
ASSUME PrfPlusOk

Plans == [ike |-> {IkePlan(s, rk) : s \in IkeSuites, rk \in BOOLEAN},
          child |-> {ChildPlan(c, pfs) : c \in ChildSuites, pfs \in BOOLEAN},
          auth |-> AuthPlan,
          prfplus |-> [first |-> <<"SEED", "COUNTER">>, next |-> <<"T_prev", "SEED", "COUNTER">>, first_counter |-> 1, counter_octets |-> 1],
          sizes |-> [prf |-> {<<x, PrfLen[x]>> : x \in PrfIds}, integ_key |-> {<<x, IntegKey[x]>> : x \in IntegIds},
                     integ_icv |-> {<<x, IntegIcv[x]>> : x \in IntegIds}]]
ASSUME OutFile = "" \/ JsonSerialize(OutFile, Plans)
ASSUME PrintT(<<"PLANS", Cardinality(Plans.ike), Cardinality(Plans.child)>>)

VARIABLE dummy
Init == dummy = 0
Next == UNCHANGED dummy
==========================================================================================
