------------------------------------- MODULE Auth -------------------------------------
(***************************************************************************************************)
(* C02 - IKE_SA_INIT + IKE_AUTH with an active man in the middle (RFC 7296 2.15).                   *)
(* Each honest side keeps ITS OWN VIEW of the two IKE_SA_INIT messages.  The attacker may replace   *)
(* any subset of the fields of messages 1 and 2; it owns the keys it shares with a side iff it      *)
(* substituted the KE value that side received, and it can open and re-seal messages 3 and 4 only   *)
(* when it owns the keys on both sides (otherwise they are opaque: any change breaks the checksum). *)
(* AUTH is a term over the signer's view: its own IKE_SA_INIT message, the other side's nonce and   *)
(* prf(SK_p, ID); the verifier recomputes it from ITS view under the credential configured for the  *)
(* configured peer identity.                                                                        *)
(***************************************************************************************************)
EXTENDS Naturals, Sequences, FiniteSets, TLC, Json

CONSTANTS SignInitMsg,      \* TRUE = RFC 7296 2.15 (AUTH covers the signer's own IKE_SA_INIT message); FALSE = a weakened protocol (to see the attack)
          CredIOk,          \* the responder is configured with the initiator's real credential and identity
          CredROk,          \* the initiator is configured with the responder's real credential and identity
          Msg34Rewrites     \* what an attacker who owns both key sets does to the AUTH payloads: subset of {"none","reflect","replay","swapid","method","flip","empty","prefix","extend","pskempty","pskid"}

Fields == {"ni", "nr", "kei", "ker", "spii", "spir", "offer", "chosen"}
ReqFields == {"ni", "kei", "spii", "offer"}
ResFields == {"nr", "ker", "spir", "chosen"}

VARIABLES phase, vI, vR, stI, stR, installed, last
vars == <<phase, vI, vR, stI, stR, installed, last>>

Honest(f) == <<"honest", f>>
Evil(f)   == <<"evil", f>>
Weaker(f) == <<"weaker", f>>        \* another value that the honest sides also accept (an offered but weaker transform / a reduced offer)

\* IKE keys are a function of everything that feeds SKEYSEED / SK_* and of the negotiated suite
DhSecret(v) == {v.kei, v.ker}
Keys(v) == <<v.ni, v.nr, v.spii, v.spir, DhSecret(v), v.chosen>>
AttackerKnows(v) == Evil("kei") \in DhSecret(v) \/ Evil("ker") \in DhSecret(v)
ReqMsg(v) == [f \in ReqFields |-> v[f]]
ResMsg(v) == [f \in ResFields |-> v[f]]
OctetsI(v, id) == <<IF SignInitMsg THEN ReqMsg(v) ELSE "nothing", v.nr, <<Keys(v), "pi", id>> >>
OctetsR(v, id) == <<IF SignInitMsg THEN ResMsg(v) ELSE "nothing", v.ni, <<Keys(v), "pr", id>> >>

Init ==
  /\ phase = 1
  /\ vI = [f \in Fields |-> IF f \in ReqFields THEN Honest(f) ELSE <<"unknown", f>>]
  /\ vR = [f \in Fields |-> <<"unknown", f>>]
  /\ stI = "INIT_REQ_SENT" /\ stR = "NONE"
  /\ installed = {}
  /\ last = [a |-> "Init"]

\* message 1 in flight: any subset of its fields replaced (the offer by a reduced one: "weaker")
Subst(f) == IF f = "offer" THEN Weaker(f) ELSE Evil(f)
Msg1 ==
  /\ phase = 1
  /\ \E S \in SUBSET ReqFields : \E rp \in BOOLEAN :
       \* rp: after the (possibly rewritten) request has been answered, the attacker also lets the GENUINE request through (same SPI, same address) while the
       \* responder IKE_SA is half-open.  That is a second request: what the responder holds for the first exchange - and will check AUTH against - stays.
       /\ vR' = [f \in Fields |-> IF f \in ReqFields THEN (IF f \in S THEN Subst(f) ELSE vI[f])
                                  ELSE IF f \in ResFields THEN (IF f = "chosen" /\ "offer" \in S THEN Weaker("chosen") ELSE Honest(f)) ELSE <<"unknown", f>>]
       /\ last' = [a |-> "Msg1", s |-> S, replay |-> rp]
  /\ stR' = "INIT_RES_SENT" /\ phase' = 2
  /\ UNCHANGED <<vI, stI, installed>>

\* message 2 in flight; the initiator refuses a chosen proposal that is not drawn from its own offer
ChosenOptions == {"keep", "foreign", "weaker"}
Msg2 ==
  /\ phase = 2
  /\ \E S \in SUBSET (ResFields \ {"chosen"}) : \E c \in ChosenOptions :
       LET got == [f \in ResFields |-> IF f = "chosen" THEN (IF c = "foreign" THEN Evil(f) ELSE IF c = "weaker" THEN Weaker(f) ELSE vR[f])
                                       ELSE IF f \in S THEN Evil(f) ELSE vR[f]] IN
       /\ last' = [a |-> "Msg2", s |-> S, chosen |-> c]
       /\ IF got.chosen = Evil("chosen")
          THEN /\ stI' = "DELETED" /\ vI' = vI /\ phase' = 9
          ELSE /\ vI' = [f \in Fields |-> IF f \in ResFields THEN got[f] ELSE vI[f]]
               /\ stI' = "AUTH_REQ_SENT" /\ phase' = 3
  /\ UNCHANGED <<vR, stR, installed>>

CanReseal == AttackerKnows(vI) /\ AttackerKnows(vR)

\* message 3 reaches R intact iff the keys agree; re-sealed (possibly with a changed AUTH / ID) iff the attacker owns both key sets
Msg3 ==
  /\ phase = 3
  /\ \E rw \in (IF CanReseal THEN Msg34Rewrites ELSE {"none"}) :
       /\ last' = [a |-> "Msg3", rw |-> rw, reseal |-> CanReseal /\ Keys(vI) # Keys(vR)]
       /\ IF Keys(vI) = Keys(vR) \/ CanReseal THEN
             IF CredIOk /\ rw = "none" /\ OctetsI(vI, "idI") = OctetsI(vR, "idI")
             THEN /\ stR' = "ESTABLISHED" /\ installed' = installed \cup {"R"} /\ phase' = 4
             ELSE /\ stR' = "DELETED" /\ installed' = installed /\ phase' = 5          \* AUTHENTICATION_FAILED goes back to I
          ELSE /\ stR' = stR /\ installed' = installed /\ phase' = 9                    \* integrity failure: dropped
  /\ UNCHANGED <<vI, vR, stI>>

Msg4 ==
  /\ phase = 4
  /\ \E rw \in (IF CanReseal THEN Msg34Rewrites ELSE {"none"}) :
       /\ last' = [a |-> "Msg4", rw |-> rw, reseal |-> CanReseal /\ Keys(vI) # Keys(vR)]
       /\ IF Keys(vI) = Keys(vR) \/ CanReseal THEN
             IF CredROk /\ rw = "none" /\ OctetsR(vR, "idR") = OctetsR(vI, "idR")
             THEN /\ stI' = "ESTABLISHED" /\ installed' = installed \cup {"I"}
             ELSE /\ stI' = "DELETED" /\ installed' = installed
          ELSE /\ stI' = stI /\ installed' = installed
  /\ phase' = 9
  /\ UNCHANGED <<vI, vR, stR>>

\* the failure notification of R travels back (protected): I gives up
Msg4Fail ==
  /\ phase = 5
  /\ last' = [a |-> "Msg4Fail"]
  /\ stI' = IF Keys(vI) = Keys(vR) \/ CanReseal THEN "DELETED" ELSE stI
  /\ phase' = 9
  /\ UNCHANGED <<vI, vR, stR, installed>>

\* Impersonation of the responder: the attacker answers message 1 ITSELF (the real responder never takes part), with its own nonce, KE value and SPI
\* and a choice drawn from the offer - so it owns the keys of the IKE_SA legitimately - and then claims the responder's identity with an AUTH payload it
\* has to make up: it does not hold the responder's credential.  Whatever it sends (ForgeMenu), the initiator must end in failure with nothing installed.
ForgeMenu == {"empty", "random", "pskempty", "pskid", "replay", "rsagarbage", "copyi", "noauth"}
ImpMsg2 ==
  /\ phase = 1
  /\ vI' = [f \in Fields |-> IF f \in ResFields THEN (IF f = "chosen" THEN Honest(f) ELSE Evil(f)) ELSE vI[f]]
  /\ stI' = "AUTH_REQ_SENT" /\ phase' = 6
  /\ last' = [a |-> "ImpMsg2"]
  /\ UNCHANGED <<vR, stR, installed>>
ImpMsg4 ==
  /\ phase = 6
  /\ \E f \in ForgeMenu : last' = [a |-> "ImpMsg4", forge |-> f]
  /\ stI' = "DELETED" /\ phase' = 9
  /\ UNCHANGED <<vI, vR, stR, installed>>

\* Impersonation of the initiator: the attacker starts the exchange ITSELF towards the responder (own nonce, KE value, SPI), owns the keys, and then claims the
\* initiator's identity with a made-up AUTH payload - or skips IKE_AUTH altogether and sends another protected exchange (CREATE_CHILD_SA, INFORMATIONAL)
\* as its second message.  The responder must not establish and must not install anything.
ImpIMenu == ForgeMenu \cup {"ccsa-instead", "info-instead"}
ImpIMsg1 ==
  /\ phase = 1
  /\ vR' = [f \in Fields |-> IF f \in ReqFields THEN Evil(f) ELSE IF f \in ResFields THEN Honest(f) ELSE <<"unknown", f>>]
  /\ stR' = "INIT_RES_SENT" /\ phase' = 7
  /\ last' = [a |-> "ImpIMsg1"]
  /\ UNCHANGED <<vI, stI, installed>>
ImpIMsg3 ==
  /\ phase = 7
  /\ \E f \in ImpIMenu : last' = [a |-> "ImpIMsg3", forge |-> f]
  /\ stR' = "DELETED" /\ phase' = 9
  /\ UNCHANGED <<vI, vR, stI, installed>>

Next == Msg1 \/ Msg2 \/ Msg3 \/ Msg4 \/ Msg4Fail \/ ImpMsg2 \/ ImpMsg4 \/ ImpIMsg1 \/ ImpIMsg3
Spec == Init /\ [][Next]_vars

\* ---------------------------------------------------------------------------------------------- properties
\* whenever both sides are established they agree on offer, choice, nonces, KE values and SPIs
Agreement == (stI = "ESTABLISHED" /\ stR = "ESTABLISHED") => vI = vR
\* a side establishes only over the exchange it really saw
ResponderAgreement == stR = "ESTABLISHED" => (ReqMsg(vR) = ReqMsg(vI) /\ vR.nr = vI.nr /\ Keys(vR) = Keys(vI) /\ CredIOk)
InitiatorAgreement == stI = "ESTABLISHED" => (vI = vR /\ CredROk /\ stR = "ESTABLISHED")
NoInstallWithoutAuth == \A x \in installed : (x = "R" => stR = "ESTABLISHED") /\ (x = "I" => stI = "ESTABLISHED")
\* the attacker never shares keys with an established side
NoKeyCompromise == (stR = "ESTABLISHED" => ~AttackerKnows(vR)) /\ (stI = "ESTABLISHED" => ~AttackerKnows(vI))

View == <<phase, vI, vR, stI, stR, installed>>
Proj == [phase |-> phase, stI |-> stI, stR |-> stR, installed |-> installed, keysAgree |-> Keys(vI) = Keys(vR), canReseal |-> CanReseal]
EdgeDump == PrintT(<<"EDGE", ToJson([ff |-> Proj, fid |-> <<phase, vI, vR, stI, stR, installed>>, a |-> last', dd |-> 0, t |-> Proj', tid |-> <<phase', vI', vR', stI', stR', installed'>>])>>)
=========================================================================================
