----------------------------------- MODULE XfrmWire -----------------------------------
(***************************************************************************************************)
(* C14 - the NETLINK_XFRM requests of the daemon as byte layouts of the kernel UAPI                  *)
(* (<linux/netlink.h>, <linux/xfrm.h>; x86-64: little-endian scalars, network order for addresses,   *)
(* ports and SPIs).  The layout table below is NOT trusted: the check compares it with the           *)
(* sizeof/offsetof values printed by a C program compiled against the kernel headers of the image.   *)
(* Intent -> bytes (EncNewSa, EncDelSa, EncNewPolicy, EncFlush); TLC checks framing theorems and     *)
(* writes (intent, bytes) vectors.  Multi-limb integers: sequences of 16-bit limbs, most significant *)
(* first.                                                                                            *)
(***************************************************************************************************)
EXTENDS Naturals, Sequences, FiniteSets, TLC, Json

CONSTANT OutFile

\* ---------------------------------------------------------------------------------------------- layout (offset, size)
L == [ nlmsghdr |-> 16, nlmsg_len |-> <<0, 4>>, nlmsg_type |-> <<4, 2>>, nlmsg_flags |-> <<6, 2>>, nlmsg_seq |-> <<8, 4>>, nlmsg_pid |-> <<12, 4>>,
       nlattr |-> 4,
       sel |-> 56, sel_daddr |-> <<0, 16>>, sel_saddr |-> <<16, 16>>, sel_dport |-> <<32, 2>>, sel_dport_mask |-> <<34, 2>>, sel_sport |-> <<36, 2>>,
       sel_sport_mask |-> <<38, 2>>, sel_family |-> <<40, 2>>, sel_prefixlen_d |-> <<42, 1>>, sel_prefixlen_s |-> <<43, 1>>, sel_proto |-> <<44, 1>>,
       id |-> 24, id_daddr |-> <<0, 16>>, id_spi |-> <<16, 4>>, id_proto |-> <<20, 1>>,
       lft |-> 64,
       usersa_info |-> 224, sa_sel |-> <<0, 56>>, sa_id |-> <<56, 24>>, sa_saddr |-> <<80, 16>>, sa_lft |-> <<96, 64>>, sa_family |-> <<212, 2>>,
       sa_mode |-> <<214, 1>>, sa_replay_window |-> <<215, 1>>, sa_flags |-> <<216, 1>>,
       usersa_id |-> 24, said_daddr |-> <<0, 16>>, said_spi |-> <<16, 4>>, said_family |-> <<20, 2>>, said_proto |-> <<22, 1>>,
       userpolicy_info |-> 168, pol_sel |-> <<0, 56>>, pol_lft |-> <<56, 64>>, pol_priority |-> <<152, 4>>, pol_index |-> <<156, 4>>, pol_dir |-> <<160, 1>>,
       pol_action |-> <<161, 1>>, pol_flags |-> <<162, 1>>, pol_share |-> <<163, 1>>,
       user_tmpl |-> 64, tmpl_id |-> <<0, 24>>, tmpl_family |-> <<24, 2>>, tmpl_saddr |-> <<28, 16>>, tmpl_reqid |-> <<44, 4>>, tmpl_mode |-> <<48, 1>>,
       tmpl_share |-> <<49, 1>>, tmpl_optional |-> <<50, 1>>, tmpl_aalgos |-> <<52, 4>>, tmpl_ealgos |-> <<56, 4>>, tmpl_calgos |-> <<60, 4>>,
       usersa_flush |-> 1, algo |-> 68, algo_name |-> <<0, 64>>, algo_key_len |-> <<64, 4>>, algo_key |-> 68 ]
C == [ NEWSA |-> 16, DELSA |-> 17, NEWPOLICY |-> 19, FLUSHSA |-> 28, FLUSHPOLICY |-> 29, ALG_AUTH |-> 1, ALG_CRYPT |-> 2, TMPL |-> 5,
       REQUEST |-> 1, ACK |-> 4, AF_INET |-> 2, AF_INET6 |-> 10, ALLOW |-> 0 ]

\* ---------------------------------------------------------------------------------------------- byte helpers
Zeros(n) == [i \in 1..n |-> 0]
Hi(x) == x \div 256   Lo(x) == x % 256
\* little-endian image of a multi-limb value (limbs most significant first) in `size` octets
LE(limbs, size) == LET n == Len(limbs)
                       bytes == [i \in 1..(2 * n) |-> LET limb == limbs[n - ((i - 1) \div 2)] IN IF i % 2 = 1 THEN Lo(limb) ELSE Hi(limb)]
                   IN [i \in 1..size |-> IF i <= 2 * n THEN bytes[i] ELSE 0]
BE16(x) == <<Hi(x), Lo(x)>>
FixLen(b, n) == [i \in 1..n |-> IF i <= Len(b) THEN b[i] ELSE 0]
\* a structure image: fields <<layout entry, bytes>> in ascending offset order, zero elsewhere (linear in the size)
RECURSIVE BuildFrom(_, _, _)
BuildFrom(pos, items, total) ==
  IF items = <<>> THEN Zeros(total - pos)
  ELSE LET f == Head(items)[1]  b == Head(items)[2] IN Zeros(f[1] - pos) \o FixLen(b, f[2]) \o BuildFrom(f[1] + f[2], Tail(items), total)
Build(total, items) == BuildFrom(0, items, total)
Pad16(a) == FixLen(a, 16)
Align4(n) == ((n + 3) \div 4) * 4
Family(a) == IF Len(a) = 4 THEN C.AF_INET ELSE C.AF_INET6
AllOnes64 == <<65535, 65535, 65535, 65535>>

\* ---------------------------------------------------------------------------------------------- structures
EncSelector(s) ==
  Build(L.sel, << <<L.sel_daddr, s.daddr>>, <<L.sel_saddr, s.saddr>>,
                  <<L.sel_dport, BE16(s.dport)>>, <<L.sel_dport_mask, IF s.dport = 0 THEN <<0, 0>> ELSE <<255, 255>> >>,   \* network order, all-ones mask when set
                  <<L.sel_sport, BE16(s.sport)>>, <<L.sel_sport_mask, IF s.sport = 0 THEN <<0, 0>> ELSE <<255, 255>> >>,
                  <<L.sel_family, LE(<<Family(s.saddr)>>, 2)>>, <<L.sel_prefixlen_d, <<s.plen_d>> >>, <<L.sel_prefixlen_s, <<s.plen_s>> >>,
                  <<L.sel_proto, <<s.proto>> >> >>)

\* lifetime -1 (no limit) or L seconds: soft after L, hard after L + 10; byte / packet limits unlimited
Add10(l) == [l EXCEPT ![Len(l)] = @ + 10]
EncLft(life) ==
  LET inf == LE(AllOnes64, 8)
      soft == IF life.unlimited THEN Zeros(8) ELSE LE(life.secs, 8)
      hard == IF life.unlimited THEN Zeros(8) ELSE LE(Add10(life.secs), 8)
  IN inf \o inf \o inf \o inf \o soft \o hard \o Zeros(8) \o Zeros(8)

EncAlgoAttr(type, name, key) ==
  LET body == Build(L.algo, << <<L.algo_name, name>>, <<L.algo_key_len, LE(<<0, Len(key) * 8>>, 4)>> >>) \o FixLen(key, 64)
  IN LE(<<L.nlattr + Len(body)>>, 2) \o LE(<<type>>, 2) \o body
Header(type, total) == Build(L.nlmsghdr, << <<L.nlmsg_len, LE(<<0, total>>, 4)>>, <<L.nlmsg_type, LE(<<type>>, 2)>>, <<L.nlmsg_flags, LE(<<C.REQUEST + C.ACK>>, 2)>> >>)
EncId(dst, spi, proto) == Build(L.id, << <<L.id_daddr, dst>>, <<L.id_spi, spi>>, <<L.id_proto, <<proto>> >> >>)

EncNewSa(i) ==
  LET body == Build(L.usersa_info, << <<L.sa_sel, EncSelector(i.sel)>>, <<L.sa_id, EncId(i.dst, i.spi, i.ipsec_proto)>>, <<L.sa_saddr, i.src>>,
                                      <<L.sa_lft, EncLft(i.life)>>, <<L.sa_family, LE(<<Family(i.src)>>, 2)>>, <<L.sa_mode, <<i.mode>> >> >>)
      attrs == (IF i.ipsec_proto = 50 THEN EncAlgoAttr(C.ALG_CRYPT, i.ealg, i.ekey) ELSE <<>>) \o EncAlgoAttr(C.ALG_AUTH, i.aalg, i.akey)
  IN Header(C.NEWSA, L.nlmsghdr + Len(body) + Len(attrs)) \o body \o attrs

EncDelSa(i) ==
  LET b == Build(L.usersa_id, << <<L.said_daddr, i.dst>>, <<L.said_spi, i.spi>>, <<L.said_family, LE(<<Family(i.dst)>>, 2)>>, <<L.said_proto, <<i.ipsec_proto>> >> >>)
  IN Header(C.DELSA, L.nlmsghdr + Len(b)) \o b

EncNewPolicy(i) ==
  LET inf == [unlimited |-> TRUE, secs |-> <<0>>]
      pol == Build(L.userpolicy_info, << <<L.pol_sel, EncSelector(i.sel)>>, <<L.pol_lft, EncLft(inf)>>, <<L.pol_index, LE(i.index, 4)>>,
                                         <<L.pol_dir, <<i.dir>> >>, <<L.pol_action, <<C.ALLOW>> >> >>)
      tmpl == Build(L.user_tmpl, << <<L.tmpl_id, EncId(i.dst, <<>>, i.ipsec_proto)>>, <<L.tmpl_family, LE(<<Family(i.src)>>, 2)>>, <<L.tmpl_saddr, i.src>>,
                                    <<L.tmpl_mode, <<i.mode>> >>, <<L.tmpl_aalgos, <<255, 255, 255, 255>> >>, <<L.tmpl_ealgos, <<255, 255, 255, 255>> >>,
                                    <<L.tmpl_calgos, <<255, 255, 255, 255>> >> >>)
      attr == LE(<<L.nlattr + Len(tmpl)>>, 2) \o LE(<<C.TMPL>>, 2) \o tmpl
  IN Header(C.NEWPOLICY, L.nlmsghdr + Len(pol) + Len(attr)) \o pol \o attr

EncFlush(policy) == Header(IF policy THEN C.FLUSHPOLICY ELSE C.FLUSHSA, L.nlmsghdr + L.usersa_flush) \o <<0>>

\* ---------------------------------------------------------------------------------------------- universe
A4 == {<<10, 1, 2, 3>>, <<255, 255, 255, 255>>, <<192, 168, 0, 1>>}
A6 == {<<32, 1, 13, 184>> \o Zeros(11) \o <<1>>, [i \in 1..16 |-> 255]}
Name(s) == s
CBC == <<99, 98, 99, 40, 97, 101, 115, 41>>                      \* "cbc(aes)"
HSHA1 == <<104, 109, 97, 99, 40, 115, 104, 97, 49, 41>>          \* "hmac(sha1)"
HSHA256 == <<104, 109, 97, 99, 40, 115, 104, 97, 50, 53, 54, 41>>
HSHA512 == <<104, 109, 97, 99, 40, 115, 104, 97, 53, 49, 50, 41>>
Key(n, seed) == [i \in 1..n |-> (seed + i * 7) % 256]
Sel(sa, da, ps, pd, sp, dp, pr) == [saddr |-> sa, daddr |-> da, plen_s |-> ps, plen_d |-> pd, sport |-> sp, dport |-> dp, proto |-> pr]
Lifes == {[unlimited |-> TRUE, secs |-> <<0>>], [unlimited |-> FALSE, secs |-> <<0, 0, 0, 1>>], [unlimited |-> FALSE, secs |-> <<0, 0, 0, 60>>],
          [unlimited |-> FALSE, secs |-> <<0, 1, 0, 5>>]}
Spi == {<<0, 0, 0, 1>>, <<1, 2, 3, 4>>, <<255, 255, 255, 255>>}
Ports == {0, 1, 255, 256, 65535}

\* (address, prefix length) pairs: network-aligned, as ip_network objects are
N4 == {<< <<10, 1, 2, 3>>, 32>>, << <<10, 1, 2, 0>>, 24>>, << <<10, 0, 0, 0>>, 8>>, << <<0, 0, 0, 0>>, 0>>, << <<255, 255, 255, 255>>, 32>>}
N6 == {<< <<32, 1, 13, 184>> \o Zeros(11) \o <<1>>, 128>>, << <<32, 1, 13, 184>> \o Zeros(12), 64>>, <<Zeros(16), 0>>, <<[i \in 1..16 |-> 255], 128>>}
Sels4 == {Sel(a[1], b[1], a[2], b[2], sp, dp, pr) : a \in N4, b \in N4, sp \in {0, 256}, dp \in Ports, pr \in {0, 6, 17}}
Sels6 == {Sel(a[1], b[1], a[2], b[2], sp, dp, pr) : a \in N6, b \in N6, sp \in {65535}, dp \in {0, 1}, pr \in {58, 0}}
Algs == {[ealg |-> CBC, ekey |-> Key(16, 3), aalg |-> HSHA1, akey |-> Key(20, 5)], [ealg |-> CBC, ekey |-> Key(32, 9), aalg |-> HSHA256, akey |-> Key(32, 11)],
         [ealg |-> CBC, ekey |-> Key(32, 1), aalg |-> HSHA512, akey |-> Key(64, 2)]}
SelsAll == {x \in Sels4 : x.sport = 0 \/ x.dport \in {0, 65535}} \cup Sels6
BaseSel == Sel(<<10, 1, 2, 3>>, <<10, 1, 2, 0>>, 32, 24, 0, 256, 6)
BaseSel6 == Sel(<<32, 1, 13, 184>> \o Zeros(11) \o <<1>>, [i \in 1..16 |-> 255], 128, 128, 65535, 1, 58)
Sa(s, sp, pr, m, lf, al) == [sel |-> s, src |-> IF Len(s.saddr) = 4 THEN <<192, 168, 0, 1>> ELSE s.saddr, dst |-> IF Len(s.saddr) = 4 THEN <<192, 168, 0, 2>> ELSE s.daddr, spi |-> sp, ipsec_proto |-> pr, mode |-> m, life |-> lf] @@ al
BaseAlg == [ealg |-> CBC, ekey |-> Key(32, 9), aalg |-> HSHA256, akey |-> Key(32, 11)]
\* tunnels whose protected networks are of the other family than the tunnel endpoints: the selector carries its own family, the outer family fields
\* (xfrm_usersa_info.family, xfrm_user_tmpl.family) say how to read the ENDPOINT addresses
V6a == <<32, 1, 13, 184>> \o Zeros(11) \o <<1>>
V6b == <<32, 1, 13, 184>> \o Zeros(11) \o <<2>>
CrossPairs == { <<BaseSel6, <<192, 168, 0, 1>>, <<192, 168, 0, 2>> >>, <<BaseSel, V6a, V6b>> }
NewSasX == {[sel |-> c[1], src |-> c[2], dst |-> c[3], spi |-> <<1, 2, 3, 4>>, ipsec_proto |-> pr, mode |-> 1, life |-> [unlimited |-> FALSE, secs |-> <<0, 0, 0, 60>>]] @@ BaseAlg :
              c \in CrossPairs, pr \in {50, 51}}
\* every selector with one parameter set, and every parameter combination with two selectors (IPv4 / IPv6)
NewSas == NewSasX \cup {Sa(s, <<1, 2, 3, 4>>, 50, 0, [unlimited |-> FALSE, secs |-> <<0, 0, 0, 60>>], BaseAlg) : s \in SelsAll} \cup
          {Sa(s, sp, pr, m, lf, al) : s \in {BaseSel, BaseSel6}, sp \in Spi, pr \in {50, 51}, m \in {0, 1}, lf \in Lifes, al \in Algs}
DelSas == {[dst |-> d, spi |-> sp, ipsec_proto |-> pr] : d \in A4 \cup A6, sp \in Spi, pr \in {50, 51}}
Policies == {[sel |-> s, src |-> IF Len(s.saddr) = 4 THEN <<192, 168, 0, 1>> ELSE s.saddr, dst |-> IF Len(s.saddr) = 4 THEN <<192, 168, 0, 2>> ELSE s.daddr, ipsec_proto |-> pr, mode |-> m, dir |-> d, index |-> ix] :
               s \in {x \in Sels4 : x.sport = 0 /\ x.proto = 6 /\ x.plen_s \in {24, 0}} \cup {x \in Sels6 : x.proto = 58 /\ x.plen_d \in {0, 64}}, pr \in {50, 51}, m \in {0, 1}, d \in {0, 1, 2},
               ix \in {<<0, 0>>, <<0, 9>>, <<16, 1>>, <<8191, 65535>>}}
            \cup {[sel |-> c[1], src |-> c[2], dst |-> c[3], ipsec_proto |-> 50, mode |-> 1, dir |-> d, index |-> <<0, 9>>] : c \in CrossPairs, d \in {0, 1, 2}}

\* Xfrm.create_policies: the protect entries of one connection, IN ORDER - three requests per entry (out with the entry's index, in and fwd with the
\* selector and the tunnel end points reversed), each saying what ITS entry means whatever the entries before it were (ESP after AH, transport after tunnel)
Entry(s, pr, m, ix) == [sel |-> s, ipsec_proto |-> pr, mode |-> m, index |-> ix]
Rev(s) == Sel(s.daddr, s.saddr, s.plen_d, s.plen_s, s.dport, s.sport, s.proto)
EntrySels == {Sel(<<10, 1, 2, 3>>, <<10, 1, 2, 0>>, 32, 24, 0, 256, 6), Sel(<<10, 0, 0, 0>>, <<10, 1, 2, 3>>, 8, 32, 256, 0, 17), Sel(<<0, 0, 0, 0>>, <<10, 1, 2, 0>>, 0, 24, 0, 0, 0)}
Entries == {Entry(s, pr, m, ix) : s \in EntrySels, pr \in {50, 51}, m \in {0, 1}, ix \in {1}}
EntryLists == {<<a>> : a \in Entries} \cup
              UNION {{<<a, [b EXCEPT !.index = 2]>> : b \in {x \in Entries : x.sel # a.sel}} : a \in Entries} \cup
              UNION {UNION {{<<a, [b EXCEPT !.index = 2], [c EXCEPT !.index = 900]>> : c \in {x \in Entries : x.mode = 1 - b.mode /\ x.sel # a.sel /\ x.sel # b.sel}}
                            : b \in {x \in Entries : x.ipsec_proto = 50 /\ x.sel # a.sel}} : a \in {x \in Entries : x.ipsec_proto = 51}}
\* Xfrm.create_child_sa: the two kernel SAs of one CHILD_SA.  Which half of KEYMAT protects which direction follows from the role in the EXCHANGE that
\* negotiated the CHILD_SA (the exchange initiator sends with SK_ei / SK_ai, RFC 7296 2.17) - not from the role in the IKE_SA, which may be the opposite one
KeyRing == [ei |-> Key(32, 21), er |-> Key(32, 22), ai |-> Key(32, 23), ar |-> Key(32, 24)]
ChildLife == [unlimited |-> FALSE, secs |-> <<0, 0, 0, 60>>]
ChildPair(sel, pr, m, exInit) ==
  << Sa(sel, <<1, 2, 3, 4>>, pr, m, ChildLife, [ealg |-> CBC, ekey |-> IF exInit THEN KeyRing.ei ELSE KeyRing.er, aalg |-> HSHA256, akey |-> IF exInit THEN KeyRing.ai ELSE KeyRing.ar]),
     [Sa(Rev(sel), <<5, 6, 7, 8>>, pr, m, ChildLife, [ealg |-> CBC, ekey |-> IF exInit THEN KeyRing.er ELSE KeyRing.ei, aalg |-> HSHA256, akey |-> IF exInit THEN KeyRing.ar ELSE KeyRing.ai])
        EXCEPT !.src = <<192, 168, 0, 2>>, !.dst = <<192, 168, 0, 1>>] >>
ChildPairs == {[sel |-> sel, ipsec_proto |-> pr, mode |-> m, exchange_initiator |-> x, ike_initiator |-> k, keyring |-> KeyRing, intents |-> ChildPair(sel, pr, m, x)] :
                 sel \in {BaseSel, Sel(<<10, 0, 0, 0>>, <<10, 1, 2, 3>>, 8, 32, 256, 0, 17)}, pr \in {50, 51}, m \in {0, 1}, x \in BOOLEAN, k \in BOOLEAN}
My4 == <<192, 168, 0, 1>>   Peer4 == <<192, 168, 0, 2>>
EntryIntents(e) == << [sel |-> e.sel, src |-> My4, dst |-> Peer4, ipsec_proto |-> e.ipsec_proto, mode |-> e.mode, dir |-> 1, index |-> <<0, e.index * 8 + 1>>],
                      [sel |-> Rev(e.sel), src |-> Peer4, dst |-> My4, ipsec_proto |-> e.ipsec_proto, mode |-> e.mode, dir |-> 0, index |-> <<0, 0>>],
                      [sel |-> Rev(e.sel), src |-> Peer4, dst |-> My4, ipsec_proto |-> e.ipsec_proto, mode |-> e.mode, dir |-> 2, index |-> <<0, 0>>] >>
RECURSIVE ListIntents(_)
ListIntents(l) == IF l = <<>> THEN <<>> ELSE EntryIntents(Head(l)) \o ListIntents(Tail(l))

\* ---------------------------------------------------------------------------------------------- framing theorems
Get16LE(b, off) == b[off + 1] + 256 * b[off + 2]
LenOk(b) == Get16LE(b, 0) = Len(b) /\ b[3] = 0 /\ b[4] = 0 /\ Len(b) < 65536
RECURSIVE AttrsOk(_, _)
AttrsOk(b, off) == IF off = Len(b) THEN TRUE
                   ELSE off + 4 <= Len(b) /\ Get16LE(b, off) >= 4 /\ off + Align4(Get16LE(b, off)) <= Len(b) /\ AttrsOk(b, off + Align4(Get16LE(b, off)))
ASSUME \A i \in NewSas : LET b == EncNewSa(i) IN LenOk(b) /\ AttrsOk(b, L.nlmsghdr + L.usersa_info)
ASSUME \A i \in Policies : LET b == EncNewPolicy(i) IN LenOk(b) /\ AttrsOk(b, L.nlmsghdr + L.userpolicy_info)
ASSUME \A i \in DelSas : LenOk(EncDelSa(i))
ASSUME \A l \in EntryLists : \A k \in 1..Len(ListIntents(l)) : LET b == EncNewPolicy(ListIntents(l)[k]) IN LenOk(b) /\ AttrsOk(b, L.nlmsghdr + L.userpolicy_info)

Vectors == [layout |-> L, const |-> C,
            newsa |-> {[i |-> i, b |-> EncNewSa(i)] : i \in NewSas}, delsa |-> {[i |-> i, b |-> EncDelSa(i)] : i \in DelSas},
            newpolicy |-> {[i |-> i, b |-> EncNewPolicy(i)] : i \in Policies},
            child_pairs |-> {[c |-> c, requests |-> <<EncNewSa(c.intents[1]), EncNewSa(c.intents[2])>>] : c \in ChildPairs},
            policy_lists |-> {[entries |-> l, intents |-> ListIntents(l), requests |-> [k \in 1..Len(ListIntents(l)) |-> EncNewPolicy(ListIntents(l)[k])]] : l \in EntryLists}, flush |-> {[policy |-> p, b |-> EncFlush(p)] : p \in BOOLEAN}]
ASSUME OutFile = "" \/ JsonSerialize(OutFile, Vectors)
ASSUME PrintT(<<"CASES", Cardinality(NewSas), Cardinality(DelSas), Cardinality(Policies)>>)

VARIABLE dummy
Init == dummy = 0
Next == UNCHANGED dummy
=========================================================================================
