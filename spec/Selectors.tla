----------------------------------- MODULE Selectors -----------------------------------
(***************************************************************************************************)
(* C12 - traffic selectors (RFC 7296 2.9, 3.13) as sets of packets, over a small universe:          *)
(* containment as implemented (message.py TrafficSelector.is_subset) vs inclusion of packet sets,   *)
(* the narrowing decision of the responder (ikesa.py _get_ipsec_configuration: reversed iteration,   *)
(* larger-policy / smaller-policy rule), and the range <-> network / port conversions.               *)
(***************************************************************************************************)
EXTENDS Naturals, Sequences, FiniteSets, TLC, Json

CONSTANT OutFile

AddrBits == 3
MaxAddr == 7
MaxPort == 3                      \* stands for 65535: <<0, MaxPort>> is "any port"
Protos == {6, 17}                 \* concrete IP protocols; 0 = ANY
Fams == {4, 6}

Ts(fam, proto, sp, ep, sa, ea) == [fam |-> fam, proto |-> proto, sp |-> sp, ep |-> ep, sa |-> sa, ea |-> ea]
WellFormed(t) == t.sp <= t.ep /\ t.sa <= t.ea

\* what a selector denotes
Packets(t) == {<<t.fam, a, p, pr>> : a \in t.sa..t.ea, p \in t.sp..t.ep, pr \in (IF t.proto = 0 THEN Protos ELSE {t.proto})}

\* containment as the implementation computes it (four comparisons) - of a WELL-FORMED selector: a reversed port or address range (65535 - 0 is how the wire
\* format writes "OPAQUE", 3.13.1) denotes no packet that could be matched, yet ToPort / ToNetwork would turn it into "any port" / a large network:
\* it is contained in nothing
IsSubsetImpl(a, b) ==
  /\ WellFormed(a)
  /\ a.fam = b.fam
  /\ (b.proto # 0 => a.proto = b.proto)
  /\ a.sp >= b.sp /\ a.ep <= b.ep
  /\ a.sa >= b.sa /\ a.ea <= b.ea

\* ---------------------------------------------------------------------------------------------- universe
Ranges == {<<lo, hi>> : lo \in {0, 2, 4, 5}, hi \in {1, 3, 5, 7}}
PortRanges == {<<0, MaxPort>>, <<1, 1>>, <<2, 2>>, <<1, 2>>}
Sels == {Ts(f, pr, p[1], p[2], r[1], r[2]) : f \in Fams, pr \in {0, 6, 17}, p \in PortRanges, r \in {x \in Ranges : x[1] <= x[2]}}
\* ... and what a peer may send all the same: reversed port ranges (MaxPort - 0 = OPAQUE, 2 - 1) and reversed address ranges
IllFormed == {Ts(4, pr, p[1], p[2], r[1], r[2]) : pr \in {0, 6}, p \in {<<MaxPort, 0>>, <<2, 1>>, <<1, 1>>, <<0, MaxPort>>}, r \in {<<5, 2>>, <<7, 0>>, <<2, 3>>, <<0, 7>>}} \ Sels

\* containment as implemented coincides with inclusion of the denoted packet sets
SubsetTheorem == \A a \in Sels : \A b \in Sels : IsSubsetImpl(a, b) <=> (Packets(a) \subseteq Packets(b))
ASSUME SubsetTheorem
ASSUME \A a \in IllFormed : ~WellFormed(a) /\ \A b \in Sels : ~IsSubsetImpl(a, b)

\* ---------------------------------------------------------------------------------------------- networks and ports
Pow2(n) == IF n = 0 THEN 1 ELSE IF n = 1 THEN 2 ELSE IF n = 2 THEN 4 ELSE 8
Nets == {[base |-> b, len |-> l] : l \in 0..AddrBits, b \in 0..MaxAddr}
ValidNet(n) == n.base % Pow2(AddrBits - n.len) = 0
First(n) == n.base   Last(n) == n.base + Pow2(AddrBits - n.len) - 1
FromNetwork(fam, n, port, proto) == Ts(fam, proto, port, IF port = 0 THEN MaxPort ELSE port, First(n), Last(n))
\* the smallest network containing the range (what the kernel selector gets)
Covers(n, lo, hi) == ValidNet(n) /\ First(n) <= lo /\ hi <= Last(n)
ToNetwork(t) == CHOOSE n \in Nets : Covers(n, t.sa, t.ea) /\ \A m \in Nets : Covers(m, t.sa, t.ea) => m.len <= n.len
ToPort(t) == IF <<t.sp, t.ep>> = <<0, MaxPort>> THEN 0 ELSE t.ep
ConversionTheorem == \A n \in {x \in Nets : ValidNet(x)} : \A port \in 0..2 : \A pr \in {0, 6} :
                        LET t == FromNetwork(4, n, port, pr) IN ToNetwork(t) = n /\ ToPort(t) = port /\ WellFormed(t)
ASSUME ConversionTheorem

\* ---------------------------------------------------------------------------------------------- narrowing (responder)
\* policy entry: [my : selector of my side, peer : selector of the peer's side]; request: TSi (peer's side), TSr (my side)
\* result: [ok, entry index, tsi (chosen, peer side), tsr (chosen, my side)]
Rev(s) == [i \in 1..Len(s) |-> s[Len(s) + 1 - i]]
NarrowAt(policy, tsi, tsr) ==
  LET larger == {k \in 1..Len(policy) : IsSubsetImpl(tsi, policy[k].peer) /\ IsSubsetImpl(tsr, policy[k].my)}
      smaller == {k \in 1..Len(policy) : IsSubsetImpl(policy[k].peer, tsi) /\ IsSubsetImpl(policy[k].my, tsr)}
      hits == larger \cup smaller IN
  IF hits = {} THEN [ok |-> FALSE]
  ELSE LET k == CHOOSE x \in hits : \A y \in hits : x <= y IN
       IF k \in larger THEN [ok |-> TRUE, entry |-> k, tsi |-> tsi, tsr |-> tsr]                     \* the proposal fits inside the policy: keep it
       ELSE [ok |-> TRUE, entry |-> k, tsi |-> policy[k].peer, tsr |-> policy[k].my]                \* the policy fits inside the proposal: narrow to it
RECURSIVE NarrowOver(_, _, _)
NarrowOver(policy, pairs, i) == IF i > Len(pairs) THEN [ok |-> FALSE]
                                ELSE LET r == NarrowAt(policy, pairs[i][1], pairs[i][2]) IN IF r.ok THEN r ELSE NarrowOver(policy, pairs, i + 1)
\* selectors are tried from the last to the first (the first one of a request is the packet that triggered it)
PairsOf(tsis, tsrs) == LET ri == Rev(tsis)  rr == Rev(tsrs) IN
                       [n \in 1..(Len(ri) * Len(rr)) |-> <<ri[((n - 1) \div Len(rr)) + 1], rr[((n - 1) % Len(rr)) + 1]>>]
Narrow(policy, tsis, tsrs) == NarrowOver(policy, PairsOf(tsis, tsrs), 1)

\* a REKEY request carries the selectors of the CHILD_SA it replaces (one pair): the responder matches them against its policy without narrowing - only an
\* entry that contains them applies, and the answer carries them unchanged ("for a rekey they equal those of the replaced SA")
RekeyMatch(policy, tsi, tsr) ==
  LET larger == {k \in 1..Len(policy) : IsSubsetImpl(tsi, policy[k].peer) /\ IsSubsetImpl(tsr, policy[k].my)} IN
  IF larger = {} THEN [ok |-> FALSE]
  ELSE [ok |-> TRUE, entry |-> CHOOSE x \in larger : \A y \in larger : x <= y, tsi |-> tsi, tsr |-> tsr]

\* small selector universe for the narrowing cases (one family, the interesting shapes)
S(pr, p, r) == Ts(4, pr, p[1], p[2], r[1], r[2])
NSels == {S(pr, p, r) : pr \in {0, 6}, p \in {<<0, MaxPort>>, <<1, 1>>}, r \in {<<0, 7>>, <<0, 3>>, <<2, 2>>, <<4, 5>>}}
Policies == UNION {{<<[my |-> m, peer |-> p]>> : p \in {x \in NSels : x.proto = m.proto /\ x.sa # 2}} : m \in NSels} \cup
            {<<[my |-> S(6, <<1, 1>>, <<0, 3>>), peer |-> S(6, <<0, MaxPort>>, <<4, 5>>)], [my |-> S(0, <<0, MaxPort>>, <<0, 7>>), peer |-> S(0, <<0, MaxPort>>, <<0, 7>>)]>>,
             <<[my |-> S(0, <<0, MaxPort>>, <<0, 3>>), peer |-> S(0, <<0, MaxPort>>, <<4, 5>>)], [my |-> S(6, <<1, 1>>, <<2, 2>>), peer |-> S(6, <<0, MaxPort>>, <<4, 5>>)]>>}
TsLists == {<<a>> : a \in NSels} \cup {<<a, b>> : a \in {x \in NSels : x.sa = 2}, b \in {x \in NSels : x.sa # 2 /\ x.proto = 6}}
NarrowCases == {[policy |-> pol, tsi |-> i, tsr |-> r] : pol \in Policies, i \in TsLists, r \in {<<a>> : a \in NSels}}

InSome(t, list) == \E k \in 1..Len(list) : IsSubsetImpl(t, list[k])
NarrowOk(c) == LET r == Narrow(c.policy, c.tsi, c.tsr) IN
   IF r.ok THEN /\ InSome(r.tsi, c.tsi) /\ InSome(r.tsr, c.tsr)                                \* inside what the initiator proposed
                /\ IsSubsetImpl(r.tsi, c.policy[r.entry].peer) /\ IsSubsetImpl(r.tsr, c.policy[r.entry].my)   \* inside the responder's policy
   ELSE \A k \in 1..Len(c.policy) : \A i \in 1..Len(c.tsi) : \A j \in 1..Len(c.tsr) :            \* refused only if nothing fits either way
          ~(IsSubsetImpl(c.tsi[i], c.policy[k].peer) /\ IsSubsetImpl(c.tsr[j], c.policy[k].my)) /\
          ~(IsSubsetImpl(c.policy[k].peer, c.tsi[i]) /\ IsSubsetImpl(c.policy[k].my, c.tsr[j]))
ASSUME \A c \in NarrowCases : NarrowOk(c)
\* whatever a first negotiation agreed on (under any entry, narrowed or not) is matched again by a rekey, with the same selectors - also when an earlier,
\* smaller entry lies inside them (the case in which matching with narrowing would shrink the rekeyed SA)
RekeyKeeps(c) == LET r == Narrow(c.policy, c.tsi, c.tsr) IN
   r.ok => LET k == RekeyMatch(c.policy, r.tsi, r.tsr) IN k.ok /\ k.tsi = r.tsi /\ k.tsr = r.tsr /\ k.entry <= r.entry
ASSUME \A c \in NarrowCases : RekeyKeeps(c)
RekeyCases == {[policy |-> c.policy, tsi |-> c.tsi[1], tsr |-> c.tsr[1]] : c \in {x \in NarrowCases : Len(x.tsi) = 1}}
ASSUME \E c \in RekeyCases : LET a == NarrowAt(c.policy, c.tsi, c.tsr)  b == RekeyMatch(c.policy, c.tsi, c.tsr) IN a.ok /\ b.ok /\ a.tsi # b.tsi   \* (the difference exists in the universe)
\* what is handed to the kernel for an accepted selector (network and port) matches no packet outside the policy it was accepted under
KernelPackets(t) == LET n == ToNetwork(t)  p == ToPort(t) IN
                    {<<t.fam, a, q, pr>> : a \in First(n)..Last(n), q \in (IF p = 0 THEN 0..MaxPort ELSE {p}), pr \in (IF t.proto = 0 THEN Protos ELSE {t.proto})}
PolicySels == {FromNetwork(4, n, port, pr) : n \in {x \in Nets : ValidNet(x)}, port \in 0..2, pr \in {0, 6}}
KernelWithinPolicy == \A a \in {x \in Sels \cup IllFormed : x.fam = 4} : \A b \in PolicySels : IsSubsetImpl(a, b) => KernelPackets(a) \subseteq Packets(b)
ASSUME KernelWithinPolicy

Vectors == [subset |-> {[a |-> a, b |-> b, out |-> IsSubsetImpl(a, b)] : a \in Sels, b \in {x \in Sels : x.fam = 4 \/ x.proto = 0}}
                       \cup {[a |-> a, b |-> b, out |-> IsSubsetImpl(a, b)] : a \in IllFormed, b \in {x \in Sels : x.fam = 4}},
            narrow |-> {[policy |-> c.policy, tsi |-> c.tsi, tsr |-> c.tsr, out |-> Narrow(c.policy, c.tsi, c.tsr)] : c \in NarrowCases},
            rekey |-> {[policy |-> c.policy, tsi |-> c.tsi, tsr |-> c.tsr, out |-> RekeyMatch(c.policy, c.tsi, c.tsr)] : c \in RekeyCases},
            convert |-> {[net |-> n, port |-> p, proto |-> pr, ts |-> FromNetwork(4, n, p, pr)] : n \in {x \in Nets : ValidNet(x)}, p \in 0..2, pr \in {0, 6}},
            tonet |-> {[ts |-> t, net |-> ToNetwork(t), port |-> ToPort(t)] : t \in {x \in Sels : x.fam = 4 /\ x.proto = 6}}]
ASSUME OutFile = "" \/ JsonSerialize(OutFile, Vectors)
ASSUME PrintT(<<"CASES", Cardinality(Sels), Cardinality(NarrowCases)>>)

VARIABLE dummy
Init == dummy = 0
Next == UNCHANGED dummy
==========================================================================================
