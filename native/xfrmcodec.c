/* Built by setup.sh against <linux/xfrm.h> / <linux/netlink.h>.
 *   xfrmcodec layout            -> JSON: sizeof/offsetof of every UAPI struct field the harness decodes
 *   xfrmcodec decode  < hex     -> JSON: one netlink request (hex on stdin, one per line) decoded with the kernel's structs
 *   xfrmcodec encode  < spec    -> hex:  kernel->daemon messages (ACQUIRE / EXPIRE / ACK / ERROR) from "key=value ..." lines
 * The kernel's own structure definitions are the oracle of C14; nothing here is shared with /repo/xfrm.py.
 */
#include <stdio.h>
#include <stdlib.h>
#include <string.h>
#include <stddef.h>
#include <stdint.h>
#include <arpa/inet.h>
#include <sys/socket.h>
#include <linux/netlink.h>
#include <linux/xfrm.h>

#define F(st, f) printf("%s\"%s.%s\": [%zu, %zu]", first++ ? ",\n " : " ", #st, #f, offsetof(struct st, f), sizeof(((struct st *)0)->f))
#define S(st) printf("%s\"%s\": [0, %zu]", first++ ? ",\n " : " ", #st, sizeof(struct st))

static void layout(void) {
    int first = 0;
    printf("{\n");
    S(nlmsghdr); F(nlmsghdr, nlmsg_len); F(nlmsghdr, nlmsg_type); F(nlmsghdr, nlmsg_flags); F(nlmsghdr, nlmsg_seq); F(nlmsghdr, nlmsg_pid);
    S(nlmsgerr); F(nlmsgerr, error); F(nlmsgerr, msg);
    S(nlattr); F(nlattr, nla_len); F(nlattr, nla_type);
    S(xfrm_selector); F(xfrm_selector, daddr); F(xfrm_selector, saddr); F(xfrm_selector, dport); F(xfrm_selector, dport_mask);
    F(xfrm_selector, sport); F(xfrm_selector, sport_mask); F(xfrm_selector, family); F(xfrm_selector, prefixlen_d);
    F(xfrm_selector, prefixlen_s); F(xfrm_selector, proto); F(xfrm_selector, ifindex); F(xfrm_selector, user);
    S(xfrm_id); F(xfrm_id, daddr); F(xfrm_id, spi); F(xfrm_id, proto);
    S(xfrm_lifetime_cfg); F(xfrm_lifetime_cfg, soft_byte_limit); F(xfrm_lifetime_cfg, hard_byte_limit);
    F(xfrm_lifetime_cfg, soft_packet_limit); F(xfrm_lifetime_cfg, hard_packet_limit);
    F(xfrm_lifetime_cfg, soft_add_expires_seconds); F(xfrm_lifetime_cfg, hard_add_expires_seconds);
    F(xfrm_lifetime_cfg, soft_use_expires_seconds); F(xfrm_lifetime_cfg, hard_use_expires_seconds);
    S(xfrm_lifetime_cur); F(xfrm_lifetime_cur, bytes); F(xfrm_lifetime_cur, packets); F(xfrm_lifetime_cur, add_time); F(xfrm_lifetime_cur, use_time);
    S(xfrm_stats);
    S(xfrm_usersa_info); F(xfrm_usersa_info, sel); F(xfrm_usersa_info, id); F(xfrm_usersa_info, saddr); F(xfrm_usersa_info, lft);
    F(xfrm_usersa_info, curlft); F(xfrm_usersa_info, stats); F(xfrm_usersa_info, seq); F(xfrm_usersa_info, reqid);
    F(xfrm_usersa_info, family); F(xfrm_usersa_info, mode); F(xfrm_usersa_info, replay_window); F(xfrm_usersa_info, flags);
    S(xfrm_usersa_id); F(xfrm_usersa_id, daddr); F(xfrm_usersa_id, spi); F(xfrm_usersa_id, family); F(xfrm_usersa_id, proto);
    S(xfrm_userpolicy_info); F(xfrm_userpolicy_info, sel); F(xfrm_userpolicy_info, lft); F(xfrm_userpolicy_info, curlft);
    F(xfrm_userpolicy_info, priority); F(xfrm_userpolicy_info, index); F(xfrm_userpolicy_info, dir); F(xfrm_userpolicy_info, action);
    F(xfrm_userpolicy_info, flags); F(xfrm_userpolicy_info, share);
    S(xfrm_user_tmpl); F(xfrm_user_tmpl, id); F(xfrm_user_tmpl, family); F(xfrm_user_tmpl, saddr); F(xfrm_user_tmpl, reqid);
    F(xfrm_user_tmpl, mode); F(xfrm_user_tmpl, share); F(xfrm_user_tmpl, optional); F(xfrm_user_tmpl, aalgos); F(xfrm_user_tmpl, ealgos); F(xfrm_user_tmpl, calgos);
    S(xfrm_usersa_flush); F(xfrm_usersa_flush, proto);
    S(xfrm_algo); F(xfrm_algo, alg_name); F(xfrm_algo, alg_key_len); printf(",\n \"xfrm_algo.alg_key\": [%zu, 0]", offsetof(struct xfrm_algo, alg_key));
    S(xfrm_user_acquire); F(xfrm_user_acquire, id); F(xfrm_user_acquire, saddr); F(xfrm_user_acquire, sel); F(xfrm_user_acquire, policy);
    F(xfrm_user_acquire, aalgos); F(xfrm_user_acquire, ealgos); F(xfrm_user_acquire, calgos); F(xfrm_user_acquire, seq);
    S(xfrm_user_expire); F(xfrm_user_expire, state); F(xfrm_user_expire, hard);
    printf(",\n \"const\": {\"XFRM_MSG_NEWSA\": %d, \"XFRM_MSG_DELSA\": %d, \"XFRM_MSG_NEWPOLICY\": %d, \"XFRM_MSG_ACQUIRE\": %d, "
           "\"XFRM_MSG_EXPIRE\": %d, \"XFRM_MSG_FLUSHSA\": %d, \"XFRM_MSG_FLUSHPOLICY\": %d, \"XFRMA_ALG_AUTH\": %d, \"XFRMA_ALG_CRYPT\": %d, "
           "\"XFRMA_TMPL\": %d, \"NLMSG_ERROR\": %d, \"NLM_F_REQUEST\": %d, \"NLM_F_ACK\": %d, \"XFRM_POLICY_IN\": %d, \"XFRM_POLICY_OUT\": %d, "
           "\"XFRM_POLICY_FWD\": %d, \"XFRM_MODE_TRANSPORT\": %d, \"XFRM_MODE_TUNNEL\": %d, \"AF_INET\": %d, \"AF_INET6\": %d, "
           "\"XFRMGRP_ACQUIRE\": %d, \"XFRMGRP_EXPIRE\": %d, \"NLA_ALIGNTO\": %d, \"XFRM_POLICY_ALLOW\": %d}\n}\n",
           XFRM_MSG_NEWSA, XFRM_MSG_DELSA, XFRM_MSG_NEWPOLICY, XFRM_MSG_ACQUIRE, XFRM_MSG_EXPIRE, XFRM_MSG_FLUSHSA, XFRM_MSG_FLUSHPOLICY,
           XFRMA_ALG_AUTH, XFRMA_ALG_CRYPT, XFRMA_TMPL, NLMSG_ERROR, NLM_F_REQUEST, NLM_F_ACK, XFRM_POLICY_IN, XFRM_POLICY_OUT, XFRM_POLICY_FWD,
           XFRM_MODE_TRANSPORT, XFRM_MODE_TUNNEL, AF_INET, AF_INET6, XFRMGRP_ACQUIRE, XFRMGRP_EXPIRE, NLA_ALIGNTO, XFRM_POLICY_ALLOW);
}

static int hexval(int c) { return c >= '0' && c <= '9' ? c - '0' : c >= 'a' && c <= 'f' ? c - 'a' + 10 : c >= 'A' && c <= 'F' ? c - 'A' + 10 : -1; }
static size_t unhex(const char *s, unsigned char *out, size_t cap) {
    size_t n = 0;
    while (s[0] && s[1] && hexval(s[0]) >= 0 && hexval(s[1]) >= 0 && n < cap) { out[n++] = (unsigned char)(hexval(s[0]) << 4 | hexval(s[1])); s += 2; }
    return n;
}
static void hexout(const void *p, size_t n) { const unsigned char *b = p; for (size_t i = 0; i < n; i++) printf("%02x", b[i]); }
static void addr(const char *name, const xfrm_address_t *a, int family) {
    char buf[64] = "?";
    if (family == AF_INET) inet_ntop(AF_INET, &a->a4, buf, sizeof buf);
    else if (family == AF_INET6) inet_ntop(AF_INET6, a->a6, buf, sizeof buf);
    printf("\"%s\": \"%s\", \"%s_raw\": \"", name, buf, name); hexout(a, sizeof *a); printf("\"");
}
static void selector(const struct xfrm_selector *s) {
    printf("{"); addr("daddr", &s->daddr, s->family); printf(", "); addr("saddr", &s->saddr, s->family);
    printf(", \"dport\": %u, \"dport_mask\": %u, \"sport\": %u, \"sport_mask\": %u, \"family\": %u, \"prefixlen_d\": %u, \"prefixlen_s\": %u, "
           "\"proto\": %u, \"ifindex\": %d, \"user\": %u}", ntohs(s->dport), ntohs(s->dport_mask), ntohs(s->sport), ntohs(s->sport_mask), s->family,
           s->prefixlen_d, s->prefixlen_s, s->proto, s->ifindex, s->user);
}
static void lft(const struct xfrm_lifetime_cfg *l) {
    printf("{\"soft_byte_limit\": %llu, \"hard_byte_limit\": %llu, \"soft_packet_limit\": %llu, \"hard_packet_limit\": %llu, "
           "\"soft_add_expires_seconds\": %llu, \"hard_add_expires_seconds\": %llu, \"soft_use_expires_seconds\": %llu, \"hard_use_expires_seconds\": %llu}",
           (unsigned long long)l->soft_byte_limit, (unsigned long long)l->hard_byte_limit, (unsigned long long)l->soft_packet_limit,
           (unsigned long long)l->hard_packet_limit, (unsigned long long)l->soft_add_expires_seconds, (unsigned long long)l->hard_add_expires_seconds,
           (unsigned long long)l->soft_use_expires_seconds, (unsigned long long)l->hard_use_expires_seconds);
}

static void attrs(const unsigned char *p, size_t len, int *ok) {
    printf("[");
    int first = 1;
    while (len >= sizeof(struct nlattr)) {
        const struct nlattr *a = (const struct nlattr *)p;
        if (a->nla_len < sizeof(struct nlattr) || a->nla_len > len) { *ok = 0; break; }
        const unsigned char *d = p + NLA_HDRLEN; size_t dl = a->nla_len - NLA_HDRLEN;
        printf("%s{\"type\": %u, \"len\": %u", first ? "" : ", ", a->nla_type, a->nla_len); first = 0;
        if ((a->nla_type == XFRMA_ALG_AUTH || a->nla_type == XFRMA_ALG_CRYPT) && dl >= sizeof(struct xfrm_algo)) {
            const struct xfrm_algo *g = (const struct xfrm_algo *)d;
            char name[65]; memcpy(name, g->alg_name, 64); name[64] = 0;
            size_t kb = (g->alg_key_len + 7) / 8;
            printf(", \"alg_name\": \"%s\", \"alg_key_len\": %u, \"key_fits\": %s, \"key\": \"", name, g->alg_key_len, sizeof(struct xfrm_algo) + kb <= dl ? "true" : "false");
            if (sizeof(struct xfrm_algo) + kb <= dl) hexout(g->alg_key, kb);
            printf("\", \"trailing\": \"");
            if (sizeof(struct xfrm_algo) + kb <= dl) hexout(g->alg_key + kb, dl - sizeof(struct xfrm_algo) - kb);
            printf("\"");
        } else if (a->nla_type == XFRMA_TMPL && dl >= sizeof(struct xfrm_user_tmpl)) {
            const struct xfrm_user_tmpl *t = (const struct xfrm_user_tmpl *)d;
            printf(", \"tmpl\": {"); addr("daddr", &t->id.daddr, t->family); printf(", "); addr("saddr", &t->saddr, t->family);
            printf(", \"spi\": %u, \"proto\": %u, \"family\": %u, \"reqid\": %u, \"mode\": %u, \"share\": %u, \"optional\": %u, \"aalgos\": %u, \"ealgos\": %u, \"calgos\": %u, \"count\": %zu}",
                   ntohl(t->id.spi), t->id.proto, t->family, t->reqid, t->mode, t->share, t->optional, t->aalgos, t->ealgos, t->calgos, dl / sizeof(struct xfrm_user_tmpl));
        } else { printf(", \"raw\": \""); hexout(d, dl); printf("\""); }
        printf("}");
        size_t adv = NLA_ALIGN(a->nla_len);
        if (adv > len) adv = len;
        p += adv; len -= adv;
    }
    if (len != 0) *ok = 0;
    printf("]");
}

static void decode_one(const unsigned char *b, size_t n) {
    if (n < sizeof(struct nlmsghdr)) { printf("{\"error\": \"short\"}\n"); return; }
    const struct nlmsghdr *h = (const struct nlmsghdr *)b;
    printf("{\"nlmsg_len\": %u, \"actual_len\": %zu, \"type\": %u, \"flags\": %u, \"seq\": %u, \"pid\": %u", h->nlmsg_len, n, h->nlmsg_type, h->nlmsg_flags, h->nlmsg_seq, h->nlmsg_pid);
    const unsigned char *p = b + NLMSG_HDRLEN; size_t pl = n - NLMSG_HDRLEN; int ok = 1;
    switch (h->nlmsg_type) {
    case XFRM_MSG_NEWSA: if (pl >= sizeof(struct xfrm_usersa_info)) {
        const struct xfrm_usersa_info *u = (const struct xfrm_usersa_info *)p;
        printf(", \"kind\": \"NEWSA\", \"sel\": "); selector(&u->sel);
        printf(", \"id\": {"); addr("daddr", &u->id.daddr, u->family); printf(", \"spi\": \"%08x\", \"proto\": %u}, ", ntohl(u->id.spi), u->id.proto);
        addr("saddr", &u->saddr, u->family); printf(", \"lft\": "); lft(&u->lft);
        printf(", \"seq\": %u, \"reqid\": %u, \"family\": %u, \"mode\": %u, \"replay_window\": %u, \"sa_flags\": %u, \"attrs\": ", u->seq, u->reqid, u->family, u->mode, u->replay_window, u->flags);
        attrs(p + NLMSG_ALIGN(sizeof *u), pl - NLMSG_ALIGN(sizeof *u) <= pl ? pl - NLMSG_ALIGN(sizeof *u) : 0, &ok);
    } else ok = 0; break;
    case XFRM_MSG_DELSA: if (pl >= sizeof(struct xfrm_usersa_id)) {
        const struct xfrm_usersa_id *u = (const struct xfrm_usersa_id *)p;
        printf(", \"kind\": \"DELSA\", "); addr("daddr", &u->daddr, u->family); printf(", \"spi\": \"%08x\", \"family\": %u, \"proto\": %u, \"trailing\": %zu", ntohl(u->spi), u->family, u->proto, pl - sizeof *u);
    } else ok = 0; break;
    case XFRM_MSG_NEWPOLICY: if (pl >= sizeof(struct xfrm_userpolicy_info)) {
        const struct xfrm_userpolicy_info *u = (const struct xfrm_userpolicy_info *)p;
        printf(", \"kind\": \"NEWPOLICY\", \"sel\": "); selector(&u->sel); printf(", \"lft\": "); lft(&u->lft);
        printf(", \"priority\": %u, \"index\": %u, \"dir\": %u, \"action\": %u, \"pol_flags\": %u, \"share\": %u, \"attrs\": ", u->priority, u->index, u->dir, u->action, u->flags, u->share);
        attrs(p + NLMSG_ALIGN(sizeof *u), pl - NLMSG_ALIGN(sizeof *u) <= pl ? pl - NLMSG_ALIGN(sizeof *u) : 0, &ok);
    } else ok = 0; break;
    case XFRM_MSG_FLUSHSA: case XFRM_MSG_FLUSHPOLICY:
        printf(", \"kind\": \"%s\", \"payload_len\": %zu", h->nlmsg_type == XFRM_MSG_FLUSHSA ? "FLUSHSA" : "FLUSHPOLICY", pl);
        if (pl >= sizeof(struct xfrm_usersa_flush)) printf(", \"proto\": %u", ((const struct xfrm_usersa_flush *)p)->proto);
        break;
    default: printf(", \"kind\": \"OTHER\""); break;
    }
    printf(", \"framing_ok\": %s}\n", ok && h->nlmsg_len == n ? "true" : "false");
}

/* encode: lines "acquire family=2 daddr=.. saddr=.. sel_family=2 sel_saddr=.. sel_daddr=.. sport=.. dport=.. proto=.. index=.. [tmpl_family=..] pfxs=.. pfxd=.. seq=.."
 *                "expire family=2 daddr=.. spi=hex8 proto=50 hard=1", "ack seq=..", "error errno=17 seq=.." */
static const char *kv(char **tok, int n, const char *k, const char *dflt) {
    size_t kl = strlen(k);
    for (int i = 0; i < n; i++) if (!strncmp(tok[i], k, kl) && tok[i][kl] == '=') return tok[i] + kl + 1;
    return dflt;
}
static void setaddr(xfrm_address_t *a, int family, const char *s) { memset(a, 0, sizeof *a); inet_pton(family, s, a); }
static void encode_line(char *line) {
    char *tok[64]; int n = 0;
    for (char *t = strtok(line, " \t\r\n"); t && n < 64; t = strtok(NULL, " \t\r\n")) tok[n++] = t;
    if (!n) return;
    unsigned char buf[4096]; memset(buf, 0, sizeof buf);
    struct nlmsghdr *h = (struct nlmsghdr *)buf; size_t len = NLMSG_HDRLEN;
    h->nlmsg_seq = (uint32_t)strtoul(kv(tok, n, "seq", "0"), 0, 0); h->nlmsg_pid = (uint32_t)strtoul(kv(tok, n, "pid", "0"), 0, 0);
    if (!strcmp(tok[0], "acquire")) {
        struct xfrm_user_acquire *q = (struct xfrm_user_acquire *)(buf + len);
        int fam = atoi(kv(tok, n, "family", "2")), sfam = atoi(kv(tok, n, "sel_family", "2"));
        h->nlmsg_type = XFRM_MSG_ACQUIRE;
        setaddr(&q->id.daddr, fam, kv(tok, n, "daddr", fam == 2 ? "0.0.0.0" : "::")); q->id.proto = (uint8_t)atoi(kv(tok, n, "ipsec_proto", "50"));
        setaddr(&q->saddr, fam, kv(tok, n, "saddr", fam == 2 ? "0.0.0.0" : "::"));
        q->sel.family = (uint16_t)sfam; setaddr(&q->sel.saddr, sfam, kv(tok, n, "sel_saddr", sfam == 2 ? "0.0.0.0" : "::"));
        setaddr(&q->sel.daddr, sfam, kv(tok, n, "sel_daddr", sfam == 2 ? "0.0.0.0" : "::"));
        q->sel.sport = htons((uint16_t)atoi(kv(tok, n, "sport", "0"))); q->sel.dport = htons((uint16_t)atoi(kv(tok, n, "dport", "0")));
        q->sel.sport_mask = q->sel.sport ? 0xffff : 0; q->sel.dport_mask = q->sel.dport ? 0xffff : 0;
        q->sel.proto = (uint8_t)atoi(kv(tok, n, "proto", "0")); q->sel.prefixlen_s = (uint8_t)atoi(kv(tok, n, "pfxs", sfam == 2 ? "32" : "128"));
        q->sel.prefixlen_d = (uint8_t)atoi(kv(tok, n, "pfxd", sfam == 2 ? "32" : "128"));
        q->policy.index = (uint32_t)strtoul(kv(tok, n, "index", "0"), 0, 0); q->policy.dir = XFRM_POLICY_OUT; q->policy.sel = q->sel;
        q->aalgos = q->ealgos = q->calgos = 0xffffffff; q->seq = h->nlmsg_seq;
        len += NLMSG_ALIGN(sizeof *q);
        struct nlattr *a = (struct nlattr *)(buf + len); struct xfrm_user_tmpl *t = (struct xfrm_user_tmpl *)(buf + len + NLA_HDRLEN);
        a->nla_type = XFRMA_TMPL; a->nla_len = NLA_HDRLEN + sizeof *t;
        t->family = (uint16_t)atoi(kv(tok, n, "tmpl_family", kv(tok, n, "family", "2"))); t->id.daddr = q->id.daddr; t->saddr = q->saddr; t->id.proto = q->id.proto;
        t->mode = (uint8_t)atoi(kv(tok, n, "mode", "0")); t->aalgos = t->ealgos = t->calgos = 0xffffffff;
        len += NLA_ALIGN(a->nla_len);
    } else if (!strcmp(tok[0], "expire")) {
        struct xfrm_user_expire *x = (struct xfrm_user_expire *)(buf + len);
        int fam = atoi(kv(tok, n, "family", "2"));
        h->nlmsg_type = XFRM_MSG_EXPIRE; x->state.family = (uint16_t)fam;
        setaddr(&x->state.id.daddr, fam, kv(tok, n, "daddr", fam == 2 ? "0.0.0.0" : "::"));
        x->state.id.spi = htonl((uint32_t)strtoul(kv(tok, n, "spi", "0"), 0, 16)); x->state.id.proto = (uint8_t)atoi(kv(tok, n, "proto", "50"));
        x->hard = (uint8_t)atoi(kv(tok, n, "hard", "0"));
        len += NLMSG_ALIGN(sizeof *x);
    } else if (!strcmp(tok[0], "ack") || !strcmp(tok[0], "error")) {
        struct nlmsgerr *e = (struct nlmsgerr *)(buf + len);
        h->nlmsg_type = NLMSG_ERROR; e->error = -atoi(kv(tok, n, "errno", "0")); e->msg.nlmsg_seq = h->nlmsg_seq;
        e->msg.nlmsg_type = (uint16_t)atoi(kv(tok, n, "reqtype", "16")); e->msg.nlmsg_len = NLMSG_HDRLEN;
        len += NLMSG_ALIGN(sizeof *e);
    } else { printf("?\n"); return; }
    h->nlmsg_len = (uint32_t)len;
    hexout(buf, len); printf("\n");
}

int main(int argc, char **argv) {
    static char line[20000]; static unsigned char buf[10000];
    if (argc < 2) return 2;
    if (!strcmp(argv[1], "layout")) { layout(); return 0; }
    if (!strcmp(argv[1], "decode")) { while (fgets(line, sizeof line, stdin)) { size_t n = unhex(line, buf, sizeof buf); decode_one(buf, n); } return 0; }
    if (!strcmp(argv[1], "encode")) { while (fgets(line, sizeof line, stdin)) encode_line(line); return 0; }
    return 2;
}
