#!/bin/sh
# setup_cmd: build everything from files on disk only (offline).
set -e
cd "$(dirname "$0")"
gcc -O1 -o native/xfrmcodec native/xfrmcodec.c
./native/xfrmcodec layout > native/layout.json
mkdir -p evidence replays
# every specification must parse
for f in spec/*.tla; do
  [ -e "$f" ] || continue
  ( cd spec && tla-sany "$(basename "$f")" >/dev/null 2>&1 ) || { echo "SANY failed on $f"; ( cd spec && tla-sany "$(basename "$f")" | tail -20 ); exit 1; }
done
echo "setup ok"
